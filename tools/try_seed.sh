#!/bin/bash
# tools/try_seed.sh <seed-dir> <prop> [tier]  -- confirm a seeded change (demo fails with it, passes without; test suite unchanged)
# and run the property's check against it. Uses a scratch worktree of /repo HEAD under /work/try (removed afterwards).
set -u
SEED=$(realpath "$1"); PROP=$2; TIER=${3:-quick}
VROOT=$(cd "$(dirname "$(realpath "$0")")/.." && pwd)   # the /verif checkout this script lives in (a worktree in parallel work)
WT=/work/try/$PROP-$$/repo
mkdir -p "$(dirname "$WT")"
git -C /repo worktree add -q --detach "$WT" "${SEED_BASE:-HEAD}" || exit 2
cleanup() { git -C /repo worktree remove --force "$WT" 2>/dev/null; rm -rf "$(dirname "$WT")"; }
trap cleanup EXIT
echo "== demo on unchanged tree"; (cd "$WT" && PYTHONPATH="$WT/src" /venv/bin/python "$SEED/demo.py" 2>&1 | grep -v conda | tail -2); echo "exit=$?"
git -C "$WT" apply "$SEED/patch.diff" || { echo "PATCH DOES NOT APPLY"; exit 2; }
echo "== demo with the change"; (cd "$WT" && PYTHONPATH="$WT/src" /venv/bin/python "$SEED/demo.py" 2>&1 | grep -v conda | tail -2)
if [ "${SKIP_BASELINE:-0}" != "1" ]; then echo "== test suite with the change"; "$VROOT"/tools/baseline.sh "$WT" 2>&1 | grep -v conda | tail -2; fi
echo "== check $PROP ($TIER) with the change"
cd "$VROOT" && MXLPY_REPO="$WT" python3 run.py --prop "$PROP" --tier "$TIER" 2>&1 | grep -v conda | tail -4
git -C "$VROOT" checkout -q -- evidence 2>/dev/null
