#!/bin/bash
# tools/run_all.sh [tier] [jobs] [props...] -- run the registered checks of every (or the named) property against /repo
# (or $MXLPY_REPO) and print one line per check: exit code, wall time, summary. Logs under .work/runall/. Exit 0 iff all exit 0.
TIER=${1:-quick}; JOBS=${2:-3}; shift 2 2>/dev/null
ROOT=$(cd "$(dirname "$(realpath "$0")")/.." && pwd)
PROPS=${*:-$(python3 -c "import json;print(' '.join(json.loads(l)['id'] for l in open('$ROOT/properties.jsonl') if l.strip()))")}
mkdir -p "$ROOT/.work/runall"
cd "$ROOT" || exit 2
export TIER
printf '%s\n' $PROPS | xargs -P "$JOBS" -I{} sh -c 'S=$(date +%s); python3 run.py --prop {} --tier $TIER > .work/runall/{}.$TIER.${VERIF_SEED:-0}.log 2>&1; rc=$?; echo "{} exit=$rc $(( $(date +%s)-S ))s $(grep "^\[{}\]" .work/runall/{}.$TIER.${VERIF_SEED:-0}.log | tail -1 | cut -c1-200)"' | sort | tee .work/runall/summary.$TIER.${VERIF_SEED:-0}.txt
! grep -qv " exit=0 " .work/runall/summary.$TIER.${VERIF_SEED:-0}.txt
