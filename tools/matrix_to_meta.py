#!/usr/bin/env python3
"""tools/matrix_to_meta.py <partial MATRIX json> ... : merge partial seed-matrix results into seeded/MATRIX.json and record, in every
seed's meta.json, what the property's quick check did with it on the final tree of the round."""
import json
import sys
from pathlib import Path

ROOT = Path(__file__).resolve().parent.parent
tot, head = {}, None
for f in sys.argv[1:]:
    for k, v in json.loads(Path(f).read_text()).items():
        if isinstance(v, dict):
            tot[k] = v
        else:
            head = v
tot["_repo_head"] = head
(ROOT / "seeded" / "MATRIX.json").write_text(json.dumps(tot, indent=1, sort_keys=True))
n = 0
for name, v in tot.items():
    mf = ROOT / "seeded" / name / "meta.json"
    if not isinstance(v, dict) or not mf.exists():
        continue
    m = json.loads(mf.read_text())
    prop = v.get("check") or m.get("property")
    line = (f"python3 run.py --prop {prop} --tier quick with the patch: {v['result']} [final tree of round 4, /repo {head}; "
            f"patch file {v.get('patch')}, demo {v.get('demo', 'demo.py')} fails with it: {v.get('demo_fails')}; {(v.get('summary') or '')[:160]}]")
    c = [x for x in m.get("confirmed_by_us", []) if "final tree of round 4" not in x]
    if any("run.py" in x for x in c):
        c.append(line.replace("python3 run.py", "re-run: run.py", 1))   # keep the original note first (it names the stratum that catches it)
    else:
        c.append(line)
    m["confirmed_by_us"] = c
    mf.write_text(json.dumps(m, indent=1))
    n += 1
print("updated", n, "meta.json files; MATRIX.json has", len(tot) - 1, "seeds")
