#!/usr/bin/env python3
"""tools/seed_matrix.py [Cxx ...] — re-run every kept seeded change against the CURRENT /repo HEAD and /verif checks.

For each seeded/<id>/: apply patch.diff (or the newest re-based patch.*.diff that applies) to a scratch worktree of /repo HEAD,
run demo.py (must FAIL), run the property's quick check with MXLPY_REPO pointing at it (must exit 1 with a VIOLATION line).
Writes seeded/MATRIX.json. Properties run in parallel, seeds of one property sequentially. Scratch worktrees are removed."""
import json
import os
import re
import subprocess
import sys
from concurrent.futures import ThreadPoolExecutor
from pathlib import Path

ROOT = Path(__file__).resolve().parent.parent
SEEDED = ROOT / "seeded"


def sh(cmd, **kw):
    return subprocess.run(cmd, capture_output=True, text=True, **kw)


def one_property(prop):
    out = {}
    seeds = sorted(d for d in SEEDED.iterdir() if d.is_dir() and d.name.startswith(prop + "-"))
    for sd in seeds:
        meta = json.loads((sd / "meta.json").read_text())
        wt = Path(f"/work/try/matrix-{sd.name}/repo")
        wt.parent.mkdir(parents=True, exist_ok=True)
        sh(["git", "-C", "/repo", "worktree", "remove", "--force", str(wt)])
        sh(["git", "-C", "/repo", "worktree", "add", "-q", "--detach", str(wt), os.environ.get("SEED_BASE", "HEAD")])  # SEED_BASE: e.g. a pending fix branch
        res = {"property": prop}
        try:
            patches = [sd / "patch.diff"] + sorted(p for p in sd.glob("patch.*.diff") if p.name != "patch.orig.diff")
            applied = None
            for p in reversed(patches):  # newest re-based first
                if sh(["git", "-C", str(wt), "apply", "--check", str(p)]).returncode == 0:
                    sh(["git", "-C", str(wt), "apply", str(p)])
                    applied = p.name
                    break
            res["patch"] = applied
            if applied is None:
                res["result"] = "patch no longer applies to /repo HEAD (the code it edited was changed by a later repair)"
            else:
                env = dict(os.environ, PYTHONPATH=str(wt / "src"))
                demo = sd / "demo.r4.py" if (sd / "demo.r4.py").exists() else sd / "demo.py"  # adapted to the repaired library
                res["demo"] = demo.name
                d = sh(["/venv/bin/python", str(demo)], cwd=str(wt), env=env)
                res["demo_fails"] = d.returncode != 0
                moot = d.returncode == 0   # on the repaired tree the seeded change no longer breaks the property (demo passes with it)
                # which check is expected to catch it (the seed's own property unless meta says another check does)
                checks = [prop]
                txt = " ".join(meta.get("confirmed_by_us", []))
                m = re.findall(r"caught by the (C\d\d) check", txt)
                if ("missed by the " + prop) in txt and m:
                    checks = m[:1]
                for ck in checks:
                    env2 = dict(os.environ, MXLPY_REPO=str(wt), VERIF_SEED="0")
                    c = sh(["python3", "run.py", "--prop", ck, "--tier", "quick"], cwd=str(ROOT), env=env2)
                    line = [l for l in c.stdout.splitlines() if l.startswith(f"[{ck}]")]
                    res["check"] = ck
                    res["exit"] = c.returncode
                    res["violation_line"] = any(l.startswith("VIOLATION") for l in c.stdout.splitlines())
                    res["nfi"] = "no-failing-input-found" in c.stdout
                    res["summary"] = line[-1] if line else c.stdout[-300:]
                res["result"] = ("caught" if res.get("exit") == 1 and res.get("violation_line") else "MISSED") + \
                    (" (no failing input)" if res.get("nfi") else "")
                if moot:
                    res["result"] = ("moot on the repaired tree: demo.py passes WITH the patch (a later repair made the change "
                                     "behaviour-preserving); check: " + res["result"])
        finally:
            sh(["git", "-C", "/repo", "worktree", "remove", "--force", str(wt)])
            try:
                wt.parent.rmdir()
            except OSError:
                pass
        out[sd.name] = res
        print(sd.name, res.get("patch"), res["result"], flush=True)
    return out


def main():
    props = sys.argv[1:] or sorted({d.name.split("-")[0] for d in SEEDED.iterdir() if d.is_dir()})
    allres = {}
    mp = Path(os.environ["MATRIX_OUT"]) if os.environ.get("MATRIX_OUT") else SEEDED / "MATRIX.json"  # partial results of one checkout
    if mp.exists():
        allres = json.loads(mp.read_text())
    with ThreadPoolExecutor(max_workers=int(os.environ.get('MATRIX_JOBS', '4'))) as ex:  # one checkout shares Generated/*.lean: use MATRIX_JOBS=1 per checkout and several checkouts
        for r in ex.map(one_property, props):
            allres.update(r)
    head = sh(["git", "-C", "/repo", "log", "-1", "--format=%h %s"]).stdout.strip()
    allres["_repo_head"] = head
    mp.write_text(json.dumps(allres, indent=1, sort_keys=True))
    miss = [k for k, v in allres.items() if isinstance(v, dict) and v.get("result", "").startswith("MISSED")]
    print("MISSED:", miss)


if __name__ == "__main__":
    main()
