#!/usr/bin/env python3
"""tools/seed_prompt.py Cxx [n]  -> creates /work/seed/Cxx/repo (worktree of /repo HEAD) and prints the prompt for a fresh
sub-agent that is given only the property text (nothing from /verif)."""
import json
import subprocess
import sys
from pathlib import Path

pid = sys.argv[1]
n = int(sys.argv[2]) if len(sys.argv) > 2 else 3
rnd = sys.argv[3] if len(sys.argv) > 3 else "r3"
props = {json.loads(l)["id"]: json.loads(l) for l in open("/verif/properties.jsonl")}
p = props[pid]
wt = Path(f"/work/seed/{pid}/repo-{rnd}")
out = Path(f"/work/seed/{pid}/out")
out.mkdir(parents=True, exist_ok=True)
if not wt.exists():
    subprocess.check_call(["git", "-C", "/repo", "worktree", "add", "-q", "--detach", str(wt), "HEAD"])
t = open("/work/SEED_PROMPT.md").read()
print(t.format(WT=wt, OUT=out, PID=pid, TITLE=p["title"], STATEMENT=p["statement"], QUANT=p["quantifier"]["text"],
               FILES=", ".join(p["anchors"]["files"]), N=n, ROUND=rnd))
