#!/bin/bash
# tools/baseline.sh [repo-dir]  -- runs the pinned test suite of a repo checkout (default /repo) and
# compares with /root/.vp/BASELINE.json's stable_pass list. Exit 0 iff every stable_pass test passes.
REPO=${1:-/repo}
OUT=$(mktemp -d /var/tmp/mxlverif-baseline-XXXX)
cd "$REPO" && PYTHONPATH="$REPO/src" /venv/bin/python -m pytest -q -p no:cacheprovider --timeout=900 \
  --continue-on-collection-errors -n ${BASELINE_JOBS:-8} --junitxml="$OUT/junit.xml" >"$OUT/log.txt" 2>&1
tail -3 "$OUT/log.txt"
/venv/bin/python - "$OUT/junit.xml" <<'PY'
import json, sys, xml.etree.ElementTree as ET
stable = set(json.load(open('/root/.vp/BASELINE.json'))['stable_pass'])
passed = set()
for tc in ET.parse(sys.argv[1]).getroot().iter('testcase'):
    if not any(ch.tag in ('failure', 'error', 'skipped') for ch in tc):
        passed.add(f"{tc.get('classname')}::{tc.get('name')}")
missing = sorted(stable - passed)
print(f"stable_pass={len(stable)} passed_now={len(passed)} stable_not_passing={len(missing)}")
for m in missing[:40]:
    print("  NOT PASSING:", m)
sys.exit(1 if missing else 0)
PY
rc=$?
rm -rf "$OUT"
exit $rc
