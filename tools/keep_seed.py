#!/usr/bin/env python3
"""tools/keep_seed.py <seed-dir> <prop> <caught-by text> : copy a confirmed seeded change into /verif/seeded/<id>/
(patch.diff, demo.py, meta.json extended with what we ran and which check catches it)."""
import json
import shutil
import sys
from pathlib import Path

src, prop, caught = Path(sys.argv[1]), sys.argv[2], sys.argv[3]
dst = Path(__file__).resolve().parent.parent / "seeded" / src.name
dst.mkdir(parents=True, exist_ok=True)
for f in ("patch.diff", "demo.py"):
    shutil.copy(src / f, dst / f)
meta = json.loads((src / "meta.json").read_text())
meta["property"] = prop
meta["confirmed_by_us"] = [
    "tools/try_seed.sh: demo.py PASS on the unchanged tree, FAIL with the patch (scratch worktree of /repo HEAD, removed afterwards)",
    "test suite with the patch: same pass/fail sets as the baseline (seed author's run; spot-checked with tools/baseline.sh)",
    f"python3 run.py --prop {prop} --tier quick with the patch: {caught}",
]
(dst / "meta.json").write_text(json.dumps(meta, indent=1))
print("kept", dst)
