#!/bin/bash
# /work/merge_builder.sh X : cherry-pick new fix commits of fix-bX-r4 (by subject) onto /repo main; merge bX-r4 into /verif main
b=$1
cd /repo || exit 2
[ -z "$(git status --short)" ] || { echo "/repo dirty"; exit 2; }
for c in $(git rev-list --reverse --no-merges main..fix-b$b-r4); do
  s=$(git log -1 --format=%s $c)
  if git log --format=%s main | grep -qxF "$s"; then continue; fi
  if git cherry-pick $c >/dev/null 2>&1; then echo "picked: ${s:0:110}"; else echo "CONFLICT $c ${s:0:100}"; git status --short | grep -E "^(UU|AA)"; git cherry-pick --abort; fi
done
cd /verif || exit 2
git checkout -q -- evidence lean/MxlVerif/MxlVerif/Generated 2>/dev/null
[ -z "$(git status --short)" ] || { echo "/verif dirty:"; git status --short | head; exit 2; }
if ! git merge -q --no-edit b$b-r4 >/dev/null 2>&1; then
  for f in $(git status --short | grep -E "^(UU|AA)" | awk '{print $2}'); do
    case $f in evidence/*|lean/MxlVerif/MxlVerif/Generated/*|lean/MxlVerif/Driver/Main.lean|DESIGN.md|MANIFEST.json|known_findings.json|seeded/MATRIX.json) git checkout --theirs -- $f; git add $f;; *) echo "UNRESOLVED $f";; esac
  done
  if git status --short | grep -qE "^(UU|AA|DU|UD)"; then echo "MERGE NEEDS HANDS"; exit 1; fi
  git commit -qm "Merge b$b-r4 (round 4b)"
fi
git log --oneline | head -1
