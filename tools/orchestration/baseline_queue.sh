#!/bin/bash
# /work/baseline_queue.sh <seed-dir> ...  full pinned test suite with each seeded change applied (scratch worktree, removed)
for dir in "$@"; do
  name=$(basename "$dir"); WT=/work/try/base-$name/repo
  [ -f /work/seedlogs/$name.baseline ] && grep -q stable_not_passing /work/seedlogs/$name.baseline && continue
  mkdir -p "$(dirname $WT)"; git -C /repo worktree add -q --detach "$WT" HEAD || continue
  if git -C "$WT" apply "$dir/patch.diff"; then BASELINE_JOBS=6 /verif/tools/baseline.sh "$WT" 2>&1 | grep -v conda | tail -3 > /work/seedlogs/$name.baseline; else echo "PATCH DOES NOT APPLY" > /work/seedlogs/$name.baseline; fi
  git -C /repo worktree remove --force "$WT"; rm -rf "$(dirname $WT)"
  echo "$name: $(tail -1 /work/seedlogs/$name.baseline)"
done
