#!/bin/bash
# confirm_demo.sh <seed-dir> [base]: demo passes on base, fails with patch
d=$1; base=${2:-b7ac195}; n=$(basename $d); WT=/work/try/demo-$n/repo
mkdir -p $(dirname $WT); git -C /repo worktree add -q --detach $WT $base || exit 2
(cd $WT && PYTHONPATH=$WT/src timeout 900 /venv/bin/python $d/demo.py >/dev/null 2>&1); a=$?
git -C $WT apply $d/patch.diff 2>/dev/null || a="$a PATCH-FAIL"
(cd $WT && PYTHONPATH=$WT/src timeout 900 /venv/bin/python $d/demo.py >/dev/null 2>&1); b=$?
git -C /repo worktree remove --force $WT; rm -rf $(dirname $WT)
echo "$n clean=$a patched=$b"
