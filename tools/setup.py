#!/usr/bin/env python3
"""MANIFEST.setup_cmd: regenerate Generated/*.lean and Driver/Main.lean from /repo, then build everything offline."""
import subprocess
import sys
from pathlib import Path

ROOT = Path(__file__).resolve().parent.parent
sys.path.insert(0, str(ROOT))
from vlib import gen_main  # noqa: E402

gen_main.write()
try:
    from translate import run_all  # noqa: E402
    run_all.main()
except ImportError:
    pass
rc = subprocess.call(["lake", "build"], cwd=ROOT / "lean" / "MxlVerif")
sys.exit(rc)
