#!/usr/bin/env python3
"""MANIFEST.setup_cmd: regenerate Generated/*.lean and Driver/Main.lean from /repo, then build everything offline."""
import os as _os
import sys as _sys

if _os.path.exists("/venv/bin/python") and _os.path.realpath(_sys.executable) != _os.path.realpath("/venv/bin/python") and not _os.environ.get("MXLVERIF_NO_REEXEC"):
    # the repository's sources use Python 3.12 syntax; parse them with the interpreter that runs them
    _os.environ["MXLVERIF_NO_REEXEC"] = "1"
    _os.execv("/venv/bin/python", ["/venv/bin/python", *_sys.argv])

import subprocess
import sys
from pathlib import Path

ROOT = Path(__file__).resolve().parent.parent
sys.path.insert(0, str(ROOT))
from vlib import gen_main  # noqa: E402

gen_main.write()
try:
    from translate import run_all  # noqa: E402
    run_all.main()
except ImportError:
    pass
rc = subprocess.call(["lake", "build"], cwd=ROOT / "lean" / "MxlVerif")
sys.exit(rc)
