#!/usr/bin/env python3
"""Regenerates MANIFEST.json (from tools/manifest.d/*.json) and known_findings.json
(from known_findings.d/*.json); validates the manifest against the schema when jsonschema is importable."""
import json
import sys
from pathlib import Path

ROOT = Path(__file__).resolve().parent.parent
props = [json.loads(l)["id"] for l in (ROOT / "properties.jsonl").read_text().splitlines() if l.strip()]
checks, na = [], []
for pid in props:
    f = ROOT / "tools" / "manifest.d" / f"{pid}.json"
    row = json.loads(f.read_text()) if f.exists() else None
    if not row or not row.get("claimed"):
        na.append({"property_id": pid, "reason": (row or {}).get("reason", "check not built yet; planned in DESIGN.md §6")})
        continue
    checks.append({
        "property_id": pid,
        "quick_cmd": f"python3 run.py --prop {pid} --tier quick",
        "thorough_cmd": f"python3 run.py --prop {pid} --tier thorough",
        "evidence_file": f"evidence/{pid}.json",
        "replay_cmd_template": f"python3 run.py --prop {pid} --replay {{path}}",
        "engine": "lean4-proof+correspondence",
        "level_claimed": {"category": "proof", "text": row["text"], "design_ref": f"DESIGN.md §6/{pid} and design.d/{pid}.md"},
        "level_note": row["note"],
        "technique": row["technique"],
    })
man = {
    "version": 1,
    "setup_cmd": "python3 tools/setup.py",
    "hooks": {
        "guard": "MXLPY_VERIF",
        "enable": "no hooks are compiled into /repo; checks import /repo/src through /venv's editable install (or $MXLPY_REPO/src)",
        "baseline_off_cmd": "cd /repo && /venv/bin/python -m pytest -ra -q -p no:cacheprovider --timeout=900 --continue-on-collection-errors",
        "source_commits": [],
        "add_only": True,
    },
    "engines": [{
        "name": "lean4-proof+correspondence",
        "path": "lean/MxlVerif",
        "serves_properties": [c["property_id"] for c in checks],
        "kind_free_text": "Lean 4 theorems over executable models (lean/MxlVerif/MxlVerif/{Model,Props}); models tied to /repo by translators (translate/) and a differential correspondence harness (harness/, vlib/) through a compiled Lean driver (line protocol)",
    }],
    "checks": checks,
    "notes": (ROOT / "tools" / "manifest_notes.txt").read_text().strip(),
    "not_applicable": na,
}
(ROOT / "MANIFEST.json").write_text(json.dumps(man, indent=1) + "\n")
findings = []
for f in sorted((ROOT / "known_findings.d").glob("*.json")):
    findings += json.loads(f.read_text())
(ROOT / "known_findings.json").write_text(json.dumps({
    "comment": "Genuine defects of the pinned MxlPy tree that the checks reproduce (merged from known_findings.d/). status=known: printed as KNOWN-FINDING, exit 0. status=fixed: 'fixed: property=<id> <commit> <what failed>'; suppresses nothing. Never written at run time.",
    "findings": findings,
    "fixed_lines": [f"fixed: property={e['property']} {e.get('commit','?')} {e['what']}" for e in findings if e.get("status") == "fixed"],
}, indent=1) + "\n")
try:
    import jsonschema
    jsonschema.validate(man, json.loads(Path("/root/.vp/MANIFEST.schema.json").read_text()))
    print("MANIFEST.json valid;", len(checks), "checks,", len(na), "not_applicable;", len(findings), "findings")
except ImportError:
    print("jsonschema unavailable; wrote MANIFEST.json unvalidated")
