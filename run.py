#!/usr/bin/env python3
"""Entry point: run.py --prop C07 [--tier quick|thorough] [--replay file]

Re-executes itself under /venv/bin/python (where mxlpy is an editable install of /repo/src,
so every run sees /repo's current working tree)."""
import argparse
import importlib
import json
import os
import sys
import time
import traceback
from pathlib import Path

ROOT = Path(__file__).resolve().parent
VENV_PY = "/venv/bin/python"

if os.path.exists(VENV_PY) and os.path.realpath(sys.executable) != os.path.realpath(VENV_PY) and not os.environ.get("MXLVERIF_NO_REEXEC"):
    os.environ["MXLVERIF_NO_REEXEC"] = "1"
    os.execv(VENV_PY, [VENV_PY, *sys.argv])

sys.path.insert(0, str(ROOT))
if os.environ.get("MXLPY_REPO"):  # run the checks against another checkout of MxlPy
    _src = os.path.join(os.environ["MXLPY_REPO"], "src")
    sys.path.insert(0, _src)
    os.environ["PYTHONPATH"] = _src + os.pathsep + os.environ.get("PYTHONPATH", "")
os.environ.setdefault("PYTHONWARNINGS", "ignore")
os.environ.setdefault("PYTHONDONTWRITEBYTECODE", "1")


def main() -> int:
    ap = argparse.ArgumentParser()
    ap.add_argument("--prop", required=True)
    ap.add_argument("--tier", default=os.environ.get("VERIF_TIER", "quick"), choices=["quick", "thorough"])
    ap.add_argument("--replay")
    a = ap.parse_args()
    seed = int(os.environ.get("VERIF_SEED", "0") or 0)
    from vlib.framework import Ctx

    ctx = Ctx(a.prop, a.tier, seed)
    # overall watchdog: a check that hangs is neither a pass nor a violation (exit 2)
    import signal

    limit = int(os.environ.get("VERIF_TIME_LIMIT", "1500" if a.tier == "quick" else "7200"))

    def _descendants(root):
        kids = {}
        for d in os.listdir("/proc"):
            if d.isdigit():
                try:
                    with open(f"/proc/{d}/stat") as f:
                        parts = f.read().rsplit(")", 1)[1].split()
                    kids.setdefault(int(parts[1]), []).append(int(d))
                except OSError:
                    pass
        out, todo = [], [root]
        while todo:
            for k in kids.get(todo.pop(), []):
                out.append(k)
                todo.append(k)
        return out

    def _too_long(signum, frame):
        print(f"[{a.prop}] TIMEOUT after {limit}s (exit 2)")
        sys.stdout.flush()
        for pid in _descendants(os.getpid()):
            try:
                os.kill(pid, signal.SIGKILL)
            except OSError:
                pass
        os._exit(2)

    signal.signal(signal.SIGALRM, _too_long)
    signal.alarm(limit)
    try:
        mod = importlib.import_module(f"harness.{a.prop.lower()}")
        if a.replay:
            rp = json.loads(Path(a.replay).read_text())
            mod.setup(ctx)
            if "case" not in rp:
                # a `no-failing-input-found` replay names the obligations / correspondence that no longer checked:
                # re-check them now (setup has rebuilt and audited the theorems) and replay the first drifting input
                print("replay of a no-failing-input-found report; obligations broken then:", rp.get("broken_obligations"))
                print("obligations broken now:", ctx.broken_obligations or "none")
                fd = rp.get("first_drift")
                if fd and "case" in fd:
                    mod.replay(ctx, {"case": fd["case"]})
            else:
                mod.replay(ctx, rp)
        else:
            mod.run(ctx)
        return ctx.finish()
    except Exception:  # noqa: BLE001  machinery failure: neither pass nor violation
        traceback.print_exc()
        print(f"[{a.prop}] INTERNAL ERROR after {time.time() - ctx.t0:.1f}s (exit 2)")
        return 2


if __name__ == "__main__":
    sys.exit(main())
