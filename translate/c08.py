"""translate/c08.py — reads src/mxlpy/sbml/_export.py of the repo under test with `ast` and writes
lean/MxlVerif/MxlVerif/Generated/C08Tables.lean:

  unaryTable / binaryTable / naryTable   the UNARY / BINARY / NARY dicts (function name -> node type)
  unaryOpTable / binOpTable / cmpOpTable the `match` tables of _convert_unaryop / _convert_binop / the comparison converter
  libParents                             the module names accepted in front of a library call / constant
  attrConstTable                         math.e / pi / inf / nan
  ifexpOrder                             order in which _convert_ifexp adds (test, body, orelse) as children
  computedSide, negSide, nonnegSide      which side of a reaction a computed / negative / non-negative coefficient goes to
  unknownCallRaises                      the fall-through of _convert_direct_call/_convert_library_call raises
  arityChecked                           UNARY / BINARY branches check len(node.args)
  logWithBase                            the unary branch gives AST_FUNCTION_LOG its base 10 as first child
  binaryNumpyOnly                        BINARY is not consulted for `math.<name>` calls
  iaSetter                               the libsbml setter used for the symbol of an initial assignment
  bodyFirstReturn                        _handle_body returns at the first `return` and raises ValueError when there is none
                                         (false: the older shape, every statement converted and the last one kept)
  refFresh, refSuffix                    the name of the species reference of a computed coefficient: f"{compound_id}<suffix>",
                                         made unique against set(model.ids) and the references written before by _free_reference
  prefixes                               the prefix each kind of component id is escaped with (PAR, CPD, AR, IA, RXN)
  exportOrder                            the order in which _model_to_sbml writes the component kinds
(_convert_call must refuse keyword arguments before anything else: the model has no other reading of them.)

Anything outside the shapes recognised here raises Unsupported: the run then reports the proof side as broken
instead of keeping a stale table.
"""
from __future__ import annotations

import ast
import hashlib
from pathlib import Path


class Unsupported(Exception):
    pass


MTYPE = {
    "AST_PLUS": "plus", "AST_MINUS": "minus", "AST_TIMES": "times", "AST_DIVIDE": "divide", "AST_POWER": "power",
    "AST_FUNCTION_POWER": "fnPower", "AST_FUNCTION_QUOTIENT": "fnQuotient", "AST_FUNCTION_REM": "fnRem",
    "AST_FUNCTION_ROOT": "fnRoot", "AST_FUNCTION_ABS": "fnAbs", "AST_FUNCTION_CEILING": "fnCeiling",
    "AST_FUNCTION_FLOOR": "fnFloor", "AST_FUNCTION_EXP": "fnExp", "AST_FUNCTION_LN": "fnLn", "AST_FUNCTION_LOG": "fnLog",
    "AST_FUNCTION_SIN": "fnSin", "AST_FUNCTION_COS": "fnCos", "AST_FUNCTION_TAN": "fnTan",
    "AST_FUNCTION_ARCSIN": "fnArcsin", "AST_FUNCTION_ARCCOS": "fnArccos", "AST_FUNCTION_ARCTAN": "fnArctan",
    "AST_FUNCTION_SINH": "fnSinh", "AST_FUNCTION_COSH": "fnCosh", "AST_FUNCTION_TANH": "fnTanh",
    "AST_FUNCTION_ARCSINH": "fnArcsinh", "AST_FUNCTION_ARCCOSH": "fnArccosh", "AST_FUNCTION_ARCTANH": "fnArctanh",
    "AST_FUNCTION_MAX": "fnMax", "AST_FUNCTION_MIN": "fnMin", "AST_FUNCTION_PIECEWISE": "fnPiecewise",
    "AST_FUNCTION_FACTORIAL": "fnFactorial",
    "AST_LOGICAL_AND": "logicalAnd", "AST_LOGICAL_OR": "logicalOr", "AST_LOGICAL_NOT": "logicalNot",
    "AST_LOGICAL_XOR": "logicalXor",
    "AST_RELATIONAL_EQ": "relEq", "AST_RELATIONAL_NEQ": "relNeq", "AST_RELATIONAL_LT": "relLt",
    "AST_RELATIONAL_LEQ": "relLeq", "AST_RELATIONAL_GT": "relGt", "AST_RELATIONAL_GEQ": "relGeq",
    "AST_FUNCTION": "function", "AST_UNKNOWN": "unknown",
}
WIRE = {v: k for k, v in MTYPE.items()}  # Lean constructor -> libsbml constant name (used by the harness too)

UOP = {"USub": "usub", "Not": "not", "UAdd": "uadd", "Invert": "invert"}
BOP = {"Add": "add", "Sub": "sub", "Mult": "mult", "Div": "div", "Pow": "pow", "FloorDiv": "floordiv", "Mod": "mod",
       "MatMult": "matmult", "LShift": "lshift", "RShift": "rshift", "BitOr": "bitor", "BitXor": "bitxor",
       "BitAnd": "bitand"}
COP = {"Eq": "eq", "NotEq": "ne", "Lt": "lt", "LtE": "le", "Gt": "gt", "GtE": "ge", "Is": "is", "IsNot": "isNot",
       "In": "in_", "NotIn": "notIn"}
CSYM = {"AST_CONSTANT_E": ".csym .e", "AST_CONSTANT_PI": ".csym .pi"}


def _libsbml_const(node: ast.expr) -> str:
    if isinstance(node, ast.Attribute) and isinstance(node.value, ast.Name) and node.value.id == "libsbml":
        return node.attr
    raise Unsupported(f"expected libsbml.AST_*, got {ast.dump(node)[:80]}")


def _mtype(node: ast.expr) -> str:
    c = _libsbml_const(node)
    if c not in MTYPE:
        raise Unsupported(f"node type {c} is not in the modelled MathML subset")
    return "." + MTYPE[c]


def _fn(tree: ast.Module, name: str) -> ast.FunctionDef:
    for n in tree.body:
        if isinstance(n, ast.FunctionDef) and n.name == name:
            return n
    raise Unsupported(f"function {name} not found in _export.py")


def _dict_table(tree: ast.Module, name: str) -> list[tuple[str, str]]:
    for n in tree.body:
        if isinstance(n, ast.Assign) and len(n.targets) == 1 and isinstance(n.targets[0], ast.Name) \
                and n.targets[0].id == name:
            if not isinstance(n.value, ast.Dict):
                raise Unsupported(f"{name} is not a dict literal")
            out = []
            for k, v in zip(n.value.keys, n.value.values):
                if not (isinstance(k, ast.Constant) and isinstance(k.value, str)):
                    raise Unsupported(f"{name}: non-string key")
                out.append((k.value, _mtype(v)))
            if len({k for k, _ in out}) != len(out):
                raise Unsupported(f"{name}: duplicate key")
            return out
    raise Unsupported(f"table {name} not found")


def _match_table(fn: ast.FunctionDef, classes: dict[str, str]) -> list[tuple[str, str]]:
    """`match <x>: case ast.K(): op = libsbml.AST_T ... case _: raise` -> [(K, T)]"""
    ms = [n for n in ast.walk(fn) if isinstance(n, ast.Match)]
    if len(ms) != 1:
        raise Unsupported(f"{fn.name}: expected exactly one match statement")
    out = []
    for case in ms[0].cases:
        pat = case.pattern
        if isinstance(pat, ast.MatchAs) and pat.pattern is None:  # case _
            if not (len(case.body) == 1 and isinstance(case.body[0], ast.Raise)):
                raise Unsupported(f"{fn.name}: default case does not raise")
            continue
        if not (isinstance(pat, ast.MatchClass) and isinstance(pat.cls, ast.Attribute) and not pat.patterns
                and not pat.kwd_patterns and pat.cls.attr in classes):
            raise Unsupported(f"{fn.name}: case pattern {ast.dump(pat)[:60]}")
        if not (len(case.body) == 1 and isinstance(case.body[0], ast.Assign)):
            raise Unsupported(f"{fn.name}: case body is not a single assignment")
        out.append(("." + classes[pat.cls.attr], _mtype(case.body[0].value)))
    if len({k for k, _ in out}) != len(out):
        raise Unsupported(f"{fn.name}: duplicate case")
    return out


def _lib_parents(fn: ast.FunctionDef) -> list[str]:
    for n in ast.walk(fn):
        if isinstance(n, ast.Compare) and len(n.ops) == 1 and isinstance(n.ops[0], ast.In) \
                and isinstance(n.left, ast.Name) and n.left.id == "parent" and isinstance(n.comparators[0], ast.Tuple):
            elts = n.comparators[0].elts
            if all(isinstance(e, ast.Constant) and isinstance(e.value, str) for e in elts):
                return [e.value for e in elts]
    raise Unsupported(f"{fn.name}: `parent in (...)` not found")


def _attr_consts(fn: ast.FunctionDef) -> list[tuple[str, str]]:
    out = []
    for n in ast.walk(fn):
        if isinstance(n, ast.If) and isinstance(n.test, ast.Compare) and isinstance(n.test.left, ast.Name) \
                and n.test.left.id == "attr" and isinstance(n.test.ops[0], ast.Eq):
            key = n.test.comparators[0].value
            src = ast.unparse(ast.Module(body=n.body, type_ignores=[]))
            if "AST_CONSTANT_E" in src:
                val = ".csym .e"
            elif "AST_CONSTANT_PI" in src:
                val = ".csym .pi"
            elif "AST_REAL" in src and "np.inf" in src:
                val = ".cnInf"
            elif "AST_REAL" in src and "np.nan" in src:
                val = ".cnNan"
            else:
                raise Unsupported(f"_convert_attribute: constant {key}")
            out.append((key, val))
    if not out:
        raise Unsupported("_convert_attribute: no constants")
    return out


def _ifexp_order(fn: ast.FunctionDef) -> list[str]:
    var: dict[str, str] = {}
    order = []
    for st in fn.body:
        if isinstance(st, ast.Assign) and isinstance(st.value, ast.Call) and isinstance(st.value.func, ast.Name) \
                and st.value.func.id == "_convert_node" and isinstance(st.value.args[0], ast.Attribute):
            var[st.targets[0].id] = st.value.args[0].attr
        if isinstance(st, ast.Expr) and isinstance(st.value, ast.Call) and isinstance(st.value.func, ast.Attribute) \
                and st.value.func.attr == "addChild":
            a = st.value.args[0]
            if not (isinstance(a, ast.Name) and a.id in var):
                raise Unsupported("_convert_ifexp: addChild argument")
            order.append("." + var[a.id])
    if sorted(order) != [".body", ".orelse", ".test"]:
        raise Unsupported(f"_convert_ifexp: children {order}")
    src = ast.unparse(fn)
    if "AST_FUNCTION_PIECEWISE" not in src:
        raise Unsupported("_convert_ifexp: not a piecewise node")
    return order


def _side(call: ast.expr) -> str:
    if isinstance(call, ast.Call) and isinstance(call.func, ast.Attribute) \
            and call.func.attr in ("createReactant", "createProduct"):
        return ".reactant" if call.func.attr == "createReactant" else ".product"
    raise Unsupported(f"reaction side: {ast.dump(call)[:80]}")


def _reaction_sides(fn: ast.FunctionDef) -> tuple[str, str, str]:
    ms = [n for n in ast.walk(fn) if isinstance(n, ast.Match)]
    if len(ms) != 1:
        raise Unsupported("_create_sbml_reactions: match on the coefficient not found")
    neg = nonneg = computed = None
    for case in ms[0].cases:
        src = ast.unparse(case.pattern)
        assigns = [s for s in case.body if isinstance(s, ast.Assign) and isinstance(s.targets[0], ast.Name)
                   and s.targets[0].id == "sref"]
        if src.startswith("float()") or src.startswith("int()"):
            v = assigns[0].value
            if not (isinstance(v, ast.IfExp) and ast.unparse(v.test) == "factor < 0"):
                raise Unsupported("_create_sbml_reactions: numeric coefficient side is not `... if factor < 0 else ...`")
            neg, nonneg = _side(v.body), _side(v.orelse)
            body_src = ast.unparse(ast.Module(body=case.body, type_ignores=[]))
            if "setStoichiometry(abs(factor))" not in body_src:
                raise Unsupported("_create_sbml_reactions: numeric coefficient is not written as abs(factor)")
        elif src.startswith("Derived()"):
            computed = _side(assigns[0].value)
    if None in (neg, nonneg, computed):
        raise Unsupported("_create_sbml_reactions: cases")
    return computed, neg, nonneg


def _unknown_call_raises(fn: ast.FunctionDef) -> bool:
    last = fn.body[-1]
    if isinstance(last, ast.Raise):
        return True
    if isinstance(last, ast.Return):
        return False
    raise Unsupported(f"{fn.name}: fall-through")


def _arity_checked(fn: ast.FunctionDef) -> bool:
    """every `if (typ := UNARY/BINARY.get(..))` branch starts with `_check_arity(_, node, n)` with the right n"""
    want = {"UNARY": 1, "BINARY": 2}
    seen = []
    for n in ast.walk(fn):
        if isinstance(n, ast.If):
            src = ast.unparse(n.test)
            for tab, k in want.items():
                if f"{tab}.get(" in src:
                    first = n.body[0]
                    ok = (isinstance(first, ast.Expr) and isinstance(first.value, ast.Call)
                          and isinstance(first.value.func, ast.Name) and first.value.func.id == "_check_arity"
                          and isinstance(first.value.args[2], ast.Constant) and first.value.args[2].value == k)
                    seen.append(ok)
    if len(seen) != 2:
        raise Unsupported(f"{fn.name}: UNARY/BINARY branches")
    if all(seen):
        return True
    if not any(seen):
        return False
    raise Unsupported(f"{fn.name}: arity checked in some branches only")


def _log_with_base(tree: ast.Module) -> bool:
    """`_unary_node` (if present) prepends the base 10 to AST_FUNCTION_LOG and both unary branches use it"""
    uses = []
    for fname in ("_convert_direct_call", "_convert_library_call"):
        fn = _fn(tree, fname)
        for n in ast.walk(fn):
            if isinstance(n, ast.If) and "UNARY.get(" in ast.unparse(n.test):
                src = ast.unparse(ast.Module(body=n.body, type_ignores=[]))
                if "return _unary_node(typ, node.args[0])" in src:
                    uses.append(True)
                elif "sbml_node = libsbml.ASTNode(typ)" in src and "sbml_node.addChild(_convert_node(node.args[0]))" in src:
                    uses.append(False)
                else:
                    raise Unsupported(f"{fname}: unary branch not recognised")
    if len(uses) != 2 or len(set(uses)) != 1:
        raise Unsupported("unary branches differ between direct and library calls")
    if not uses[0]:
        return False
    src = ast.unparse(_fn(tree, "_unary_node"))
    want = ["sbml_node = libsbml.ASTNode(typ)", "if typ == libsbml.AST_FUNCTION_LOG:",
            "base = libsbml.ASTNode(libsbml.AST_INTEGER)", "base.setValue(10)", "sbml_node.addChild(base)",
            "sbml_node.addChild(_convert_node(arg))", "return sbml_node"]
    pos = [src.find(w) for w in want]
    if -1 in pos or pos != sorted(pos) or len(_fn(tree, "_unary_node").body) != 4:
        raise Unsupported("_unary_node: body not recognised")
    return True


def _binary_numpy_only(tree: ast.Module) -> bool:
    """the BINARY branch of _convert_library_call is guarded by `parent != "math"`"""
    fn = _fn(tree, "_convert_library_call")
    tests = [ast.unparse(n.test) for n in ast.walk(fn) if isinstance(n, ast.If) and "BINARY.get(" in ast.unparse(n.test)]
    if len(tests) != 1:
        raise Unsupported("_convert_library_call: BINARY branch")
    t = tests[0]
    if t == "(typ := BINARY.get(attr)) is not None":
        return False
    if t == "parent != 'math' and (typ := BINARY.get(attr)) is not None":
        return True
    raise Unsupported(f"_convert_library_call: BINARY test `{t}`")


def _check_arity_def(tree: ast.Module) -> bool:
    try:
        fn = _fn(tree, "_check_arity")
    except Unsupported:
        return False
    src = ast.unparse(fn)
    if "len(node.args) != arity" in src and "raise NotImplementedError" in src:
        return True
    raise Unsupported("_check_arity: body not recognised")


def _ia_setter(tree: ast.Module) -> str:
    names = set()
    for fname in ("_create_sbml_variables", "_create_sbml_parameters"):
        fn = _fn(tree, fname)
        for n in ast.walk(fn):
            if isinstance(n, ast.If) and "InitialAssignment" in ast.unparse(n.test):
                for st in n.body:
                    if isinstance(st, ast.Expr) and isinstance(st.value, ast.Call) \
                            and isinstance(st.value.func, ast.Attribute) and st.value.func.attr.startswith("set") \
                            and st.value.func.attr not in ("setId", "setName", "setMath"):
                        names.add(st.value.func.attr)
    if len(names) != 1:
        raise Unsupported(f"initial assignment symbol setter: {sorted(names)}")
    return names.pop()


def _body_first_return(tree: ast.Module) -> bool:
    """shape of _handle_body"""
    fn = _fn(tree, "_handle_body")
    src = ast.unparse(ast.Module(body=[st for st in fn.body if not (isinstance(st, ast.Expr) and isinstance(st.value, ast.Constant))],
                                 type_ignores=[]))
    old = ("code = libsbml.ASTNode()\nfor stmt in stmts:\n    code = _convert_node(stmt)\nreturn code")
    new = ("for stmt in stmts:\n    code = _convert_node(stmt)\n    if isinstance(stmt, ast.Return):\n        return code\n"
           "msg = 'Model function cannot return `None`'\nraise ValueError(msg)")
    if src == old:
        return False
    if src == new:
        return True
    raise Unsupported(f"_handle_body: body not recognised:\n{src}")


def _keywords_refused(tree: ast.Module) -> None:
    """_convert_call starts with `if len(node.keywords) > 0: ... raise NotImplementedError`"""
    fn = _fn(tree, "_convert_call")
    first = fn.body[0]
    if not (isinstance(first, ast.If) and ast.unparse(first.test) in ("len(node.keywords) > 0", "node.keywords")
            and isinstance(first.body[-1], ast.Raise) and "NotImplementedError" in ast.unparse(first.body[-1])
            and not first.orelse):
        raise Unsupported("_convert_call does not refuse keyword arguments first (the model has no reading of a call "
                          "whose keyword arguments are dropped)")


def _method_calls(fn: ast.FunctionDef, recv: str, attr: str) -> list[ast.Call]:
    return [n for n in ast.walk(fn) if isinstance(n, ast.Call) and isinstance(n.func, ast.Attribute)
            and n.func.attr == attr and isinstance(n.func.value, ast.Name) and n.func.value.id == recv]


def _species_attrs(tree: ast.Module) -> dict:
    """How `_create_sbml_variables` writes a species (amount or concentration, hasOnlySubstanceUnits, which
    compartment) and how `_default_compartments` / `write` choose the compartments.  Every statement of the two
    functions that is not recognised is refused."""
    fn = _fn(tree, "_create_sbml_variables")
    out: dict = {}
    h = _method_calls(fn, "cpd", "setHasOnlySubstanceUnits")
    if not (len(h) == 1 and len(h[0].args) == 1 and isinstance(h[0].args[0], ast.Constant)
            and isinstance(h[0].args[0].value, bool)):
        raise Unsupported("_create_sbml_variables: cpd.setHasOnlySubstanceUnits(<bool literal>) exactly once")
    out["hosu"] = h[0].args[0].value
    for attr, val in (("setConstant", False), ("setBoundaryCondition", False)):
        c = _method_calls(fn, "cpd", attr)
        if not (len(c) == 1 and len(c[0].args) == 1 and isinstance(c[0].args[0], ast.Constant) and c[0].args[0].value is val):
            raise Unsupported(f"_create_sbml_variables: cpd.{attr}({val}) exactly once")
    am, co = _method_calls(fn, "cpd", "setInitialAmount"), _method_calls(fn, "cpd", "setInitialConcentration")
    if len(am) + len(co) != 1 or ast.unparse((am + co)[0].args[0]) != "float(init)":
        raise Unsupported("_create_sbml_variables: exactly one of cpd.setInitialAmount / setInitialConcentration(float(init))")
    out["amount"] = bool(am)
    comp = _method_calls(fn, "cpd", "setCompartment")
    if not (len(comp) == 1 and len(comp[0].args) == 1):
        raise Unsupported("_create_sbml_variables: cpd.setCompartment(...) exactly once")
    a = comp[0].args[0]
    body = [st for st in fn.body if not (isinstance(st, ast.Expr) and isinstance(st.value, ast.Constant))]
    if isinstance(a, ast.Constant) and isinstance(a.value, str):
        out["lit"] = a.value
        if not (len(body) == 1 and isinstance(body[0], ast.For)):
            raise Unsupported("_create_sbml_variables: statements before the loop over the variables")
    elif isinstance(a, ast.Name):
        out["lit"] = None
        # shape, whatever the local names: v = model.get_raw_variables(); if len(v) == 0: return;
        # if len(compartments) == 0: ... raise ValueError(...); <a.id> = next(iter(compartments)); for ... in v.items()
        pre = body[:-1]
        ok = (len(pre) == 4 and isinstance(pre[0], ast.Assign) and isinstance(pre[0].targets[0], ast.Name)
              and ast.unparse(pre[0].value) == "model.get_raw_variables()")
        v = pre[0].targets[0].id if ok else ""
        ok = ok and isinstance(pre[1], ast.If) and ast.unparse(pre[1].test) == f"len({v}) == 0" \
            and len(pre[1].body) == 1 and isinstance(pre[1].body[0], ast.Return) and pre[1].body[0].value is None and not pre[1].orelse
        ok = ok and isinstance(pre[2], ast.If) and ast.unparse(pre[2].test) == "len(compartments) == 0" and not pre[2].orelse \
            and isinstance(pre[2].body[-1], ast.Raise) and "ValueError" in ast.unparse(pre[2].body[-1]) \
            and all(isinstance(x, ast.Assign) and isinstance(x.value, (ast.Constant, ast.JoinedStr)) for x in pre[2].body[:-1])
        ok = ok and isinstance(pre[3], ast.Assign) and ast.unparse(pre[3].targets[0]) == a.id \
            and ast.unparse(pre[3].value) == "next(iter(compartments))"
        if not ok or not isinstance(body[-1], ast.For) or ast.unparse(body[-1].iter) != f"{v}.items()":
            raise Unsupported("_create_sbml_variables: choice of the compartment not recognised:\n"
                              + "\n".join(ast.unparse(st) for st in pre))
    else:
        raise Unsupported("_create_sbml_variables: argument of cpd.setCompartment")
    # _default_compartments
    dc = _fn(tree, "_default_compartments")
    body = [st for st in dc.body if not (isinstance(st, ast.Expr) and isinstance(st.value, ast.Constant))]
    if not (body and isinstance(body[0], ast.If) and ast.unparse(body[0].test) == "compartments is None"
            and len(body[0].body) == 1 and isinstance(body[0].body[0], ast.Return)
            and isinstance(body[0].body[0].value, ast.Dict) and len(body[0].body[0].value.keys) == 1
            and isinstance(body[-1], ast.Return) and ast.unparse(body[-1].value) == "compartments"):
        raise Unsupported("_default_compartments: shape")
    key, val = body[0].body[0].value.keys[0], body[0].body[0].value.values[0]
    size = [k.value for k in val.keywords if k.arg == "size"] if isinstance(val, ast.Call) else []
    if not (len(size) == 1 and isinstance(size[0], ast.Constant) and isinstance(size[0].value, int)):
        raise Unsupported("_default_compartments: size of the default compartment")
    out["size"] = size[0].value
    if isinstance(key, ast.Constant) and isinstance(key.value, str):
        out["default_id"], out["default_fresh"] = key.value, False
    elif (isinstance(key, ast.Call) and ast.unparse(key.func) == "_free_reference" and len(key.args) == 2
          and isinstance(key.args[0], ast.Constant) and ast.unparse(key.args[1]) == "taken"):
        out["default_id"], out["default_fresh"] = key.args[0].value, True
    else:
        raise Unsupported("_default_compartments: id of the default compartment")
    mid = body[1:-1]
    if not mid:
        out["clash_refused"] = False
    elif (len(mid) == 1 and isinstance(mid[0], ast.If)
          and ast.unparse(mid[0].test) == "(clash := sorted(taken.intersection(compartments)))"
          and isinstance(mid[0].body[-1], ast.Raise) and "ValueError" in ast.unparse(mid[0].body[-1])):
        out["clash_refused"] = True
    else:
        raise Unsupported("_default_compartments: statements between the default and `return compartments`")
    if out["default_fresh"] or out["clash_refused"]:
        w = ast.unparse(_fn(tree, "write"))
        if "compartments=_default_compartments(compartments, taken=set(model.ids))" not in w:
            raise Unsupported("write: _default_compartments(compartments, taken=set(model.ids))")
    # the compartments are written as given
    cb = [st for st in _fn(tree, "_create_sbml_compartments").body if not (isinstance(st, ast.Expr) and isinstance(st.value, ast.Constant))]
    okc = (len(cb) == 1 and isinstance(cb[0], ast.For) and ast.unparse(cb[0].iter) == "compartments.items()"
           and isinstance(cb[0].target, ast.Tuple) and len(cb[0].target.elts) == 2
           and all(isinstance(e, ast.Name) for e in cb[0].target.elts))
    if okc:
        ka, kb = (e.id for e in cb[0].target.elts)
        cc = "\n".join(ast.unparse(st) for st in cb[0].body)
        okc = f".setId({ka})" in cc and f".setSize({kb}.size)" in cc
    if not okc:
        raise Unsupported("_create_sbml_compartments: shape")
    return out


def _ref_name(tree: ast.Module) -> tuple[bool, str]:
    """`reference = f"{compound_id}ref"` or `reference = _free_reference(f"{compound_id}ref", taken)` with
    `taken = set(model.ids)` before the loop over the reactions"""
    fn = _fn(tree, "_create_sbml_reactions")
    assigns = [n for n in ast.walk(fn) if isinstance(n, ast.Assign) and isinstance(n.targets[0], ast.Name)
               and n.targets[0].id == "reference"]
    if len(assigns) != 1:
        raise Unsupported("_create_sbml_reactions: assignment of `reference`")
    v = assigns[0].value

    def suffix(js) -> str:
        if not (isinstance(js, ast.JoinedStr) and len(js.values) == 2 and isinstance(js.values[0], ast.FormattedValue)
                and ast.unparse(js.values[0].value) == "compound_id" and isinstance(js.values[1], ast.Constant)):
            raise Unsupported("reference name is not f\"{compound_id}<suffix>\"")
        return js.values[1].value

    if isinstance(v, ast.JoinedStr):
        return False, suffix(v)
    if not (isinstance(v, ast.Call) and isinstance(v.func, ast.Name) and v.func.id == "_free_reference"
            and len(v.args) == 2 and ast.unparse(v.args[1]) == "taken" and not v.keywords):
        raise Unsupported("reference name: neither an f-string nor _free_reference(f-string, taken)")
    suf = suffix(v.args[0])
    first = [st for st in fn.body if not (isinstance(st, ast.Expr) and isinstance(st.value, ast.Constant))]
    t0 = ast.unparse(first[0]) if first else ""
    forms = {"taken = set(model.ids)": False,
             "taken = set(model.ids) | {c.getId() for c in sbml_model.getListOfCompartments()}": True}
    if not (len(first) == 2 and t0 in forms and isinstance(first[1], ast.For)):
        raise Unsupported("_create_sbml_reactions: `taken = set(model.ids)` [| compartment ids] followed by the loop over the reactions")
    _ref_name.avoids_compartments = forms[t0]
    fr = ast.unparse(ast.Module(body=[st for st in _fn(tree, "_free_reference").body
                                      if not (isinstance(st, ast.Expr) and isinstance(st.value, ast.Constant))], type_ignores=[]))
    if fr != "while name in taken:\n    name = f'{name}_'\ntaken.add(name)\nreturn name":
        raise Unsupported(f"_free_reference: body not recognised:\n{fr}")
    return True, suf


_ref_name.avoids_compartments = False


def _prefixes(tree: ast.Module) -> dict[str, str]:
    """every `_convert_id_to_sbml(id_=<name>, prefix=<P>)` call, per creating function: the prefix used for ids"""
    def prefixes_in(fname: str, arg: str) -> set[str]:
        out = set()
        for n in ast.walk(_fn(tree, fname)):
            if isinstance(n, ast.Call) and isinstance(n.func, ast.Name) and n.func.id == "_convert_id_to_sbml":
                kw = {k.arg: k.value for k in n.keywords}
                if set(kw) != {"id_", "prefix"} or n.args or not isinstance(kw["prefix"], ast.Constant):
                    raise Unsupported(f"{fname}: _convert_id_to_sbml call shape")
                if ast.unparse(kw["id_"]) == arg:
                    out.add(kw["prefix"].value)
        return out

    def one(fname: str, arg: str, what: str, *, among=None) -> str:
        ps = prefixes_in(fname, arg)
        if among is not None:
            ps &= among
        if len(ps) != 1:
            raise Unsupported(f"{fname}: prefix of {what}: {sorted(ps)}")
        return ps.pop()

    out = {
        "param": one("_create_sbml_parameters", "name", "parameter id", among={"PAR"} | (prefixes_in("_create_sbml_parameters", "name") - {"IA"})),
        "var": one("_create_sbml_variables", "name", "species id", among=prefixes_in("_create_sbml_variables", "name") - {"IA"}),
        "rule": one("_create_derived_parameter", "name", "assignment rule"),
        "rxn": one("_create_sbml_reactions", "name", "reaction id"),
        "refId": one("_create_sbml_reactions", "reference", "species reference id"),
        "refSpecies": one("_create_sbml_reactions", "compound_id", "species of a reference"),
    }
    ia_p = prefixes_in("_create_sbml_parameters", "name") - {out["param"]}
    ia_v = prefixes_in("_create_sbml_variables", "name") - {out["var"]}
    if ia_p != ia_v or len(ia_p) != 1:
        raise Unsupported(f"prefix of initial assignments: {sorted(ia_p)} / {sorted(ia_v)}")
    out["init"] = ia_p.pop()
    if one("_create_sbml_derived_variables", "name", "assignment rule (derived variable)") != out["rule"]:
        raise Unsupported("derived parameters and derived variables use different prefixes")
    return out


def _reference_ids(tree: ast.Module, pre: dict[str, str]) -> tuple[bool, bool]:
    """(the symbol of an initial assignment is the declared id of its component, math refers to components by their ids)"""
    syms = set()
    for fname in ("_create_sbml_variables", "_create_sbml_parameters"):
        for n in ast.walk(_fn(tree, fname)):
            if isinstance(n, ast.Call) and isinstance(n.func, ast.Attribute) and n.func.attr == "setSymbol":
                syms.add(ast.unparse(n.args[0]))
    if syms == {"ids[name]"}:
        ia_declared = True
    elif syms == {f"_convert_id_to_sbml(id_=name, prefix='{pre['init']}')"}:
        ia_declared = False
    else:
        raise Unsupported(f"symbol of initial assignments: {sorted(syms)}")
    body = "\n".join(ast.unparse(st) for st in _fn(tree, "_sbmlify_fn").body if not (isinstance(st, ast.Expr) and isinstance(st.value, ast.Constant)))
    if body == "return _tree_to_sbml(get_fn_ast(fn), args=user_args)":
        math_ids = False
    elif body == "return _tree_to_sbml(get_fn_ast(fn), args=[ids.get(i, i) for i in user_args])":
        math_ids = True
    else:
        raise Unsupported(f"_sbmlify_fn: {body}")
    if ia_declared or math_ids:
        want = "ids = {}\n" + "\n".join(
            f"for name in model.{getter}():\n    ids[name] = _convert_id_to_sbml(id_=name, prefix='{pre[k]}')"
            for getter, k in (("get_raw_parameters", "param"), ("get_raw_variables", "var"), ("get_raw_derived", "rule"),
                              ("get_raw_reactions", "rxn"))) + "\nreturn ids"
        got = "\n".join(ast.unparse(st) for st in _fn(tree, "_sbml_ids").body if not (isinstance(st, ast.Expr) and isinstance(st.value, ast.Constant)))
        if got != want:
            raise Unsupported(f"_sbml_ids: the ids are not the declared ones (prefix per kind):\n{got}")
        m2s = ast.unparse(_fn(tree, "_model_to_sbml"))
        if "ids = _sbml_ids(model)" not in m2s:
            raise Unsupported("_model_to_sbml: ids = _sbml_ids(model)")
    return ia_declared, math_ids


def _export_order(tree: ast.Module) -> list[str]:
    stage = {"_create_sbml_parameters": ".params", "_create_sbml_derived_parameters": ".derivedParams",
             "_create_sbml_variables": ".vars", "_create_sbml_derived_variables": ".derivedVars",
             "_create_sbml_reactions": ".rxns"}
    order = []
    for st in _fn(tree, "_model_to_sbml").body:
        if isinstance(st, ast.Expr) and isinstance(st.value, ast.Call) and isinstance(st.value.func, ast.Name) \
                and st.value.func.id in stage:
            order.append(stage[st.value.func.id])
    if sorted(order) != sorted(stage.values()):
        raise Unsupported(f"_model_to_sbml: component stages {order}")
    return order


def _lst(items, f) -> str:
    return "[" + ", ".join(f(i) for i in items) + "]"


def render(repo: Path) -> str:
    src = (repo / "src" / "mxlpy" / "sbml" / "_export.py").read_text()
    tree = ast.parse(src)
    unary, binary, nary = (_dict_table(tree, n) for n in ("UNARY", "BINARY", "NARY"))
    uops = _match_table(_fn(tree, "_convert_unaryop"), UOP)
    bops = _match_table(_fn(tree, "_convert_binop"), BOP)
    try:
        cmp_fn = _fn(tree, "_convert_comparison")
    except Unsupported:
        cmp_fn = _fn(tree, "_convert_compare")
    cops = _match_table(cmp_fn, COP)
    parents_a = _lib_parents(_fn(tree, "_convert_attribute"))
    parents_c = _lib_parents(_fn(tree, "_convert_library_call"))
    if parents_a != parents_c:
        raise Unsupported("module names differ between _convert_attribute and _convert_library_call")
    consts = _attr_consts(_fn(tree, "_convert_attribute"))
    order = _ifexp_order(_fn(tree, "_convert_ifexp"))
    computed, neg, nonneg = _reaction_sides(_fn(tree, "_create_sbml_reactions"))
    r1 = _unknown_call_raises(_fn(tree, "_convert_direct_call"))
    r2 = _unknown_call_raises(_fn(tree, "_convert_library_call"))
    if r1 != r2:
        raise Unsupported("direct and library calls treat unknown functions differently")
    a1 = _arity_checked(_fn(tree, "_convert_direct_call"))
    a2 = _arity_checked(_fn(tree, "_convert_library_call"))
    if a1 != a2:
        raise Unsupported("direct and library calls check arity differently")
    if a1 and not _check_arity_def(tree):
        raise Unsupported("_check_arity is called but not defined as expected")
    setter = _ia_setter(tree)
    logbase = _log_with_base(tree)
    bin_np = _binary_numpy_only(tree)
    first_ret = _body_first_return(tree)
    _keywords_refused(tree)
    _ref_name.avoids_compartments = False
    ref_fresh, ref_suffix = _ref_name(tree)
    pre = _prefixes(tree)
    order_m = _export_order(tree)
    sp = _species_attrs(tree)
    ia_declared, math_ids = _reference_ids(tree, pre)

    def pair(kv):
        return f'("{kv[0]}", {kv[1]})'

    def pair2(kv):
        return f"({kv[0]}, {kv[1]})"

    b = str
    return f"""-- GENERATED by /verif/translate/c08.py from src/mxlpy/sbml/_export.py; do not edit
import MxlVerif.Model.C08Syntax
namespace Mxl.C08.Gen

inductive IfPart where | test | body | orelse
deriving Repr, DecidableEq

inductive Side where | reactant | product
deriving Repr, DecidableEq

inductive Stage where | params | derivedParams | vars | derivedVars | rxns
deriving Repr, DecidableEq

def unaryTable : List (String × MType) := {_lst(unary, pair)}
def binaryTable : List (String × MType) := {_lst(binary, pair)}
def naryTable : List (String × MType) := {_lst(nary, pair)}
def unaryOpTable : List (UOp × MType) := {_lst(uops, pair2)}
def binOpTable : List (BOp × MType) := {_lst(bops, pair2)}
def cmpOpTable : List (COp × MType) := {_lst(cops, pair2)}
def libParents : List String := {_lst(parents_a, lambda s: f'"{s}"')}
def attrConstTable : List (String × MathML) := {_lst(consts, pair)}
def ifexpOrder : List IfPart := {_lst(order, b)}
def computedSide : Side := {computed}
def negSide : Side := {neg}
def nonnegSide : Side := {nonneg}
def unknownCallRaises : Bool := {str(r1).lower()}
def arityChecked : Bool := {str(a1).lower()}
def logWithBase : Bool := {str(logbase).lower()}
def binaryNumpyOnly : Bool := {str(bin_np).lower()}
def iaSetter : String := "{setter}"
def bodyFirstReturn : Bool := {str(first_ret).lower()}
def refFresh : Bool := {str(ref_fresh).lower()}
def refSuffix : String := "{ref_suffix}"
def iaSymbolDeclared : Bool := {str(ia_declared).lower()}
def mathUsesIds : Bool := {str(math_ids).lower()}
def refAvoidsCompartments : Bool := {str(bool(ref_fresh and _ref_name.avoids_compartments)).lower()}
def prefixParam : String := "{pre['param']}"
def prefixVar : String := "{pre['var']}"
def prefixRule : String := "{pre['rule']}"
def prefixInit : String := "{pre['init']}"
def prefixRxn : String := "{pre['rxn']}"
def prefixRefId : String := "{pre['refId']}"
def prefixRefSpecies : String := "{pre['refSpecies']}"
def exportOrder : List Stage := {_lst(order_m, b)}
def speciesHosu : Bool := {str(sp['hosu']).lower()}
def speciesInitAmount : Bool := {str(sp['amount']).lower()}
def speciesCompartmentLit : Option String := {'none' if sp['lit'] is None else 'some "' + sp['lit'] + '"'}
def defaultCompartmentId : String := "{sp['default_id']}"
def defaultCompartmentSize : Nat := {sp['size']}
def defaultCompartmentFresh : Bool := {str(sp['default_fresh']).lower()}
def compartmentClashRefused : Bool := {str(sp['clash_refused']).lower()}

end Mxl.C08.Gen
"""


def generate(repo: Path, outdir: Path) -> None:
    text = render(Path(repo))
    outdir.mkdir(parents=True, exist_ok=True)
    p = outdir / "C08Tables.lean"
    if p.exists() and hashlib.sha1(p.read_bytes()).digest() == hashlib.sha1(text.encode()).digest():
        return
    p.write_text(text)


if __name__ == "__main__":
    import sys

    print(render(Path(sys.argv[1] if len(sys.argv) > 1 else "/repo")))
