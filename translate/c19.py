"""translate/c19.py — reads the shape of `_pickle_save` (and that it is the default `Cache.save_fn`) from the
current src/mxlpy/parallel.py and writes Generated/C19Save.lean (`Gen.saveMode`).

Supported shapes (anything else raises, which breaks the proof side rather than going stale):
  direct : with file.open("wb") as fp: pickle.dump(data, fp)
  atomic : tmp = <expr>; with tmp.open("wb") as fp: pickle.dump(data, fp) [; fp.flush(); os.fsync(..)];
           os.replace(tmp, file) | tmp.replace(file)          (rename of the temporary onto the final path)
"""
from __future__ import annotations

import ast
import hashlib
from pathlib import Path


class Unsupported(Exception):
    pass


def _is_open_wb(call: ast.AST, name: str) -> bool:
    return (
        isinstance(call, ast.Call)
        and isinstance(call.func, ast.Attribute)
        and call.func.attr == "open"
        and isinstance(call.func.value, ast.Name)
        and call.func.value.id == name
        and len(call.args) == 1
        and isinstance(call.args[0], ast.Constant)
        and call.args[0].value == "wb"
    )


def _with_dumps(node: ast.AST, target: str, data: str) -> bool:
    """`with <target>.open("wb") as fp:` whose body is pickle.dump(data, fp) plus optional flush/fsync"""
    if not (isinstance(node, ast.With) and len(node.items) == 1):
        return False
    it = node.items[0]
    if not _is_open_wb(it.context_expr, target) or not isinstance(it.optional_vars, ast.Name):
        return False
    fp = it.optional_vars.id
    dumped = False
    for st in node.body:
        if not (isinstance(st, ast.Expr) and isinstance(st.value, ast.Call)):
            return False
        c = st.value
        src = ast.unparse(c)
        if src == f"pickle.dump({data}, {fp})" and not dumped:
            dumped = True
        elif dumped and src in (f"{fp}.flush()", f"os.fsync({fp}.fileno())"):
            continue
        else:
            return False
    return dumped


def classify(src: str) -> str:
    tree = ast.parse(src)
    fns = {n.name: n for n in tree.body if isinstance(n, ast.FunctionDef)}
    if "_pickle_save" not in fns:
        raise Unsupported("_pickle_save not found")
    # Cache.save_fn must default to _pickle_save
    cache = next((n for n in tree.body if isinstance(n, ast.ClassDef) and n.name == "Cache"), None)
    if cache is None:
        raise Unsupported("class Cache not found")
    ok = False
    for st in cache.body:
        if isinstance(st, ast.AnnAssign) and isinstance(st.target, ast.Name) and st.target.id == "save_fn":
            ok = isinstance(st.value, ast.Name) and st.value.id == "_pickle_save"
    if not ok:
        raise Unsupported("Cache.save_fn does not default to _pickle_save")
    f = fns["_pickle_save"]
    if len(f.args.args) != 2:
        raise Unsupported("_pickle_save signature")
    file, data = (a.arg for a in f.args.args)
    body = [s for s in f.body if not (isinstance(s, ast.Expr) and isinstance(s.value, ast.Constant))]
    if len(body) == 1 and _with_dumps(body[0], file, data):
        return "direct"
    if (
        len(body) == 3
        and isinstance(body[0], ast.Assign)
        and len(body[0].targets) == 1
        and isinstance(body[0].targets[0], ast.Name)
        and file in {n.id for n in ast.walk(body[0].value) if isinstance(n, ast.Name)}
    ):
        tmp = body[0].targets[0].id
        last = ast.unparse(body[2]) if isinstance(body[2], ast.Expr) else ""
        if (
            tmp != file
            and _with_dumps(body[1], tmp, data)
            and last in (f"os.replace({tmp}, {file})", f"{tmp}.replace({file})")
        ):
            return "atomic"
    raise Unsupported("_pickle_save has a shape outside the supported subset:\n" + ast.unparse(f))


def tmp_parts(src: str):
    """constant parts of the temporary sibling's name: `tmp = file.with_name(f"{file.name}<sep>{os.getpid()}<suffix>")`
    -> (sep, suffix) as byte lists; None for the direct shape (no temporary)"""
    tree = ast.parse(src)
    f = next(n for n in tree.body if isinstance(n, ast.FunctionDef) and n.name == "_pickle_save")
    file = f.args.args[0].arg
    body = [s for s in f.body if not (isinstance(s, ast.Expr) and isinstance(s.value, ast.Constant))]
    if not isinstance(body[0], ast.Assign):
        return None
    v = body[0].value
    if not (isinstance(v, ast.Call) and ast.unparse(v.func) == f"{file}.with_name" and len(v.args) == 1 and not v.keywords
            and isinstance(v.args[0], ast.JoinedStr)):
        raise Unsupported("temporary name is not file.with_name(f'...'): " + ast.unparse(v))
    parts = v.args[0].values
    def fv(x, text):
        return (isinstance(x, ast.FormattedValue) and x.conversion == -1 and x.format_spec is None
                and ast.unparse(x.value) == text)
    def const(x):
        return isinstance(x, ast.Constant) and isinstance(x.value, str)
    if not (len(parts) == 4 and fv(parts[0], f"{file}.name") and const(parts[1]) and fv(parts[2], "os.getpid()") and const(parts[3])):
        raise Unsupported("temporary name is not f'{file.name}<sep>{os.getpid()}<suffix>': " + ast.unparse(v.args[0]))
    return list(parts[1].value.encode()), list(parts[3].value.encode())


def name_scheme(tree: ast.Module) -> str:
    """shape of the default `name_fn` (`_pickle_name`, and that `Cache.name_fn` defaults to it)"""
    fns = {n.name: n for n in tree.body if isinstance(n, ast.FunctionDef)}
    cache = next((n for n in tree.body if isinstance(n, ast.ClassDef) and n.name == "Cache"), None)
    ok = any(isinstance(st, ast.AnnAssign) and isinstance(st.target, ast.Name) and st.target.id == "name_fn"
             and isinstance(st.value, ast.Name) and st.value.id == "_pickle_name" for st in (cache.body if cache else []))
    if not ok or "_pickle_name" not in fns:
        raise Unsupported("Cache.name_fn does not default to _pickle_name")
    f = fns["_pickle_name"]
    body = [s for s in f.body if not (isinstance(s, ast.Expr) and isinstance(s.value, ast.Constant))]
    if len(f.args.args) != 1 or len(body) != 1 or not isinstance(body[0], ast.Return):
        raise Unsupported("_pickle_name shape")
    k = f.args.args[0].arg
    src = ast.unparse(body[0].value)
    v = body[0].value
    if (isinstance(v, ast.JoinedStr) and len(v.values) == 2 and isinstance(v.values[0], ast.FormattedValue)
            and v.values[0].conversion == -1 and v.values[0].format_spec is None
            and isinstance(v.values[1], ast.Constant) and v.values[1].value == ".p"):
        inner = v.values[0].value
        if isinstance(inner, ast.Name) and inner.id == k:
            return "plainStr"
        if (isinstance(inner, ast.Call) and ast.unparse(inner.func) == "quote" and len(inner.args) == 1
                and ast.unparse(inner.args[0]) == f"repr({k})" and len(inner.keywords) == 1
                and inner.keywords[0].arg == "safe" and isinstance(inner.keywords[0].value, ast.Constant)
                and inner.keywords[0].value.value == ""):
            imports = {a.name for n in tree.body if isinstance(n, ast.ImportFrom) and n.module == "urllib.parse" for a in n.names}
            if "quote" not in imports:
                raise Unsupported("quote is not urllib.parse.quote")
            return "quotedRepr"
    raise Unsupported("_pickle_name returns " + src)


def refuses_duplicates(tree: ast.Module) -> bool:
    """`parallelise` raises inside `if cache is not None:` when `len(set(T)) != len(T)` for `T = [k for k, _ in inputs]`
    (whatever the local list is called)"""
    fn = next((n for n in tree.body if isinstance(n, ast.FunctionDef) and n.name == "parallelise"), None)
    if fn is None:
        raise Unsupported("parallelise not found")
    for st in fn.body:
        if isinstance(st, ast.If) and ast.unparse(st.test) == "cache is not None":
            # the local holding the keys is identified by its definition (`[k for k, _ in inputs]`, any names), not by
            # its name: a renamed local is the same check
            defined: dict[str, int] = {}
            for i, x in enumerate(st.body):
                if isinstance(x, ast.Assign) and len(x.targets) == 1 and isinstance(x.targets[0], ast.Name):
                    v = x.value
                    if (isinstance(v, ast.ListComp) and len(v.generators) == 1 and not v.generators[0].ifs
                            and ast.unparse(v.generators[0].iter) == "inputs"
                            and isinstance(v.generators[0].target, ast.Tuple) and len(v.generators[0].target.elts) == 2
                            and isinstance(v.elt, ast.Name) and isinstance(v.generators[0].target.elts[0], ast.Name)
                            and v.elt.id == v.generators[0].target.elts[0].id):
                        defined.setdefault(x.targets[0].id, i)
                if (isinstance(x, ast.If) and any(isinstance(y, ast.Raise) for y in x.body)
                        and any(ast.unparse(x.test) == f"len(set({k})) != len({k})" and at < i for k, at in defined.items())):
                    return True
            return False
    raise Unsupported("parallelise has no `if cache is not None:` block")


def refuses_shared_names(tree: ast.Module) -> bool:
    """inside `if cache is not None:`: `N = [cache.name_fn(k) for …]` and a raise when `len(set(N)) != len(N)` — keys that are
    not equal but are written to the same file are refused, too"""
    fn = next((n for n in tree.body if isinstance(n, ast.FunctionDef) and n.name == "parallelise"), None)
    if fn is None:
        raise Unsupported("parallelise not found")
    for st in fn.body:
        if isinstance(st, ast.If) and ast.unparse(st.test) == "cache is not None":
            lists = set()
            for x in st.body:
                if (isinstance(x, ast.Assign) and len(x.targets) == 1 and isinstance(x.targets[0], ast.Name)
                        and isinstance(x.value, ast.ListComp) and len(x.value.generators) == 1 and not x.value.generators[0].ifs
                        and isinstance(x.value.elt, ast.Call) and ast.unparse(x.value.elt.func) == "cache.name_fn"
                        and len(x.value.elt.args) == 1):
                    lists.add(x.targets[0].id)
                elif (isinstance(x, ast.If) and any(isinstance(y, ast.Raise) for y in x.body)
                      and any(ast.unparse(x.test) == f"len(set({t})) != len({t})" for t in lists)):
                    return True
            return False
    raise Unsupported("parallelise has no `if cache is not None:` block")


def render(mode: str, scheme: str = "plainStr", refuses: bool = False, tmp=None, names: bool = False) -> str:
    sep, suffix = tmp if tmp is not None else ([], [])
    doc = {
        "direct": "open('wb') on the final path, pickle.dump",
        "atomic": "open('wb') on a temporary sibling, pickle.dump, rename onto the final path",
    }[mode]
    return (
        "-- GENERATED by translate/c19.py from src/mxlpy/parallel.py (_pickle_save); do not edit\n"
        "import MxlVerif.Model.C19\n"
        "namespace Mxl.C19.Gen\n"
        f"/-- shape of `_pickle_save`: {doc} -/\n"
        f"def saveMode : Mxl.C19.SaveMode := .{mode}\n"
        "/-- shape of `_pickle_name` -/\n"
        f"def nameScheme : Mxl.C19.NameScheme := .{scheme}\n"
        "/-- `parallelise` raises when a cache is used with repeated keys -/\n"
        f"def refusesDuplicateKeys : Bool := {'true' if refuses else 'false'}\n"
        "/-- `parallelise` also raises when two keys are written to the same file NAME (keys that are not equal, e.g. two NaN) -/\n"
        f"def refusesSharedNames : Bool := {'true' if names else 'false'}\n"
        "/-- constant parts of the temporary sibling's name `f\"{file.name}<sep>{os.getpid()}<suffix>\"` (bytes) -/\n"
        f"def tmpSep : List Nat := {sep}\n"
        f"def tmpSuffix : List Nat := {suffix}\n"
        "end Mxl.C19.Gen\n"
    )


def write_if_changed(path: Path, text: str) -> bool:
    if path.exists() and hashlib.sha1(path.read_bytes()).digest() == hashlib.sha1(text.encode()).digest():
        return False
    path.parent.mkdir(parents=True, exist_ok=True)
    path.write_text(text)
    return True


def generate(repo: Path, outdir: Path) -> None:
    out = Path(outdir) / "C19Save.lean"
    try:
        src = (Path(repo) / "src" / "mxlpy" / "parallel.py").read_text()
        mode = classify(src)
        tree = ast.parse(src)
        scheme, refuses = name_scheme(tree), refuses_duplicates(tree)
        tmp = tmp_parts(src)
        names = refuses_shared_names(tree)
    except Exception as e:
        # never leave a stale table behind: the dependent theorems must stop elaborating
        write_if_changed(out, "-- GENERATED by translate/c19.py: UNSUPPORTED source shape\n"
                              "import MxlVerif.Model.C19\nnamespace Mxl.C19.Gen\n"
                              f"/- {str(e)[:400].replace('-/', '- /')} -/\n"
                              "def saveMode : Mxl.C19.SaveMode := .direct\n"
                              "def nameScheme : Mxl.C19.NameScheme := .plainStr\n"
                              "def refusesDuplicateKeys : Bool := false\n"
                              "def tmpSep : List Nat := []\ndef tmpSuffix : List Nat := []\n"
                              "def refusesSharedNames : Bool := false\n"
                              "def unsupported : Unit := ()\nend Mxl.C19.Gen\n")
        raise
    write_if_changed(out, render(mode, scheme, refuses, tmp, names))


if __name__ == "__main__":
    import os
    import sys
    root = Path(__file__).resolve().parent.parent
    generate(Path(os.environ.get("MXLPY_REPO", "/repo")), root / "lean" / "MxlVerif" / "MxlVerif" / "Generated")
    print((root / "lean/MxlVerif/MxlVerif/Generated/C19Save.lean").read_text())
