"""Helpers shared by the Python-AST -> Lean translators."""
from __future__ import annotations

import ast
from pathlib import Path


class Unsupported(Exception):
    """the source left the subset a translator renders faithfully"""


def write_if_changed(path: Path, text: str) -> bool:
    path.parent.mkdir(parents=True, exist_ok=True)
    if path.exists() and path.read_text() == text:
        return False
    path.write_text(text)
    return True


def find_function(tree: ast.AST, name: str, cls: str | None = None) -> ast.FunctionDef:
    scope = tree
    if cls is not None:
        for node in ast.walk(tree):
            if isinstance(node, ast.ClassDef) and node.name == cls:
                scope = node
                break
        else:
            raise Unsupported(f"class {cls} not found")
    for node in ast.walk(scope):
        if isinstance(node, ast.FunctionDef) and node.name == name:
            return node
    raise Unsupported(f"function {name} not found")


HEADER = "-- GENERATED from {src} by /verif/translate/{tr}; do not edit (rewritten on every run)\n"
