"""translate/c06.py — reads mxlpy/meta/source_tools.py with `ast` and writes Generated/C06Tables.lean.

Extracted (everything the Lean translator model `Mxl.C06.fnToSympy` is parameterised by):
  * `_handle_unaryop` / `_handle_binop`: the `match node.op` tables (ast operator class -> the Python operator
    applied to the two sympy objects),
  * the `ast.Compare` chain in `_handle_expr`: per comparison class, whether a sympy relational is built
    (`prev_value > right`, `sympy.Eq(prev_value, right)`) or Python's `==` / `!=` is applied (structural equality),
  * `KNOWN_FNS` / `KNOWN_CONSTANTS`: key text -> value text,
  * `fn_to_sympy`: whether the final `expr.subs(...)` passes `simultaneous=True`,
  * `_handle_fn_body`: whether `a, b = e1, e2` translates every right-hand side before binding any target, and
    whether statement kinds it has no branch for are skipped silently or refused.
Anything outside these shapes raises `Unsupported` (the run then has a broken proof side and searches for a
failing input; it never falls back to a default).
"""
from __future__ import annotations

import ast
import hashlib
from pathlib import Path


class Unsupported(Exception):
    pass


UN = {"UAdd": "uadd", "USub": "usub"}
SUN = {"UAdd": "pos", "USub": "neg"}
BIN = {"Add": "add", "Sub": "sub", "Mult": "mul", "Div": "div", "Pow": "pow", "Mod": "mod", "FloorDiv": "floordiv"}
CMP = {"Gt": "gt", "GtE": "ge", "Lt": "lt", "LtE": "le", "Eq": "eq", "NotEq": "ne"}
SYMPY_REL = {"Gt": "gt", "StrictGreaterThan": "gt", "Ge": "ge", "GreaterThan": "ge", "Lt": "lt",
             "StrictLessThan": "lt", "Le": "le", "LessThan": "le", "Eq": "eq", "Equality": "eq",
             "Ne": "ne", "Unequality": "ne"}


def _fn(tree: ast.Module, name: str) -> ast.FunctionDef:
    for n in tree.body:
        if isinstance(n, ast.FunctionDef) and n.name == name:
            return n
    raise Unsupported(f"function {name} not found")


def _is_name(n, ident):
    return isinstance(n, ast.Name) and n.id == ident


def _match_cases(fn: ast.FunctionDef):
    for n in ast.walk(fn):
        if isinstance(n, ast.Match):
            return n.cases
    raise Unsupported(f"{fn.name}: no match statement")


def _case_class(case: ast.match_case):
    p = case.pattern
    if isinstance(p, ast.MatchClass) and isinstance(p.cls, ast.Attribute) and _is_name(p.cls.value, "ast"):
        return p.cls.attr
    if isinstance(p, ast.MatchAs) and p.pattern is None:
        return None
    raise Unsupported(f"match pattern {ast.unparse(p)}")


def unops(tree):
    out = []
    for case in _match_cases(_fn(tree, "_handle_unaryop")):
        cls = _case_class(case)
        if cls is None:
            if not any(isinstance(s, ast.Raise) for s in case.body):
                raise Unsupported("_handle_unaryop: default case does not raise")
            continue
        if cls not in UN:
            raise Unsupported(f"unary operator class {cls}")
        (ret,) = case.body
        if not (isinstance(ret, ast.Return) and isinstance(ret.value, ast.UnaryOp) and _is_name(ret.value.operand, "left")):
            raise Unsupported(f"_handle_unaryop case {cls}: {ast.unparse(case.body[0])}")
        sop = type(ret.value.op).__name__
        if sop not in SUN:
            raise Unsupported(f"unary result operator {sop}")
        out.append((UN[cls], SUN[sop]))
    return out


def binops(tree):
    out = []
    for case in _match_cases(_fn(tree, "_handle_binop")):
        cls = _case_class(case)
        if cls is None:
            if not any(isinstance(s, ast.Raise) for s in case.body):
                raise Unsupported("_handle_binop: default case does not raise")
            continue
        if cls not in BIN:
            raise Unsupported(f"binary operator class {cls}")
        (ret,) = case.body
        v = ret.value if isinstance(ret, ast.Return) else None
        if not (isinstance(v, ast.BinOp) and _is_name(v.left, "left") and _is_name(v.right, "right")):
            raise Unsupported(f"_handle_binop case {cls}: {ast.unparse(case.body[0])}")
        sop = type(v.op).__name__
        if sop not in BIN:
            raise Unsupported(f"binary result operator {sop}")
        out.append((BIN[cls], BIN[sop]))
    return out


def cmpops(tree):
    fn = _fn(tree, "_handle_expr")
    loop = None
    for n in ast.walk(fn):
        if isinstance(n, ast.For) and isinstance(n.target, ast.Tuple) and [getattr(e, "id", None) for e in n.target.elts] == ["op", "comparator"]:
            loop = n
    if loop is None:
        raise Unsupported("_handle_expr: comparison loop not found")
    chain = [s for s in loop.body if isinstance(s, ast.If)]
    if len(chain) != 1:
        raise Unsupported("_handle_expr: comparison loop shape")
    out = []
    node = chain[0]
    while True:
        t = node.test
        if not (isinstance(t, ast.Call) and _is_name(t.func, "isinstance") and _is_name(t.args[0], "op")
                and isinstance(t.args[1], ast.Attribute) and _is_name(t.args[1].value, "ast")):
            raise Unsupported(f"comparison test {ast.unparse(t)}")
        cls = t.args[1].attr
        if cls not in CMP:
            raise Unsupported(f"comparison class {cls}")
        (st,) = node.body
        call = st.value if isinstance(st, ast.Expr) else None
        if not (isinstance(call, ast.Call) and isinstance(call.func, ast.Attribute) and call.func.attr == "append"
                and _is_name(call.func.value, "comparisons") and len(call.args) == 1):
            raise Unsupported(f"comparison body {ast.unparse(st)}")
        v = call.args[0]
        if isinstance(v, ast.Compare) and len(v.ops) == 1 and _is_name(v.left, "prev_value") and _is_name(v.comparators[0], "right"):
            o = type(v.ops[0]).__name__
            if o == "Eq":
                tr = "CmpTr.structEq"
            elif o == "NotEq":
                tr = "CmpTr.structNe"
            elif o in CMP:
                tr = f"CmpTr.rel .{CMP[o]}"
            else:
                raise Unsupported(f"comparison operator {o}")
        elif (isinstance(v, ast.Call) and isinstance(v.func, ast.Attribute) and _is_name(v.func.value, "sympy")
              and v.func.attr in SYMPY_REL and len(v.args) == 2 and not v.keywords
              and _is_name(v.args[0], "prev_value") and _is_name(v.args[1], "right")):
            tr = f"CmpTr.rel .{SYMPY_REL[v.func.attr]}"
        else:
            raise Unsupported(f"comparison value {ast.unparse(v)}")
        out.append((CMP[cls], tr))
        if len(node.orelse) == 1 and isinstance(node.orelse[0], ast.If):
            node = node.orelse[0]
        elif not node.orelse:
            _CMP_FACTS["strict"] = False
            break
        elif (len(node.orelse) == 2 and isinstance(node.orelse[1], ast.Raise)
              and "NotImplementedError" in ast.unparse(node.orelse[1])) or (
                len(node.orelse) == 1 and isinstance(node.orelse[0], ast.Raise)
                and "NotImplementedError" in ast.unparse(node.orelse[0])):
            # `else: raise NotImplementedError`: an operator outside the chain is refused
            _CMP_FACTS["strict"] = True
            break
        else:
            raise Unsupported("comparison chain has an else branch that does not raise NotImplementedError")
    _CMP_FACTS["translated"] = [c for c in CMP if any(CMP[c] == o for o, _ in out)]
    return out


_CMP_FACTS: dict = {}


def cmp_classes() -> list[str]:
    """the subclasses of `ast.cmpop` of the running interpreter"""
    return sorted(c.__name__ for c in ast.cmpop.__subclasses__())


def _dict(tree, name):
    for n in tree.body:
        tgt = None
        if isinstance(n, ast.AnnAssign) and isinstance(n.target, ast.Name):
            tgt, val = n.target.id, n.value
        elif isinstance(n, ast.Assign) and isinstance(n.targets[0], ast.Name):
            tgt, val = n.targets[0].id, n.value
        if tgt == name:
            if not isinstance(val, ast.Dict):
                raise Unsupported(f"{name} is not a dict literal")
            return [(ast.unparse(k), ast.unparse(v)) for k, v in zip(val.keys, val.values)]
    raise Unsupported(f"{name} not found")


def subst_simultaneous(tree) -> bool:
    fn = _fn(tree, "fn_to_sympy")
    calls = [n for n in ast.walk(fn) if isinstance(n, ast.Call) and isinstance(n.func, ast.Attribute) and n.func.attr == "subs"]
    if len(calls) != 1:
        raise Unsupported(f"fn_to_sympy: {len(calls)} .subs calls")
    (c,) = calls
    if len(c.args) != 1:
        raise Unsupported("fn_to_sympy: .subs arguments")
    for kw in c.keywords:
        if kw.arg == "simultaneous" and isinstance(kw.value, ast.Constant) and isinstance(kw.value.value, bool):
            return kw.value.value
        raise Unsupported(f"fn_to_sympy: .subs keyword {kw.arg}")
    return False


def _calls_handle_expr(node) -> bool:
    return any(isinstance(n, ast.Call) and _is_name(n.func, "_handle_expr") for n in ast.walk(node))


def _binds_symbol(node) -> bool:
    for n in ast.walk(node):
        if isinstance(n, ast.Assign) and isinstance(n.targets[0], ast.Subscript):
            v = n.targets[0].value
            if isinstance(v, ast.Attribute) and v.attr == "symbols":
                return True
    return False


_STMT_FACTS: dict = {}


def body_facts(tree):
    _STMT_FACTS["exprConstOnly"] = False
    fn = _fn(tree, "_handle_fn_body")
    wl = [n for n in fn.body if isinstance(n, ast.While)]
    if len(wl) != 1:
        raise Unsupported("_handle_fn_body: while loop")
    chain = [s for s in wl[0].body if isinstance(s, ast.If)]
    if len(chain) != 1:
        raise Unsupported("_handle_fn_body: loop body shape")
    kinds = []
    node = chain[0]
    final_else = None
    branches = {}
    while True:
        t = node.test
        if (ast.unparse(t) == "isinstance(node, ast.Pass) or (isinstance(node, ast.Expr) and isinstance(node.value, ast.Constant))"
                and all(isinstance(st, ast.Expr) for st in node.body)):
            # `pass`, docstrings and bare constants are skipped; any other expression statement has its own branch below
            _STMT_FACTS["exprConstOnly"] = True
            kinds.append("<harmless>")
            branches["<harmless>"] = node.body
            nxt = node.orelse[0] if len(node.orelse) == 1 and isinstance(node.orelse[0], ast.If) else None
            if not (nxt is not None and ast.unparse(nxt.test) == "isinstance(node, ast.Expr)"
                    and any(isinstance(x, ast.Raise) and "NotImplementedError" in ast.unparse(x) for x in nxt.body)):
                raise Unsupported("_handle_fn_body: expression statements other than constants are not refused")
            node = nxt
            if len(node.orelse) == 1 and isinstance(node.orelse[0], ast.If):
                node = node.orelse[0]
                continue
            final_else = node.orelse
            break
        if not (isinstance(t, ast.Call) and _is_name(t.func, "isinstance") and _is_name(t.args[0], "node")):
            raise Unsupported(f"_handle_fn_body: branch test {ast.unparse(t)}")
        if isinstance(t.args[1], ast.Attribute):
            kind = t.args[1].attr
        elif (isinstance(t.args[1], ast.Tuple) and all(isinstance(e, ast.Attribute) for e in t.args[1].elts)
              and {e.attr for e in t.args[1].elts} <= {"Expr", "Pass"}
              and all(isinstance(st, ast.Expr) for st in node.body)):
            kind = "<harmless>"  # docstrings, bare expressions, pass: skipped without any effect (the model's `skip`)
        else:
            raise Unsupported(f"_handle_fn_body: branch test {ast.unparse(t)}")
        kinds.append(kind)
        branches[kind] = node.body
        if len(node.orelse) == 1 and isinstance(node.orelse[0], ast.If):
            node = node.orelse[0]
        else:
            final_else = node.orelse
            break
    if kinds[:5] != ["If", "Return", "Assign", "Import", "ImportFrom"] or kinds[5:] not in ([], ["<harmless>"]):
        raise Unsupported(f"_handle_fn_body: statement kinds handled are {kinds}; the model covers If/Return/Assign/Import/ImportFrom (+ skipped Expr/Pass)")
    refused = any(isinstance(n, ast.Raise) for s in (final_else or []) for n in ast.walk(s))
    # tuple assignment: is there a loop that both translates a right-hand side and binds a target?
    loops = [n for s in branches["Assign"] for n in ast.walk(s) if isinstance(n, ast.For)]
    binding = [l for l in loops if _binds_symbol(l) and ast.unparse(l.iter) != "node.targets"]  # (the chained-assignment loop is read by assign_facts)
    if len(binding) != 1:
        raise Unsupported("_handle_fn_body: tuple assignment shape")
    tuple_sim = not _calls_handle_expr(binding[0])
    if tuple_sim:
        # then the right-hand sides must be translated somewhere before that loop
        if sum(_calls_handle_expr(s) for s in branches["Assign"]) == 0:
            raise Unsupported("_handle_fn_body: tuple assignment never translates the right-hand sides")
    stmt_kinds = [k for k in kinds if k != "<harmless>"] + (["Expr", "Pass"] if "<harmless>" in kinds else [])
    return tuple_sim, refused, branch_facts(tree, branches["If"]), assign_facts(branches["Assign"]), import_facts(branches["ImportFrom"]), stmt_kinds


def _attr_path(n) -> str:
    return ast.unparse(n)


def _method(tree, cls: str, name: str) -> ast.FunctionDef:
    for n in tree.body:
        if isinstance(n, ast.ClassDef) and n.name == cls:
            for m in n.body:
                if isinstance(m, ast.FunctionDef) and m.name == name:
                    return m
    raise Unsupported(f"{cls}.{name} not found")


def _branch_keywords(tree) -> dict[str, str]:
    """`Context.branch`: `return Context(symbols=…, modules=…, fns=…, …)` -> keyword -> source text"""
    m = _method(tree, "Context", "branch")
    rets = [n for n in m.body if isinstance(n, ast.Return)]
    if len(rets) != 1 or not (isinstance(rets[0].value, ast.Call) and _is_name(rets[0].value.func, "Context")
                              and not rets[0].value.args):
        raise Unsupported("Context.branch: shape")
    return {k.arg: ast.unparse(k.value) for k in rets[0].value.keywords}


def assign_facts(assign_branch) -> tuple[bool, bool]:
    """(chained assignment binds every target?, `a, b = e` with e not a tuple display refused?)"""
    text = "\n".join(ast.unparse(x) for x in assign_branch)
    chain = None
    for st in assign_branch:
        for n in ast.walk(st):
            if isinstance(n, ast.If) and ast.unparse(n.test) == "len(node.targets) > 1":
                loops = [l for b in n.body for l in ast.walk(b) if isinstance(l, ast.For) and ast.unparse(l.iter) == "node.targets"]
                if len(loops) == 1 and _binds_symbol(loops[0]) and not _calls_handle_expr(loops[0]) \
                        and sum(_calls_handle_expr(b) for b in n.body) == 1:
                    chain = True
                else:
                    raise Unsupported("_handle_fn_body: chained assignment shape")
    if chain is None:
        if "len(node.targets)" in text:
            raise Unsupported("_handle_fn_body: node.targets is counted in an unknown way")
        chain = False
    unpack = None
    for st in assign_branch:
        for n in ast.walk(st):
            if isinstance(n, ast.If) and ast.unparse(n.test) == "isinstance(node.value, ast.Tuple)":
                if any(isinstance(x, ast.Raise) for b in n.orelse for x in ast.walk(b)):
                    unpack = True
                elif [ast.unparse(b) for b in n.orelse] == ["value = _handle_expr(node.value, ctx)"]:
                    unpack = False
                else:
                    raise Unsupported("_handle_fn_body: iterable unpacking shape")
    if unpack is None:
        raise Unsupported("_handle_fn_body: tuple assignment test not found")
    return chain, unpack


def import_facts(importfrom_branch) -> bool:
    """function-local `from m import x`: ints bound like floats and other objects refused (True) / both skipped (False)"""
    chains = [n for st in importfrom_branch for n in ast.walk(st) if isinstance(n, ast.If) and "isinstance(el" in ast.unparse(n.test)
              and "float" in ast.unparse(n.test)]
    if len(chains) != 1:
        raise Unsupported("_handle_fn_body: ImportFrom element dispatch not found")
    node = chains[0]
    first = ast.unparse(node.test)
    tests = []
    while True:
        tests.append(ast.unparse(node.test))
        if len(node.orelse) == 1 and isinstance(node.orelse[0], ast.If):
            node = node.orelse[0]
        else:
            final = node.orelse
            break
    if tests[1:] != ["callable(el)", "isinstance(el, ModuleType)"]:
        raise Unsupported(f"_handle_fn_body: ImportFrom dispatch {tests}")
    raises = any(isinstance(x, ast.Raise) for b in final for x in ast.walk(b))
    if first == "isinstance(el, (int, float)) and (not isinstance(el, bool))" and raises:
        return True
    if first == "isinstance(el, float)" and not raises:
        return False
    raise Unsupported(f"_handle_fn_body: ImportFrom dispatch {first!r}, else raises={raises}")


def sig_strict(tree) -> bool:
    fn = _fn(tree, "fn_to_sympy")
    asg = [n for n in ast.walk(fn) if isinstance(n, ast.Assign) and _is_name(n.targets[0], "fn_args")]
    if len(asg) != 1:
        raise Unsupported("fn_to_sympy: fn_args")
    v = ast.unparse(asg[0].value)
    if v == "[str(arg.arg) for arg in fn_def.args.args]":
        return False
    if v == "_positional_params(fn_def)":
        pp = _fn(tree, "_positional_params")
        ifs = [n for n in pp.body if isinstance(n, ast.If)]
        rets = [n for n in pp.body if isinstance(n, ast.Return)]
        if (len(ifs) == 1 and ast.unparse(ifs[0].test) == "args.vararg or args.kwonlyargs or args.kwarg"
                and any(isinstance(x, ast.Raise) for x in ifs[0].body) and len(rets) == 1
                and ast.unparse(rets[0].value) == "[str(arg.arg) for arg in [*args.posonlyargs, *args.args]]"):
            return True
        raise Unsupported("_positional_params: shape")
    raise Unsupported(f"fn_to_sympy: fn_args = {v}")


def branch_facts(tree, if_branch):
    """three facts about the handling of `if` (and IfExp): are branch bodies translated against a copy of ctx.symbols,
    is `_check_branch` applied to every branch body, are tests translated with `_handle_test`"""
    calls = [n for s in if_branch for n in ast.walk(s) if isinstance(n, ast.Call)]
    # 1. context passed to the recursive calls on node.body / node.orelse
    rec = [c for c in calls if _is_name(c.func, "_handle_fn_body") and len(c.args) == 2
           and _attr_path(c.args[0]) in ("node.body", "node.orelse")]
    if {_attr_path(c.args[0]) for c in rec} != {"node.body", "node.orelse"}:
        raise Unsupported("_handle_fn_body: recursive calls on node.body / node.orelse not found")
    ctxs = {_attr_path(c.args[1]) for c in rec}
    if ctxs == {"ctx"}:
        copies, imports_copied = False, False
    elif ctxs == {"ctx.updated(symbols=dict(ctx.symbols))"}:
        # Context.updated passes modules / fns on as they are: only the symbol table is copied
        copies, imports_copied = True, False
        upd = ast.unparse(_method(tree, "Context", "updated"))
        if "modules=self.modules" not in upd or "fns=self.fns" not in upd:
            raise Unsupported("Context.updated: shape")
    elif ctxs == {"ctx.branch()"}:
        kws = _branch_keywords(tree)
        copies = kws.get("symbols") == "dict(self.symbols)"
        imports_copied = kws.get("modules") == "dict(self.modules)" and kws.get("fns") == "dict(self.fns)"
        if not copies or not (imports_copied or (kws.get("modules") == "self.modules" and kws.get("fns") == "self.fns")):
            raise Unsupported(f"Context.branch: {kws}")
    else:
        raise Unsupported(f"_handle_fn_body: branch contexts {sorted(ctxs)}")
    # 2. _check_branch(node.body, remaining_body) and _check_branch(node.orelse, remaining_body)
    chk = {_attr_path(c.args[0]) for c in calls if _is_name(c.func, "_check_branch") and len(c.args) == 2
           and _attr_path(c.args[1]) == "remaining_body"}
    if chk == {"node.body", "node.orelse"}:
        checked = True
        cb = _fn(tree, "_check_branch")
        ar = _fn(tree, "_always_returns")
        if not any(isinstance(n, ast.Raise) for n in ast.walk(cb)) or not any(
                isinstance(n, ast.Call) and _is_name(n.func, "_always_returns") for n in ast.walk(cb)):
            raise Unsupported("_check_branch: shape")
        if "node.orelse" not in ast.unparse(ar) or "ast.Return" not in ast.unparse(ar):
            raise Unsupported("_always_returns: shape")
    elif not chk:
        checked = False
    else:
        raise Unsupported(f"_handle_fn_body: _check_branch applied to {sorted(chk)} only")
    # 3. tests
    def test_fn(stmts, what):
        for s in stmts:
            for n in ast.walk(s):
                if (isinstance(n, ast.Assign) and _is_name(n.targets[0], "condition") and isinstance(n.value, ast.Call)
                        and len(n.value.args) == 2 and _attr_path(n.value.args[0]) == "node.test"):
                    f = n.value.func
                    if _is_name(f, "_handle_expr") or _is_name(f, "_handle_test"):
                        return f.id
        raise Unsupported(f"{what}: translation of node.test not found")

    t1 = test_fn(if_branch, "_handle_fn_body")
    ifexp = [n for n in ast.walk(_fn(tree, "_handle_expr")) if isinstance(n, ast.If) and "ast.IfExp" in ast.unparse(n.test)]
    if len(ifexp) != 1:
        raise Unsupported("_handle_expr: IfExp branch not found")
    t2 = test_fn(ifexp[0].body, "_handle_expr/IfExp")
    if t1 != t2:
        raise Unsupported("if and IfExp tests are translated differently")
    boolean = t1 == "_handle_test"
    if boolean:
        htf = _fn(tree, "_handle_test")
        ht = ast.unparse(htf)
        # the local the translated test is kept in may have any name
        loc = next((n.targets[0].id for n in htf.body if isinstance(n, ast.Assign) and len(n.targets) == 1
                    and isinstance(n.targets[0], ast.Name) and isinstance(n.value, ast.Call)
                    and _is_name(n.value.func, "_handle_expr")), None)
        if (loc is None or "raise" not in ht or f"not isinstance({loc}, sympy.Symbol)" not in ht
                or f"isinstance({loc}, sympy.logic.boolalg.Boolean)" not in ht or f"isinstance({loc}, bool)" not in ht):
            raise Unsupported("_handle_test: shape")
    return copies, checked, boolean, imports_copied


CB_ATOMS = {
    "_always_returns(branch)": "alwaysReturns",
    "plain": "plain",
    "not rest": "restEmpty",
    "len(rest) == 1": "restLen1",
    "isinstance((ret := rest[0]), ast.Return)": "rest0Return",
    "isinstance(ret.value, ast.Name)": "retValueName",
    "cast(ast.Name, cast(ast.Assign, branch[-1]).targets[0]).id == ret.value.id": "lastTargetIsRet",
}
PLAIN_DEF = ("bool(branch) and all((isinstance(node, ast.Assign) and len(node.targets) == 1 and "
             "isinstance(node.targets[0], ast.Name) for node in branch))")
ALWAYS_RETURNS_BODY = [
    "for node in body:\n    if isinstance(node, ast.Return):\n        return True\n"
    "    if isinstance(node, ast.If) and _always_returns(node.body) and _always_returns(node.orelse):\n        return True",
    "return False",
]


def _no_doc(fn: ast.FunctionDef):
    b = fn.body
    if b and isinstance(b[0], ast.Expr) and isinstance(b[0].value, ast.Constant) and isinstance(b[0].value.value, str):
        return b[1:]
    return b


def check_branch_dnf(tree) -> list[list[str]]:
    """`_check_branch(branch, rest)` as the list of its accepting conditions (`if <conjunction>: return`, in order, then
    `raise`), every conjunct one of the known atoms; `_always_returns` must be the two-clause loop the model's
    `bodyReturns` is written after.  Anything else is outside the supported subset."""
    ar = [ast.unparse(x) for x in _no_doc(_fn(tree, "_always_returns"))]
    if ar != ALWAYS_RETURNS_BODY:
        raise Unsupported("_always_returns: body differs from the two-clause loop (Return / If with both branches)")
    dnf = []
    body = _no_doc(_fn(tree, "_check_branch"))
    seen_plain = False
    for st in body[:-1]:
        if isinstance(st, ast.Assign) and _is_name(st.targets[0], "plain"):
            if ast.unparse(st.value) != PLAIN_DEF:
                raise Unsupported(f"_check_branch: plain = {ast.unparse(st.value)}")
            seen_plain = True
            continue
        if isinstance(st, ast.Assign) and _is_name(st.targets[0], "msg"):
            continue
        if not (isinstance(st, ast.If) and not st.orelse and len(st.body) == 1 and isinstance(st.body[0], ast.Return)
                and st.body[0].value is None):
            raise Unsupported(f"_check_branch: statement {ast.unparse(st)[:60]}")
        conj = st.test.values if isinstance(st.test, ast.BoolOp) and isinstance(st.test.op, ast.And) else [st.test]
        atoms = []
        for c in conj:
            t = ast.unparse(c)
            if t not in CB_ATOMS:
                raise Unsupported(f"_check_branch: condition {t}")
            if t == "plain" and not seen_plain:
                raise Unsupported("_check_branch: plain used before its definition")
            atoms.append(CB_ATOMS[t])
        dnf.append(atoms)
    if not isinstance(body[-1], ast.Raise):
        raise Unsupported("_check_branch: does not end in raise")
    return dnf


def expr_kinds(tree) -> list[str]:
    """the `ast` classes `_handle_expr` dispatches on (top-level `if isinstance(node, ast.X)` statements), then raise"""
    fn = _fn(tree, "_handle_expr")
    out = []
    body = _no_doc(fn)
    for st in body:
        if isinstance(st, ast.If):
            t = st.test
            if not (isinstance(t, ast.Call) and _is_name(t.func, "isinstance") and _is_name(t.args[0], "node")) or st.orelse:
                raise Unsupported(f"_handle_expr: dispatch test {ast.unparse(t)}")
            if _is_name(t.args[1], "float"):
                continue  # an ast node is never a float: dead
            if not (isinstance(t.args[1], ast.Attribute) and _is_name(t.args[1].value, "ast")):
                raise Unsupported(f"_handle_expr: dispatch test {ast.unparse(t)}")
            out.append(t.args[1].attr)
        elif isinstance(st, ast.Assign) and _is_name(st.targets[0], "msg"):
            continue
        elif isinstance(st, ast.Raise):
            return out
        else:
            raise Unsupported(f"_handle_expr: statement {ast.unparse(st)[:60]}")
    raise Unsupported("_handle_expr: does not end in raise")


def entry_facts(tree) -> tuple[bool, bool]:
    """two facts about the entry of `fn_to_sympy`: (1) a function object whose source is ANOTHER function's (a decorator
    that wraps: `inspect.getsource` follows `__wrapped__`) is refused; (2) the free variables of a closure are bound to the
    numbers in its cells (anything else refused) instead of being looked up among the module's constants"""
    fn = _fn(tree, "fn_to_sympy")
    tries = [n for n in fn.body if isinstance(n, ast.Try)]
    if len(tries) != 1:
        raise Unsupported("fn_to_sympy: try statement")
    wrapped = False
    for st in tries[0].body:
        if isinstance(st, ast.If) and "unwrap" in ast.unparse(st.test):
            if ast.unparse(st.test) == "inspect.unwrap(fn) is not fn" and any(
                    isinstance(x, ast.Raise) and "NotImplementedError" in ast.unparse(x) for x in ast.walk(st)) \
                    and tries[0].body.index(st) == 0:
                wrapped = True
            else:
                raise Unsupported(f"fn_to_sympy: wrapped-function test {ast.unparse(st.test)!r}")
    ctxs = [n for n in ast.walk(tries[0]) if isinstance(n, ast.Call) and _is_name(n.func, "Context")]
    if len(ctxs) != 1:
        raise Unsupported("fn_to_sympy: Context(...)")
    sym = next((ast.unparse(k.value) for k in ctxs[0].keywords if k.arg == "symbols"), None)
    plain = "{name: sympy.Symbol(name) for name in fn_args}"
    if sym == plain:
        closures = False
    elif sym == "_closure_numbers(fn) | " + plain:
        cn = ast.unparse(_fn(tree, "_closure_numbers"))
        need = ["zip(code.co_freevars, cells, strict=True)", "cell.cell_contents", "NotImplementedError",
                "isinstance(value, bool) or not isinstance(value, int | float)", "numbers[name] = sympy.Float(value)"]
        if not all(x in cn for x in need):
            raise Unsupported("_closure_numbers: shape")
        closures = True
    else:
        raise Unsupported(f"fn_to_sympy: symbols = {sym}")
    return wrapped, closures


def lstr(s: str) -> str:
    return '"' + s.replace("\\", "\\\\").replace('"', '\\"') + '"'


def render(repo: Path) -> str:
    src = (repo / "src" / "mxlpy" / "meta" / "source_tools.py").read_text()
    tree = ast.parse(src)
    un, bi, cm = unops(tree), binops(tree), cmpops(tree)
    fns = _dict(tree, "KNOWN_FNS")
    consts = _dict(tree, "KNOWN_CONSTANTS")
    sim = subst_simultaneous(tree)
    tup, refused, (copies, checked, boolean, imports_copied), (chain, unpack), imports_strict, stmt_kinds = body_facts(tree)
    dnf = check_branch_dnf(tree) if checked else []
    ekinds = expr_kinds(tree)
    sig = sig_strict(tree)
    wrapped_refused, closures_cells = entry_facts(tree)
    b = lambda x: "true" if x else "false"  # noqa: E731
    lines = [
        "-- GENERATED by /verif/translate/c06.py from src/mxlpy/meta/source_tools.py; do not edit",
        "import MxlVerif.Model.C06",
        "namespace Mxl.C06.Generated",
        "open Mxl.C06",
        "",
        "def unops : List (UnOp × SUn) := [" + ", ".join(f"(.{a}, .{s})" for a, s in un) + "]",
        "def binops : List (BinOp × SBin) := [" + ", ".join(f"(.{a}, .{s})" for a, s in bi) + "]",
        "def cmpops : List (CmpOp × CmpTr) := [" + ", ".join(f"(.{a}, {s})" for a, s in cm) + "]",
        "def knownFns : List (String × String) := [",
        ",\n".join(f"  ({lstr(k)}, {lstr(v)})" for k, v in fns),
        "]",
        "def knownConsts : List (String × String) := [",
        ",\n".join(f"  ({lstr(k)}, {lstr(v)})" for k, v in consts),
        "]",
        "",
        "/-- the `ast` classes `_handle_expr` / the statement loop of `_handle_fn_body` dispatch on; everything else raises -/",
        "def exprKinds : List String := [" + ", ".join(lstr(k) for k in ekinds) + "]",
        "def stmtKinds : List String := [" + ", ".join(lstr(k) for k in stmt_kinds) + "]",
        "/-- `_check_branch`: the accepting conditions (each a conjunction), in source order -/",
        "def checkBranchAccept : List (List CBAtom) := [" + ", ".join("[" + ", ".join("." + a for a in c) + "]" for c in dnf) + "]",
        "",
        "/-- an expression statement is skipped only when it is a constant (docstring); a walrus / call statement is refused -/",
        f"def exprStmtConstOnly : Bool := {b(_STMT_FACTS['exprConstOnly'])}",
        "/-- every subclass of `ast.cmpop`, and the ones the Compare branch translates -/",
        "def cmpClasses : List String := [" + ", ".join(lstr(k) for k in cmp_classes()) + "]",
        "def cmpTranslated : List String := [" + ", ".join(lstr(k) for k in _CMP_FACTS["translated"]) + "]",
        "/-- `fn_to_sympy`: a function object whose source is another function's (`inspect.unwrap(fn) is not fn`) is refused -/",
        f"def wrappedRefused : Bool := {b(wrapped_refused)}",
        "/-- free variables are bound to the numbers in the closure's cells (anything else refused), not looked up in the module -/",
        f"def closuresFromCells : Bool := {b(closures_cells)}",
        "",
        "def tables : Tables where",
        "  unops := unops",
        "  binops := binops",
        "  cmpops := cmpops",
        "  knownFns := knownFns",
        "  knownConsts := knownConsts",
        f"  substSimultaneous := {b(sim)}",
        f"  tupleSimultaneous := {b(tup)}",
        f"  unknownStmtRefused := {b(refused)}",
        f"  branchCopies := {b(copies)}",
        f"  fallThroughChecked := {b(checked)}",
        f"  testsBoolean := {b(boolean)}",
        f"  chainAssignAll := {b(chain)}",
        f"  unpackRefused := {b(unpack)}",
        f"  importsStrict := {b(imports_strict)}",
        f"  importsCopied := {b(imports_copied)}",
        f"  sigStrict := {b(sig)}",
        f"  cmpStrict := {b(_CMP_FACTS['strict'])}",
        "",
        "end Mxl.C06.Generated",
        "",
    ]
    return "\n".join(lines)


def generate(repo: Path, outdir: Path) -> bool:
    text = render(Path(repo))
    outdir.mkdir(parents=True, exist_ok=True)
    p = outdir / "C06Tables.lean"
    if p.exists() and hashlib.sha256(p.read_bytes()).digest() == hashlib.sha256(text.encode()).digest():
        return False
    p.write_text(text)
    return True


if __name__ == "__main__":
    import os
    import sys

    repo = Path(sys.argv[1] if len(sys.argv) > 1 else os.environ.get("MXLPY_REPO", "/repo"))
    out = Path(__file__).resolve().parent.parent / "lean" / "MxlVerif" / "MxlVerif" / "Generated"
    print("rewritten" if generate(repo, out) else "unchanged")
