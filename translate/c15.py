"""translate/c15.py — reads the steady-state loop of `Scipy.integrate_to_steady_state` from the current
src/mxlpy/integrators/int_scipy.py and writes Generated/C15Loop.lean: whether `y1` is rebound to a copy of the
new state or to the integrator's own result buffer, and the defaults `max_steps` / `step_size`.

The loop must have exactly the statement shapes listed in EXPECT (compared after `ast.unparse`); anything else
raises, which breaks the proof side rather than going stale.
"""
from __future__ import annotations

import ast
import hashlib
from pathlib import Path


class Unsupported(Exception):
    pass


INTEGRATE = {"integ.integrate(t)": False}
INTEGRATE_COPY = {"integ.integrate(t).copy()", "np.array(integ.integrate(t))", "np.copy(integ.integrate(t))",
                  "np.array(integ.integrate(t), copy=True)", "copy.deepcopy(integ.integrate(t))"}
REBIND_ALIAS = {"y2"}
REBIND_COPY = {"y2.copy()", "np.copy(y2)", "np.array(y2)", "np.array(y2, copy=True)", "copy.deepcopy(y2)",
               "copy.copy(y2)"}
DIFF = "(y2 - y1) / y1 if rel_norm else y2 - y1"
TEST = "np.linalg.norm(diff, ord=2) < tolerance"
RET = "return Result(TimeCourse(time=np.array([t], dtype=float), values=np.array([y2], dtype=float)))"


def facts(src: str) -> dict:
    tree = ast.parse(src)
    cls = next((n for n in tree.body if isinstance(n, ast.ClassDef) and n.name == "Scipy"), None)
    if cls is None:
        raise Unsupported("class Scipy not found")
    fn = next((n for n in cls.body if isinstance(n, ast.FunctionDef) and n.name == "integrate_to_steady_state"), None)
    if fn is None:
        raise Unsupported("integrate_to_steady_state not found")
    kw = {a.arg: d for a, d in zip(fn.args.kwonlyargs, fn.args.kw_defaults)}
    try:
        step_size = int(ast.literal_eval(kw["step_size"]))
        max_steps = int(ast.literal_eval(kw["max_steps"]))
    except Exception as e:  # noqa: BLE001
        raise Unsupported(f"step_size/max_steps defaults: {e!r}") from e
    body = [s for s in fn.body if not (isinstance(s, ast.Expr) and isinstance(s.value, ast.Constant))]
    pre = [ast.unparse(s) for s in body]
    loops = [s for s in body if isinstance(s, ast.For)]
    if len(loops) != 1 or body[-2] is not loops[0]:
        raise Unsupported("expected exactly one for-loop followed by the final return")
    if pre[-1] != "return Result(NoSteadyState())":
        raise Unsupported(f"after the loop: {pre[-1]}")
    # since the repair of F-C04-2 the search continues from the integrator's current state: no `self.reset()`, the
    # ode object starts at `self.t0`, and t0 / y0 are advanced in the success branch (both shapes are accepted; the
    # loop itself — what C15 is about — is the same)
    for need in ("t = self.t0 + step_size", "y1 = copy.deepcopy(self.y0)"):
        if need not in pre:
            raise Unsupported(f"missing before the loop: {need}")
    resets = "self.reset()" in pre and "integ.set_initial_value(self.y0)" in pre
    starts_at_t0 = "self.reset()" not in pre and "integ.set_initial_value(self.y0, self.t0)" in pre
    if resets == starts_at_t0:
        raise Unsupported("before the loop: expected `self.reset()` + `integ.set_initial_value(self.y0)` or "
                          "`integ.set_initial_value(self.y0, self.t0)` without a reset")
    loop = loops[0]
    if ast.unparse(loop.iter) != "range(max_steps)" or loop.orelse:
        raise Unsupported("loop header")
    st = [ast.unparse(s) for s in loop.body]
    # since the repair of F-C15-3 the loop asks `integ.successful()` right after the step and stops with
    # IntegrationFailure when the solver has given up (checked BEFORE the state is compared)
    CHECK = "if not integ.successful():\n    return Result(IntegrationFailure())"
    checks = len(st) == 6 and st[1] == CHECK
    if checks:
        st = [st[0]] + st[2:]
    if len(st) != 5:
        raise Unsupported(f"loop body has {len(st)} statements")
    if not st[0].startswith("y2 = "):
        raise Unsupported(st[0])
    rhs0 = st[0][5:]
    if rhs0 in INTEGRATE:
        fresh = False
    elif rhs0 in INTEGRATE_COPY:
        fresh = True
    else:
        raise Unsupported(st[0])
    if st[1] != f"diff = {DIFF}":
        raise Unsupported(st[1])
    if st[2] == f"if {TEST}:\n    {RET}":
        advances = False
    elif st[2] == f"if {TEST}:\n    self.t0 = t\n    self.y0 = y2.copy()\n    {RET}":
        advances = True
    else:
        raise Unsupported(st[2])
    if advances != starts_at_t0:
        raise Unsupported("a search that starts at the current state must advance the integrator on success, and one that "
                          "resets must not (mixed shape)")
    if not st[3].startswith("y1 = "):
        raise Unsupported(st[3])
    rhs3 = st[3][5:]
    if rhs3 in REBIND_COPY:
        copies = True
    elif rhs3 in REBIND_ALIAS:
        copies = fresh  # an alias of y2 is harmless only if y2 itself is a fresh array
    else:
        raise Unsupported(st[3])
    if st[4] != "t += step_size":
        raise Unsupported(st[4])
    return {"copies": copies, "checks": checks, "continues": starts_at_t0, "max_steps": max_steps, "step_size": step_size, "rebind": st[3], "integrate": st[0]}


def render(f: dict) -> str:
    return (
        "-- GENERATED by translate/c15.py from src/mxlpy/integrators/int_scipy.py (integrate_to_steady_state); do not edit\n"
        "namespace Mxl.C15.Gen\n"
        f"/-- `{f['integrate']}` ... `{f['rebind']}`: "
        + ("y1 holds an array of its own" if f["copies"] else "y1 is rebound to the integrator's own buffer")
        + " -/\n"
        f"def copies : Bool := {'true' if f['copies'] else 'false'}\n"
        "/-- the loop stops with IntegrationFailure when `integ.successful()` is false after a step -/\n"
        f"def checks : Bool := {'true' if f['checks'] else 'false'}\n"
        "/-- the search starts at the integrator's current (t0, y0) and advances it on success (no `self.reset()`) -/\n"
        f"def continues : Bool := {'true' if f['continues'] else 'false'}\n"
        f"def maxSteps : Nat := {f['max_steps']}\n"
        f"def stepSize : Nat := {f['step_size']}\n"
        "end Mxl.C15.Gen\n"
    )


def write_if_changed(path: Path, text: str) -> bool:
    if path.exists() and hashlib.sha1(path.read_bytes()).digest() == hashlib.sha1(text.encode()).digest():
        return False
    path.parent.mkdir(parents=True, exist_ok=True)
    path.write_text(text)
    return True


def generate(repo: Path, outdir: Path) -> None:
    out = Path(outdir) / "C15Loop.lean"
    try:
        f = facts((Path(repo) / "src" / "mxlpy" / "integrators" / "int_scipy.py").read_text())
    except Exception as e:
        write_if_changed(out, "-- GENERATED by translate/c15.py: UNSUPPORTED source shape\nnamespace Mxl.C15.Gen\n"
                              f"/- {str(e)[:400].replace('-/', '- /')} -/\n"
                              "def copies : Bool := false\ndef checks : Bool := false\ndef continues : Bool := false\ndef maxSteps : Nat := 0\ndef stepSize : Nat := 0\n"
                              "end Mxl.C15.Gen\n")
        raise
    write_if_changed(out, render(f))


if __name__ == "__main__":
    import os
    root = Path(__file__).resolve().parent.parent
    generate(Path(os.environ.get("MXLPY_REPO", "/repo")), root / "lean" / "MxlVerif" / "MxlVerif" / "Generated")
    print((root / "lean/MxlVerif/MxlVerif/Generated/C15Loop.lean").read_text())
