"""C12 translator: the shipped rate-law library `mxlpy/fns.py` -> symbolic bodies.

Reads /repo's *current* `src/mxlpy/fns.py` with `ast`.  Supported subset per function:
positional parameters only, a body that is (docstring +) one `return <expr>` where
<expr> is built from the parameters, int/float literals that are exact dyadics, `+ - * /`,
unary `-`/`+`, and `**` with a natural-number literal.  Anything else raises `Unsupported` for
that function (it is then left out of the library and listed).

`library(repo)` -> {name: {"args": [...], "e": wire-SExpr, "poly": bool}} (what the harness feeds to
the driver and uses to pick functions); `generate(repo, outdir)` additionally writes
`Generated/C12Lib.lean` (content-hashed) so that `Props/C12.lean` can build its non-vacuity
examples from the real library bodies.
"""
from __future__ import annotations

import ast
from fractions import Fraction
from pathlib import Path

REQUIRED = [
    "mass_action_1s", "mass_action_1s_1p", "mass_action_2s", "mass_action_2s_1p",
    "michaelis_menten_1s", "michaelis_menten_2s", "michaelis_menten_3s",
    "constant", "mul", "add", "minus", "moiety_1s", "moiety_2s", "proportional", "diffusion_1s_1p",
]


class Unsupported(Exception):
    pass


def _rat(x) -> str:
    q = Fraction(x)
    d = q.denominator
    if d & (d - 1):
        raise Unsupported(f"non-dyadic literal {x!r}")
    return str(q.numerator) if d == 1 else f"{q.numerator}/{d}"


def _expr(node: ast.expr, params: list[str]):
    if isinstance(node, ast.Name):
        if node.id not in params:
            raise Unsupported(f"free name {node.id}")
        return ["a", params.index(node.id)]
    if isinstance(node, ast.Constant):
        if isinstance(node.value, bool) or not isinstance(node.value, (int, float)):
            raise Unsupported(f"literal {node.value!r}")
        return ["c", _rat(node.value)]
    if isinstance(node, ast.UnaryOp):
        if isinstance(node.op, ast.USub):
            return ["neg", _expr(node.operand, params)]
        if isinstance(node.op, ast.UAdd):
            return _expr(node.operand, params)
        raise Unsupported(ast.dump(node.op))
    if isinstance(node, ast.BinOp):
        ops = {ast.Add: "+", ast.Sub: "-", ast.Mult: "*", ast.Div: "/"}
        for cls, tag in ops.items():
            if isinstance(node.op, cls):
                return [tag, _expr(node.left, params), _expr(node.right, params)]
        if isinstance(node.op, ast.Pow):
            r = node.right
            if isinstance(r, ast.Constant) and isinstance(r.value, int) and not isinstance(r.value, bool) and r.value >= 0:
                return ["pow", _expr(node.left, params), r.value]
            raise Unsupported("exponent is not a natural-number literal")
        raise Unsupported(ast.dump(node.op))
    raise Unsupported(type(node).__name__)


def _poly(e) -> bool:
    if e[0] in ("a", "c", "s"):
        return True
    if e[0] == "/":
        return False
    return all(_poly(x) for x in e[1:] if isinstance(x, list))


def _function(fd: ast.FunctionDef):
    a = fd.args
    if a.posonlyargs or a.kwonlyargs or a.vararg or a.kwarg or a.defaults:
        raise Unsupported("non-positional parameters")
    params = [x.arg for x in a.args]
    body = list(fd.body)
    if body and isinstance(body[0], ast.Expr) and isinstance(getattr(body[0], "value", None), ast.Constant) \
            and isinstance(body[0].value.value, str):
        body = body[1:]
    if len(body) != 1 or not isinstance(body[0], ast.Return) or body[0].value is None:
        raise Unsupported("body is not a single return")
    e = _expr(body[0].value, params)
    return {"args": params, "e": e, "poly": _poly(e)}


def library(repo: Path, strict: bool = True) -> tuple[dict, dict]:
    """-> (supported {name: entry}, unsupported {name: reason}); with `strict` the REQUIRED functions must
    all be inside the supported subset"""
    src = (Path(repo) / "src" / "mxlpy" / "fns.py").read_text()
    tree = ast.parse(src)
    ok, bad = {}, {}
    for node in tree.body:
        if isinstance(node, ast.FunctionDef) and not node.name.startswith("_"):
            try:
                ok[node.name] = _function(node)
            except Unsupported as e:
                bad[node.name] = str(e)
    missing = [n for n in REQUIRED if n not in ok]
    if missing and strict:
        raise Unsupported(f"library functions outside the supported subset: { {m: bad.get(m, 'absent') for m in missing} }")
    return ok, bad


def _lean_expr(e) -> str:
    t = e[0]
    if t == "a":
        return f"(.arg {e[1]})"
    if t == "c":
        q = Fraction(e[1])
        return f"(.const ({q.numerator} : Rat))" if q.denominator == 1 else f"(.const (({q.numerator} : Rat) / {q.denominator}))"
    if t == "neg":
        return f"(.neg {_lean_expr(e[1])})"
    if t == "pow":
        return f"(.pow {_lean_expr(e[1])} {e[2]})"
    name = {"+": "add", "-": "sub", "*": "mul", "/": "div"}[t]
    return f"(.{name} {_lean_expr(e[1])} {_lean_expr(e[2])})"


def generate(repo: Path, outdir: Path) -> None:
    ok, bad = library(repo)
    lines = [
        "-- GENERATED by /verif/translate/c12.py from src/mxlpy/fns.py; do not edit",
        "import MxlVerif.Model.C12Sym",
        "namespace Mxl.C12.Lib",
        "",
    ]
    for name in sorted(ok):
        ent = ok[name]
        lines.append(f"/-- `mxlpy.fns.{name}({', '.join(ent['args'])})` -/")
        lines.append(f"def {name} : BExpr := {_lean_expr(ent['e'])}")
        lines.append(f"def {name}_arity : Nat := {len(ent['args'])}")
        lines.append("")
    for name in sorted(bad):
        lines.append(f"-- not translated: {name}: {bad[name]}")
    lines += ["", "end Mxl.C12.Lib", ""]
    text = "\n".join(lines)
    outdir.mkdir(parents=True, exist_ok=True)
    p = outdir / "C12Lib.lean"
    if not p.exists() or p.read_text() != text:
        p.write_text(text)
    generate_glue(repo, outdir)


# --------------------------------------------------------------------------- the use_jacobian glue

def _norm(node: ast.AST, ren: dict[str, str] | None = None) -> str:
    """source text with `self.model` -> `model` and the given local names replaced"""
    ren = ren or {}

    class N(ast.NodeTransformer):
        def visit_Attribute(self, n):
            n = self.generic_visit(n)
            if isinstance(n.value, ast.Name) and n.value.id == "self" and n.attr == "model":
                return ast.Name(id="model", ctx=ast.Load())
            return n

        def visit_Name(self, n):
            return ast.Name(id=ren.get(n.id, n.id), ctx=n.ctx)

    import copy

    return ast.unparse(N().visit(copy.deepcopy(node)))


def _is_self_attr(n: ast.AST, attr: str) -> bool:
    return isinstance(n, ast.Attribute) and isinstance(n.value, ast.Name) and n.value.id == "self" and n.attr == attr


def _strip_doc(body):
    body = list(body)
    if body and isinstance(body[0], ast.Expr) and isinstance(getattr(body[0], "value", None), ast.Constant) \
            and isinstance(body[0].value.value, str):
        body = body[1:]
    return body


def glue(repo: Path) -> dict:
    """facts about `Simulator._initialise_integrator` and the methods around it, read structurally (local names
    are free); anything outside the recognised shape raises `Unsupported`"""
    tree = ast.parse((Path(repo) / "src" / "mxlpy" / "simulator.py").read_text())
    cls = next((n for n in tree.body if isinstance(n, ast.ClassDef) and n.name == "Simulator"), None)
    if cls is None:
        raise Unsupported("class Simulator not found")
    methods = {n.name: n for n in cls.body if isinstance(n, ast.FunctionDef)}
    init = methods.get("_initialise_integrator")
    if init is None:
        raise Unsupported("Simulator._initialise_integrator not found")
    # --- the integrator construction: third positional argument is the closure
    jac_name = None
    for st in init.body:
        if isinstance(st, ast.Assign) and len(st.targets) == 1 and _is_self_attr(st.targets[0], "integrator") \
                and isinstance(st.value, ast.Call) and _is_self_attr(st.value.func, "_integrator_type"):
            a = st.value.args
            if len(a) == 3 and isinstance(a[2], ast.Name) and not st.value.keywords:
                jac_name = a[2].id
            elif len(a) == 2 and [k.arg for k in st.value.keywords] == ["jacobian"] and isinstance(st.value.keywords[0].value, ast.Name):
                jac_name = st.value.keywords[0].value.id
    gets_jac = jac_name is not None
    if jac_name is None:
        raise Unsupported("the integrator is not constructed as self._integrator_type(model, y0, <name>)")
    # --- `jac = None` first, then `if self.use_jacobian: try: ...`
    top = _strip_doc(init.body)
    if not (top and isinstance(top[0], ast.Assign) and len(top[0].targets) == 1 and isinstance(top[0].targets[0], ast.Name)
            and top[0].targets[0].id == jac_name and isinstance(top[0].value, ast.Constant) and top[0].value.value is None):
        raise Unsupported(f"_initialise_integrator does not start with `{jac_name} = None`")
    guarded = [st for st in top[1:] if isinstance(st, ast.If) and _is_self_attr(st.test, "use_jacobian") and not st.orelse]
    others = [st for st in top[1:] if st not in guarded]
    for st in others:
        for n in ast.walk(st):
            if (isinstance(n, (ast.FunctionDef, ast.Lambda)) or
                    (isinstance(n, ast.Name) and n.id == jac_name and isinstance(n.ctx, ast.Store))):
                raise Unsupported("the closure is (also) built outside `if self.use_jacobian:`")
    if len(guarded) != 1 or len(guarded[0].body) != 1 or not isinstance(guarded[0].body[0], ast.Try):
        raise Unsupported("expected exactly one `if self.use_jacobian: try: ... except ...`")
    tr: ast.Try = guarded[0].body[0]
    if tr.orelse or tr.finalbody or len(tr.handlers) != 1:
        raise Unsupported("try statement with else / finally / several handlers")
    # --- inside the try: compile function, remembered pair, closure
    compile_fn = store = closure = None
    for st in tr.body:
        if isinstance(st, ast.FunctionDef) and st.name == jac_name:
            closure = st
        elif isinstance(st, ast.FunctionDef) and not st.args.args:
            compile_fn = st
        elif isinstance(st, ast.Assign) and isinstance(st.value, ast.Dict):
            store = st
        else:
            raise Unsupported(f"statement in the try body: {ast.unparse(st)[:60]}")
    if compile_fn is None or store is None or closure is None:
        raise Unsupported("compile function / remembered pair / closure not all found inside the try")
    cb = _strip_doc(compile_fn.body)
    if not (len(cb) == 1 and isinstance(cb[0], ast.Return) and isinstance(cb[0].value, ast.Call)
            and ast.unparse(cb[0].value.func) in ("lambdify", "sympy.lambdify") and len(cb[0].value.args) == 2
            and not cb[0].value.keywords and isinstance(cb[0].value.args[0], ast.Tuple)):
        raise Unsupported("compile function is not `return lambdify((...), matrix)`")
    lam_args = [_norm(e) for e in cb[0].value.args[0].elts]
    matrix = _norm(cb[0].value.args[1])
    if not (len(store.targets) == 1 and isinstance(store.targets[0], ast.Name) and len(store.value.keys) in (2, 3)
            and all(isinstance(k, ast.Constant) and isinstance(k.value, str) for k in store.value.keys)):
        raise Unsupported("remembered state is not a dict with two or three string keys")
    sname = store.targets[0].id
    # the model's cache OBJECT (`Model._cache`: discarded by every edit, re-created lazily by the getters; the conversion
    # itself re-creates it, so it has to be read AFTER compiling).  `model._create_cache()` is not it: it builds a new
    # object on every call
    CACHE = "model._cache"
    fn_key = val_key = cache_key = compiled_from = None
    fn_pos = cache_pos = None
    for pos, (k, v) in enumerate(zip(store.value.keys, store.value.values)):
        if isinstance(v, ast.Call) and isinstance(v.func, ast.Name) and v.func.id == compile_fn.name and not v.args:
            fn_key, fn_pos = k.value, pos
        elif _norm(v) == CACHE:
            cache_key, cache_pos = k.value, pos
        elif _norm(v) == "model._create_cache()":
            raise Unsupported("the remembered cache object is a fresh `_create_cache()` (never the model's own)")
        elif val_key is None:
            val_key, compiled_from = k.value, _norm(v)
        else:
            raise Unsupported(f"remembered state: unrecognised entry {k.value!r}: {_norm(v)}")
    if fn_key is None or val_key is None:
        raise Unsupported("remembered state does not hold the compiled function and the values")

    def is_slot(n, key):
        return (key is not None and isinstance(n, ast.Subscript) and isinstance(n.value, ast.Name) and n.value.id == sname
                and isinstance(n.slice, ast.Constant) and n.slice.value == key)

    # --- the closure
    if len(closure.args.args) != 2 or closure.args.vararg or closure.args.kwarg or closure.args.kwonlyargs:
        raise Unsupported("the closure does not take (t, x)")
    tn, xn = [a.arg for a in closure.args.args]
    body = _strip_doc(closure.body)
    # leading `local = <expr>`: the current values, and (optionally) the model's current cache object
    vn = cn = values_from = None
    while body and isinstance(body[0], ast.Assign) and len(body[0].targets) == 1 and isinstance(body[0].targets[0], ast.Name):
        src_ = _norm(body[0].value)
        if src_ in (CACHE, "model._create_cache()") and cn is None:
            cn = body[0].targets[0].id
            if src_ != CACHE:
                raise Unsupported("the closure compares a fresh `_create_cache()` object")
        elif vn is None:
            vn, values_from = body[0].targets[0].id, src_
        else:
            raise Unsupported(f"the closure reads something else first: {ast.unparse(body[0])[:60]}")
        body = body[1:]
    if vn is None:
        raise Unsupported("the closure does not start by reading the current values into a local")
    rest = body
    recompile = stores = watches = stores_cache = False
    compile_first = True
    cache_read_after = True
    if len(rest) == 2 and isinstance(rest[0], ast.If):
        iff: ast.If = rest[0]
        if iff.orelse:
            raise Unsupported("recompile branch with an else")
        tests = iff.test.values if isinstance(iff.test, ast.BoolOp) and isinstance(iff.test.op, ast.Or) else [iff.test]
        val_test = cache_test = False
        for t_ in tests:
            if not (isinstance(t_, ast.Compare) and len(t_.ops) == 1):
                raise Unsupported(f"recompile condition: {ast.unparse(iff.test)}")
            l_, r_ = t_.left, t_.comparators[0]
            if isinstance(r_, ast.Name):
                l_, r_ = r_, l_
            if isinstance(t_.ops[0], ast.NotEq) and isinstance(l_, ast.Name) and l_.id == vn and is_slot(r_, val_key):
                val_test = True
            elif (isinstance(t_.ops[0], ast.IsNot) and isinstance(l_, ast.Name) and cn is not None and l_.id == cn
                  and is_slot(r_, cache_key)):
                cache_test = True
            elif isinstance(t_.ops[0], ast.IsNot) and (
                    (_norm(t_.left) == CACHE and is_slot(t_.comparators[0], cache_key))
                    or (_norm(t_.comparators[0]) == CACHE and is_slot(t_.left, cache_key))):
                cache_test = True
            else:
                raise Unsupported(f"recompile condition: {ast.unparse(t_)}")
        fn_again = False
        for pos, st in enumerate(iff.body):
            if isinstance(st, ast.Assign) and len(st.targets) == 1 and is_slot(st.targets[0], fn_key) \
                    and isinstance(st.value, ast.Call) and isinstance(st.value.func, ast.Name) \
                    and st.value.func.id == compile_fn.name and not st.value.args:
                fn_again = True
                # exception safety: what the closure remembers is replaced only after the compilation has succeeded
                compile_first = pos == 0
            elif isinstance(st, ast.Assign) and len(st.targets) == 1 and is_slot(st.targets[0], val_key) \
                    and isinstance(st.value, ast.Name) and st.value.id == vn:
                stores = True
            elif isinstance(st, ast.Assign) and len(st.targets) == 1 and is_slot(st.targets[0], cache_key) \
                    and ((isinstance(st.value, ast.Name) and st.value.id == cn) or _norm(st.value) == CACHE):
                stores_cache = True
                # a local read at the top of the closure, or a read placed before the compilation, is the object from
                # BEFORE compiling (the conversion replaces it)
                cache_read_after = _norm(st.value) == CACHE and fn_again
            else:
                raise Unsupported(f"statement in the recompile branch: {ast.unparse(st)[:60]}")
        recompile = fn_again and val_test
        watches = fn_again and cache_test
        rest = rest[1:]
    if not (len(rest) == 1 and isinstance(rest[0], ast.Return) and isinstance(rest[0].value, ast.Call)
            and is_slot(rest[0].value.func, fn_key) and not rest[0].value.keywords):
        raise Unsupported("the closure does not end with `return <compiled>(...)`")

    def call_arg(a):
        if isinstance(a, ast.Name) and a.id == tn:
            return "t"
        if isinstance(a, ast.Name) and a.id == xn:
            return "x"

        class R(ast.NodeTransformer):
            def visit_Subscript(self, n):
                if is_slot(n, val_key):
                    return ast.Name(id="compiled", ctx=ast.Load())
                return self.generic_visit(n)

        import copy

        return _norm(R().visit(copy.deepcopy(a)), {vn: "current"})

    call_args = [call_arg(a) for a in rest[0].value.args]
    # --- the handler
    h = tr.handlers[0]
    catches_all = h.type is None or (isinstance(h.type, ast.Name) and h.type.id in ("Exception", "BaseException"))
    fb_none = any(isinstance(st, ast.Assign) and len(st.targets) == 1 and isinstance(st.targets[0], ast.Name)
                  and st.targets[0].id == jac_name and isinstance(st.value, ast.Constant) and st.value.value is None
                  for st in h.body)
    sets_other = any(isinstance(n, ast.Name) and n.id == jac_name and isinstance(n.ctx, ast.Store) for st in h.body
                     for n in ast.walk(st)) and not fb_none
    if sets_other:
        raise Unsupported("the handler binds the closure to something else than None")
    if any(isinstance(n, ast.Raise) for st in h.body for n in ast.walk(st)):
        catches_all = False
    # without a rebinding in the handler the name is still None only if nothing can raise after the closure's `def`
    fb_none = fb_none or tr.body[-1] is closure
    warns = any(isinstance(n, ast.Call) and isinstance(n.func, ast.Attribute) and n.func.attr in ("warning", "warn")
                for st in h.body for n in ast.walk(st))
    # --- who re-initialises, who only forwards parameter updates
    reinit, parsites = [], []
    for name, m in methods.items():
        if name == "_initialise_integrator":
            continue
        if any(isinstance(n, ast.Call) and _is_self_attr(n.func, "_initialise_integrator") for n in ast.walk(m)):
            reinit.append(name)
        b = _strip_doc(m.body)
        if (len(b) == 2 and isinstance(b[0], ast.Expr) and isinstance(b[0].value, ast.Call)
                and isinstance(b[0].value.func, ast.Attribute) and _is_self_attr(b[0].value.func.value, "model")
                and "parameter" in b[0].value.func.attr and isinstance(b[1], ast.Return)
                and isinstance(b[1].value, ast.Name) and b[1].value.id == "self"):
            parsites.append(name)
    return {
        "lambdifyArgs": lam_args, "callArgs": call_args, "valuesFrom": values_from, "compiledFrom": compiled_from,
        "matrix": matrix, "recompileOnChange": recompile, "storesValues": stores,
        "watchesModel": watches, "storesCache": stores_cache,
        "cacheFrom": ("" if cache_key is None else CACHE + (" (read after compiling)" if cache_read_after and fn_pos < cache_pos
                                                            else " (read before compiling)")),
        "compileBeforeStore": compile_first,
        "compileInsideTry": True,
        "catchesAll": catches_all, "fallbackNone": fb_none, "fallbackWarns": warns, "integratorGetsJac": gets_jac,
        "onlyWhenRequested": True, "reinitSites": sorted(reinit), "parameterSites": sorted(parsites),
    }


def scipy_methods(repo: Path) -> list[str]:
    """the `Literal[...]` of `Scipy.method` and where `jac=self.jacobian` is handed on"""
    tree = ast.parse((Path(repo) / "src" / "mxlpy" / "integrators" / "int_scipy.py").read_text())
    cls = next((n for n in tree.body if isinstance(n, ast.ClassDef) and n.name == "Scipy"), None)
    if cls is None:
        raise Unsupported("class Scipy not found")
    meths = None
    for st in cls.body:
        if isinstance(st, ast.AnnAssign) and isinstance(st.target, ast.Name) and st.target.id == "method":
            ann = st.annotation
            if isinstance(ann, ast.Subscript) and ast.unparse(ann.value) == "Literal":
                elts = ann.slice.elts if isinstance(ann.slice, ast.Tuple) else [ann.slice]
                meths = [e.value for e in elts if isinstance(e, ast.Constant) and isinstance(e.value, str)]
    if not meths:
        raise Unsupported("Scipy.method is not annotated with a Literal of method names")
    passes = []
    for n in ast.walk(cls):
        if isinstance(n, ast.Call):
            for k in n.keywords:
                if k.arg == "jac":
                    if not _is_self_attr(k.value, "jacobian"):
                        raise Unsupported(f"jac={ast.unparse(k.value)} (not self.jacobian)")
                    passes.append(ast.unparse(n.func))
    if "spi.solve_ivp" not in passes:
        raise Unsupported("solve_ivp is not called with jac=self.jacobian")
    return meths


def _lean_str(s: str) -> str:
    return '"' + s.replace("\\", "\\\\").replace('"', '\\"') + '"'


def _lean_glue(g: dict) -> str:
    def b(x):
        return "true" if x else "false"

    def sl(xs):
        return "[" + ", ".join(_lean_str(x) for x in xs) + "]"

    return (
        "{ lambdifyArgs := " + sl(g["lambdifyArgs"]) + ",\n    callArgs := " + sl(g["callArgs"]) +
        ",\n    valuesFrom := " + _lean_str(g["valuesFrom"]) + ",\n    compiledFrom := " + _lean_str(g["compiledFrom"]) +
        ",\n    matrix := " + _lean_str(g["matrix"]) +
        ",\n    cacheFrom := " + _lean_str(g["cacheFrom"]) +
        "".join(f",\n    {k} := {b(g[k])}" for k in ("recompileOnChange", "storesValues", "watchesModel", "storesCache",
                                                    "compileBeforeStore", "compileInsideTry", "catchesAll",
                                                    "fallbackNone", "fallbackWarns", "integratorGetsJac", "onlyWhenRequested")) +
        ",\n    reinitSites := " + sl(g["reinitSites"]) + ",\n    parameterSites := " + sl(g["parameterSites"]) + " }"
    )


def generate_glue(repo: Path, outdir: Path) -> None:
    g = glue(repo)
    meths = scipy_methods(repo)
    text = "\n".join([
        "-- GENERATED by /verif/translate/c12.py from src/mxlpy/simulator.py and integrators/int_scipy.py; do not edit",
        "import MxlVerif.Model.C12Sim",
        "namespace Mxl.C12.Generated",
        "",
        "/-- `Simulator._initialise_integrator` and the methods around it, as read from the current source -/",
        "def glue : Glue :=",
        "  " + _lean_glue(g),
        "",
        "/-- `Scipy.method: Literal[...]`; every one of them is run with `jac=self.jacobian` -/",
        "def scipyMethods : List String := [" + ", ".join(_lean_str(m) for m in meths) + "]",
        "",
        "end Mxl.C12.Generated",
        "",
    ])
    outdir.mkdir(parents=True, exist_ok=True)
    p = outdir / "C12Glue.lean"
    if not p.exists() or p.read_text() != text:
        p.write_text(text)


if __name__ == "__main__":
    import json
    import sys

    ok, bad = library(Path(sys.argv[1] if len(sys.argv) > 1 else "/repo"))
    print(json.dumps({"ok": ok, "unsupported": bad}, indent=1))
