"""C12 translator: the shipped rate-law library `mxlpy/fns.py` -> symbolic bodies.

Reads /repo's *current* `src/mxlpy/fns.py` with `ast`.  Supported subset per function:
positional parameters only, a body that is (docstring +) one `return <expr>` where
<expr> is built from the parameters, int/float literals that are exact dyadics, `+ - * /`,
unary `-`/`+`, and `**` with a natural-number literal.  Anything else raises `Unsupported` for
that function (it is then left out of the library and listed).

`library(repo)` -> {name: {"args": [...], "e": wire-SExpr, "poly": bool}} (what the harness feeds to
the driver and uses to pick functions); `generate(repo, outdir)` additionally writes
`Generated/C12Lib.lean` (content-hashed) so that `Props/C12.lean` can build its non-vacuity
examples from the real library bodies.
"""
from __future__ import annotations

import ast
from fractions import Fraction
from pathlib import Path

REQUIRED = [
    "mass_action_1s", "mass_action_1s_1p", "mass_action_2s", "mass_action_2s_1p",
    "michaelis_menten_1s", "michaelis_menten_2s", "michaelis_menten_3s",
    "constant", "mul", "add", "minus", "moiety_1s", "moiety_2s", "proportional", "diffusion_1s_1p",
]


class Unsupported(Exception):
    pass


def _rat(x) -> str:
    q = Fraction(x)
    d = q.denominator
    if d & (d - 1):
        raise Unsupported(f"non-dyadic literal {x!r}")
    return str(q.numerator) if d == 1 else f"{q.numerator}/{d}"


def _expr(node: ast.expr, params: list[str]):
    if isinstance(node, ast.Name):
        if node.id not in params:
            raise Unsupported(f"free name {node.id}")
        return ["a", params.index(node.id)]
    if isinstance(node, ast.Constant):
        if isinstance(node.value, bool) or not isinstance(node.value, (int, float)):
            raise Unsupported(f"literal {node.value!r}")
        return ["c", _rat(node.value)]
    if isinstance(node, ast.UnaryOp):
        if isinstance(node.op, ast.USub):
            return ["neg", _expr(node.operand, params)]
        if isinstance(node.op, ast.UAdd):
            return _expr(node.operand, params)
        raise Unsupported(ast.dump(node.op))
    if isinstance(node, ast.BinOp):
        ops = {ast.Add: "+", ast.Sub: "-", ast.Mult: "*", ast.Div: "/"}
        for cls, tag in ops.items():
            if isinstance(node.op, cls):
                return [tag, _expr(node.left, params), _expr(node.right, params)]
        if isinstance(node.op, ast.Pow):
            r = node.right
            if isinstance(r, ast.Constant) and isinstance(r.value, int) and not isinstance(r.value, bool) and r.value >= 0:
                return ["pow", _expr(node.left, params), r.value]
            raise Unsupported("exponent is not a natural-number literal")
        raise Unsupported(ast.dump(node.op))
    raise Unsupported(type(node).__name__)


def _poly(e) -> bool:
    if e[0] in ("a", "c", "s"):
        return True
    if e[0] == "/":
        return False
    return all(_poly(x) for x in e[1:] if isinstance(x, list))


def _function(fd: ast.FunctionDef):
    a = fd.args
    if a.posonlyargs or a.kwonlyargs or a.vararg or a.kwarg or a.defaults:
        raise Unsupported("non-positional parameters")
    params = [x.arg for x in a.args]
    body = list(fd.body)
    if body and isinstance(body[0], ast.Expr) and isinstance(getattr(body[0], "value", None), ast.Constant) \
            and isinstance(body[0].value.value, str):
        body = body[1:]
    if len(body) != 1 or not isinstance(body[0], ast.Return) or body[0].value is None:
        raise Unsupported("body is not a single return")
    e = _expr(body[0].value, params)
    return {"args": params, "e": e, "poly": _poly(e)}


def library(repo: Path, strict: bool = True) -> tuple[dict, dict]:
    """-> (supported {name: entry}, unsupported {name: reason}); with `strict` the REQUIRED functions must
    all be inside the supported subset"""
    src = (Path(repo) / "src" / "mxlpy" / "fns.py").read_text()
    tree = ast.parse(src)
    ok, bad = {}, {}
    for node in tree.body:
        if isinstance(node, ast.FunctionDef) and not node.name.startswith("_"):
            try:
                ok[node.name] = _function(node)
            except Unsupported as e:
                bad[node.name] = str(e)
    missing = [n for n in REQUIRED if n not in ok]
    if missing and strict:
        raise Unsupported(f"library functions outside the supported subset: { {m: bad.get(m, 'absent') for m in missing} }")
    return ok, bad


def _lean_expr(e) -> str:
    t = e[0]
    if t == "a":
        return f"(.arg {e[1]})"
    if t == "c":
        q = Fraction(e[1])
        return f"(.const ({q.numerator} : Rat))" if q.denominator == 1 else f"(.const (({q.numerator} : Rat) / {q.denominator}))"
    if t == "neg":
        return f"(.neg {_lean_expr(e[1])})"
    if t == "pow":
        return f"(.pow {_lean_expr(e[1])} {e[2]})"
    name = {"+": "add", "-": "sub", "*": "mul", "/": "div"}[t]
    return f"(.{name} {_lean_expr(e[1])} {_lean_expr(e[2])})"


def generate(repo: Path, outdir: Path) -> None:
    ok, bad = library(repo)
    lines = [
        "-- GENERATED by /verif/translate/c12.py from src/mxlpy/fns.py; do not edit",
        "import MxlVerif.Model.C12Sym",
        "namespace Mxl.C12.Lib",
        "",
    ]
    for name in sorted(ok):
        ent = ok[name]
        lines.append(f"/-- `mxlpy.fns.{name}({', '.join(ent['args'])})` -/")
        lines.append(f"def {name} : BExpr := {_lean_expr(ent['e'])}")
        lines.append(f"def {name}_arity : Nat := {len(ent['args'])}")
        lines.append("")
    for name in sorted(bad):
        lines.append(f"-- not translated: {name}: {bad[name]}")
    lines += ["", "end Mxl.C12.Lib", ""]
    text = "\n".join(lines)
    outdir.mkdir(parents=True, exist_ok=True)
    p = outdir / "C12Lib.lean"
    if not p.exists() or p.read_text() != text:
        p.write_text(text)


if __name__ == "__main__":
    import json
    import sys

    ok, bad = library(Path(sys.argv[1] if len(sys.argv) > 1 else "/repo"))
    print(json.dumps({"ok": ok, "unsupported": bad}, indent=1))
