"""translate/c04.py — reads the facts of the time bookkeeping that the C04 / C14 models are parametrised by from
the *current* sources and writes Generated/C04Facts.lean (namespace `Mxl.C04.Gen`):

src/mxlpy/simulator.py
  simulate                      comparison of the refusal test, whether it precedes the `_time_shift` subtraction,
                                the `skipfirst=` flag
  simulate_time_course          comparison of the refusal test and of the overlap filter, both before the shift
                                subtraction, `skipfirst=`
  simulate_to_steady_state      `skipfirst=`
  _handle_simulation_results    `time += _time_shift` only when a shift is set; first result kept whole, later ones
                                `iloc[1:]` when `skipfirst`
  update_variables              re-reads the last row only when `_time_shift != t_last`
  clear_results                 the attributes it resets
  simulate_protocol             default `time_points_per_step`, end of a step = `t_start + t_end.total_seconds()`
  simulate_protocol_time_course comparison of the refusal test, the two comparisons of the half-open selection,
                                default `time_points_as_relative`
src/mxlpy/integrators/int_scipy.py
  Scipy.integrate               `steps = 100 if steps is None else steps + 1`
  Scipy.integrate_time_course   `if time_points[0] != self.t0: insert`, `self.t0 = t[-1]`, `self.y0 = y[-1]` on success
  Scipy.reset                   `self.t0 = 0`, `self.y0 = self._y0_orig`
  Scipy.integrate_to_steady_state  defaults `step_size` / `max_steps`; whether it calls `reset()`, whether the ode
                                object starts at `self.t0`, whether `t0` / `y0` are advanced on success

Every fact is read with `ast` from the statement shapes listed below (compared after `ast.unparse`); any other
shape raises `Unsupported` and the generated file then carries `Cmp.unsupported` / impossible values, so the
lemmas in Lemmas/C04.lean that tie the facts to the proofs stop checking — never a silent default.
"""
from __future__ import annotations

import ast
from pathlib import Path

from .common import Unsupported, find_function, write_if_changed

CMP = {ast.Lt: "lt", ast.LtE: "le", ast.Gt: "gt", ast.GtE: "ge", ast.Eq: "eq", ast.NotEq: "ne"}

PRIOR = "0.0 if (variables := self.variables) is None else variables[-1].index[-1]"


# how a protocol row is applied: whole row (NaN cells of parameters the step does not name included) or only the
# values the step gives
UPDATE_ROW = {"self.model.update_parameters(pars.to_dict())": False,
              "self.model.update_parameters(pars.dropna().to_dict())": True}


def _u(node: ast.AST) -> str:
    return ast.unparse(node)


def _body(fn: ast.FunctionDef) -> list[ast.stmt]:
    """statements without the docstring"""
    return [s for s in fn.body if not (isinstance(s, ast.Expr) and isinstance(s.value, ast.Constant))]


def _cmp(test: ast.AST, left: str, right: str, what: str) -> str:
    if not (isinstance(test, ast.Compare) and len(test.ops) == 1 and len(test.comparators) == 1):
        raise Unsupported(f"{what}: not a single comparison: {_u(test)}")
    if _u(test.left) != left or _u(test.comparators[0]) != right:
        raise Unsupported(f"{what}: expected `{left} <op> {right}`, found `{_u(test)}`")
    op = CMP.get(type(test.ops[0]))
    if op is None:
        raise Unsupported(f"{what}: operator in `{_u(test)}`")
    return op


def _raises_value_error(st: ast.stmt) -> bool:
    return isinstance(st, ast.If) and not st.orelse and any(
        isinstance(b, ast.Raise) and b.exc is not None and _u(b.exc).startswith("ValueError") for b in st.body)


def _index(stmts: list[ast.stmt], pred, what: str) -> int:
    hits = [i for i, s in enumerate(stmts) if pred(s)]
    if len(hits) != 1:
        raise Unsupported(f"{what}: expected exactly one such statement, found {len(hits)}")
    return hits[0]


def _prior_stmt(stmts: list[ast.stmt], what: str) -> tuple[int, str]:
    """the statement `<name>[: float] = 0.0 if (variables := self.variables) is None else variables[-1].index[-1]`, found by
    its VALUE: the local's name is the code's business (a renamed local is a harmless rewrite), what it holds is not"""
    def pred(st):
        if isinstance(st, ast.AnnAssign) and st.value is not None and isinstance(st.target, ast.Name):
            return _u(st.value) == PRIOR
        if isinstance(st, ast.Assign) and len(st.targets) == 1 and isinstance(st.targets[0], ast.Name):
            return _u(st.value) == PRIOR
        return False
    i = _index(stmts, pred, what)
    st = stmts[i]
    return i, (st.target.id if isinstance(st, ast.AnnAssign) else st.targets[0].id)


def _kw(call: ast.Call, name: str, what: str) -> ast.AST:
    for k in call.keywords:
        if k.arg == name:
            return k.value
    raise Unsupported(f"{what}: keyword {name}= missing in `{_u(call)}`")


def _handle_call(stmts: list[ast.stmt], integ_call_prefix: str, what: str) -> tuple[int, bool]:
    """index of `self._handle_simulation_results(self.integrator.<...>(...), skipfirst=<bool>)` and the flag"""
    def pred(s):
        return (isinstance(s, ast.Expr) and isinstance(s.value, ast.Call)
                and _u(s.value.func) == "self._handle_simulation_results")
    i = _index(stmts, pred, f"{what}: _handle_simulation_results call")
    call = stmts[i].value
    if len(call.args) != 1 or not _u(call.args[0]).startswith(integ_call_prefix):
        raise Unsupported(f"{what}: first argument `{_u(call.args[0]) if call.args else ''}`")
    flag = _kw(call, "skipfirst", what)
    if not (isinstance(flag, ast.Constant) and isinstance(flag.value, bool)):
        raise Unsupported(f"{what}: skipfirst={_u(flag)}")
    return i, flag.value


def _shift_sub(stmts: list[ast.stmt], var: str, what: str) -> int:
    want = f"if self._time_shift is not None:\n    {var} -= self._time_shift"
    return _index(stmts, lambda s: _u(s) == want, f"{what}: `{var} -= self._time_shift` under `is not None`")


def _default(fn: ast.FunctionDef, name: str, what: str):
    args = fn.args
    pos = args.posonlyargs + args.args
    for a, d in zip(pos[len(pos) - len(args.defaults):], args.defaults):
        if a.arg == name:
            return ast.literal_eval(d)
    for a, d in zip(args.kwonlyargs, args.kw_defaults):
        if a.arg == name and d is not None:
            return ast.literal_eval(d)
    raise Unsupported(f"{what}: no default for {name}")


def _sec_simulate(tree, f):
    b = _body(find_function(tree, "simulate", "Simulator"))
    if _u(b[0]) != "if len(self._errors) > 0:\n    return self":
        raise Unsupported(f"simulate: first statement `{_u(b[0])}`")
    ip, prior = _prior_stmt(b, "simulate: the time reached (`0.0 if variables is None else variables[-1].index[-1]`)")
    ir = _index(b, _raises_value_error, "simulate: refusal")
    f["simulateRefusal"] = _cmp(b[ir].test, "t_end", prior, "simulate refusal")
    ish = _shift_sub(b, "t_end", "simulate")
    ih, f["simulateSkipfirst"] = _handle_call(b, "self.integrator.integrate(t_end=t_end, steps=steps)", "simulate")
    if not (ip < ir and ir < ih and ish < ih):
        raise Unsupported("simulate: statement order")
    f["simulateChecksBeforeShift"] = ir < ish


def _sec_time_course(tree, f):
    b = _body(find_function(tree, "simulate_time_course", "Simulator"))
    if _u(b[0]) != "if len(self._errors) > 0:\n    return self":
        raise Unsupported(f"simulate_time_course: first statement `{_u(b[0])}`")
    if _u(b[1]) != "time_points = np.array(time_points, dtype=float)":
        raise Unsupported(f"simulate_time_course: `{_u(b[1])}`")
    ip, prior = _prior_stmt(b, "time course: the time reached (`0.0 if variables is None else variables[-1].index[-1]`)")
    ir = _index(b, _raises_value_error, "time course: refusal")
    f["timeCourseRefusal"] = _cmp(b[ir].test, "time_points[-1]", prior, "time course refusal")

    def is_filter(s):
        return isinstance(s, ast.If) and "larger :=" in _u(s.test)
    ifl = _index(b, is_filter, "time course: overlap filter")
    t = b[ifl].test
    # not (larger := time_points <op> prior_t_end).all()
    ok = (isinstance(t, ast.UnaryOp) and isinstance(t.op, ast.Not) and isinstance(t.operand, ast.Call)
          and isinstance(t.operand.func, ast.Attribute) and t.operand.func.attr == "all"
          and isinstance(t.operand.func.value, ast.NamedExpr) and _u(t.operand.func.value.target) == "larger")
    if not ok or _u(b[ifl].body[-1]) != "time_points = time_points[larger]":
        raise Unsupported(f"time course: overlap filter `{_u(b[ifl])}`")
    f["timeCourseKeep"] = _cmp(t.operand.func.value.value, "time_points", prior, "time course overlap filter")
    ish = _shift_sub(b, "time_points", "time course")
    ih, f["timeCourseSkipfirst"] = _handle_call(
        b, "self.integrator.integrate_time_course(time_points=time_points)", "time course")
    if not (ip < ir < ifl < ih and ish < ih):
        raise Unsupported("simulate_time_course: statement order")
    if (ir < ish) != (ifl < ish):
        raise Unsupported("simulate_time_course: refusal test and overlap filter on different sides of the shift")
    f["timeCourseChecksBeforeShift"] = ir < ish


def _sec_steady(tree, f):
    b = _body(find_function(tree, "simulate_to_steady_state", "Simulator"))
    if _u(b[0]) != "if len(self._errors) > 0:\n    return self":
        raise Unsupported(f"simulate_to_steady_state: first statement `{_u(b[0])}`")
    _, f["steadySkipfirst"] = _handle_call(b, "self.integrator.integrate_to_steady_state(", "steady state")


def _sec_handle(tree, f):
    fn = find_function(tree, "_handle_simulation_results", "Simulator")
    m = [s for s in _body(fn) if isinstance(s, ast.Match)]
    if len(m) != 1 or len(m[0].cases) != 2:
        raise Unsupported("_handle_simulation_results: match shape")
    ok_case, err_case = m[0].cases
    if _u(ok_case.pattern) != "TimeCourse(time=time, values=results)":
        raise Unsupported(f"_handle_simulation_results: pattern {_u(ok_case.pattern)}")
    ob = [_u(s) for s in ok_case.body]
    need = [
        "if self._time_shift is not None:\n    time += self._time_shift",
        "results_df = pd.DataFrame(data=results, index=time, columns=self.model.get_variable_names())",
        "if self.variables is None:\n    self.variables = [results_df]\nelif skipfirst:\n"
        "    self.variables.append(results_df.iloc[1:, :])\nelse:\n    self.variables.append(results_df)",
        "if self.simulation_parameters is None:\n    self.simulation_parameters = []",
        "self.simulation_parameters.append(self.model.get_parameter_values())",
    ]
    if ob != need:
        diff = next((a for a, c in zip(ob + [""] * 9, need + [""] * 9) if a != c), "")
        raise Unsupported(f"_handle_simulation_results: success branch differs at `{diff[:200]}`")
    if [_u(s) for s in err_case.body] != ["self._errors.append(e)"]:
        raise Unsupported("_handle_simulation_results: failure branch")
    f["handleShape"] = True


def _sec_update_variables(tree, f):
    b = _body(find_function(tree, "update_variables", "Simulator"))
    ub = [_u(s) for s in b]
    pre = [
        "sim_variables = self.variables",
        "if sim_variables is None:\n    self.y0 = self.y0 | variables\n    self._initialise_integrator()\n    return self",
        "t_last = float(sim_variables[-1].index[-1])",
    ]
    post = ["self.y0 = self.y0 | variables", "self._time_shift = t_last", "self._initialise_integrator()", "return self"]
    if ub[:3] != pre or ub[-4:] != post or len(ub) != 8:
        raise Unsupported("update_variables: statement shapes")
    mid = ub[3]
    if mid == "if self._time_shift != t_last:\n    self.y0 = sim_variables[-1].iloc[-1, :].to_dict()":
        f["updVarsKeepsAtSameTime"] = True
    elif mid == "self.y0 = sim_variables[-1].iloc[-1, :].to_dict()":
        f["updVarsKeepsAtSameTime"] = False
    else:
        raise Unsupported(f"update_variables: `{mid}`")


def _sec_clear(tree, f):
    b = [_u(s) for s in _body(find_function(tree, "clear_results", "Simulator"))]
    f["clearResetsShift"] = "self._time_shift = None" in b
    f["clearResetsErrors"] = "self._errors = []" in b
    rest = [s for s in b if s not in ("self._time_shift = None", "self._errors = []")]
    # the statements are independent of each other (attribute resets + a new integrator built from self.y0): any order
    if sorted(rest) != sorted(["self.variables = None", "self.dependent = None", "self.simulation_parameters = None",
                               "self._initialise_integrator()"]):
        raise Unsupported(f"clear_results: {rest}")


def _sec_protocol(tree, f):
    fn = find_function(tree, "simulate_protocol", "Simulator")
    f["defaultTimePointsPerStep"] = int(_default(fn, "time_points_per_step", "simulate_protocol"))
    b = _body(fn)
    loop = [s for s in b if isinstance(s, ast.For)]
    if len(loop) != 1 or _u(loop[0].iter) != "protocol.iterrows()" or _u(loop[0].target) != "(t_end, pars)":
        raise Unsupported("simulate_protocol: loop header")
    lb = [_u(s) for s in loop[0].body]
    if len(lb) != 4 or lb[1] not in UPDATE_ROW:
        raise Unsupported(f"simulate_protocol: loop body {lb}")
    f["protocolSkipsUnnamed"] = UPDATE_ROW[lb[1]]
    if lb != ["t_end = cast(pd.Timedelta, t_end)", lb[1],
              "self.simulate(t_start + t_end.total_seconds(), steps=time_points_per_step)",
              "if self.variables is None:\n    break"]:
        raise Unsupported(f"simulate_protocol: loop body {lb}")
    it = _index(b, lambda s: isinstance(s, ast.Assign) and _u(s.targets[0]) == "t_start", "simulate_protocol: t_start")
    if _u(b[it].value) != PRIOR:
        raise Unsupported("simulate_protocol: t_start")


def _sec_protocol_tc(tree, f):
    fn = find_function(tree, "simulate_protocol_time_course", "Simulator")
    f["defaultRelative"] = bool(_default(fn, "time_points_as_relative", "simulate_protocol_time_course"))
    b = _body(fn)
    it = _index(b, lambda s: isinstance(s, ast.Assign) and _u(s.targets[0]) == "t_start", "protocol tc: t_start")
    if _u(b[it].value) != PRIOR:
        raise Unsupported("simulate_protocol_time_course: t_start")
    for need1 in ("protocol = protocol.copy()",
                  "protocol.index = (cast(pd.TimedeltaIndex, protocol.index) + pd.Timedelta(t_start, unit='s')).total_seconds()",
                  "time_points = np.array(time_points, dtype=float)",
                  "if time_points_as_relative:\n    time_points += t_start",
                  "full_time_points = protocol.index.join(pd.Index(time_points), how='outer')"):
        if need1 not in [_u(s) for s in b]:
            raise Unsupported(f"simulate_protocol_time_course: missing `{need1}`")
    ir = _index(b, _raises_value_error, "protocol tc: refusal")
    f["protocolTCRefusal"] = _cmp(b[ir].test, "time_points[-1]", "t_start", "protocol tc refusal")
    loop = [s for s in b if isinstance(s, ast.For)]
    if len(loop) != 1 or _u(loop[0].iter) != "protocol.iterrows()" or _u(loop[0].target) != "(t_end, pars)":
        raise Unsupported("simulate_protocol_time_course: loop header")
    lb = loop[0].body
    if len(lb) != 4 or _u(lb[0]) not in UPDATE_ROW or _u(lb[2]) != "t_start = t_end" \
            or _u(lb[3]) != "if self.variables is None:\n    break":
        raise Unsupported("simulate_protocol_time_course: loop body")
    f["protocolTCSkipsUnnamed"] = UPDATE_ROW[_u(lb[0])]
    call = lb[1].value if isinstance(lb[1], ast.Expr) else None
    if not (isinstance(call, ast.Call) and _u(call.func) == "self.simulate_time_course"):
        raise Unsupported("simulate_protocol_time_course: simulate_time_course call")
    sel = _kw(call, "time_points", "protocol tc")
    if not (isinstance(sel, ast.Subscript) and _u(sel.value) == "full_time_points" and isinstance(sel.slice, ast.BinOp)
            and isinstance(sel.slice.op, ast.BitAnd)):
        raise Unsupported(f"simulate_protocol_time_course: selection `{_u(sel)}`")
    f["selectLo"] = _cmp(sel.slice.left, "full_time_points", "t_start", "protocol tc selection (lower)")
    f["selectHi"] = _cmp(sel.slice.right, "full_time_points", "t_end", "protocol tc selection (upper)")


def _sec_integrate(tree, f):
    b = [_u(s) for s in _body(find_function(tree, "integrate", "Scipy"))]
    if len(b) != 2 or b[1] != "return self.integrate_time_course(time_points=np.linspace(self.t0, t_end, steps, dtype=float))":
        raise Unsupported(f"Scipy.integrate: {b}")
    st = ast.parse(b[0]).body[0]
    ok = (isinstance(st, ast.Assign) and _u(st.targets[0]) == "steps" and isinstance(st.value, ast.IfExp)
          and _u(st.value.test) == "steps is None" and isinstance(st.value.body, ast.Constant)
          and isinstance(st.value.orelse, ast.BinOp) and isinstance(st.value.orelse.op, ast.Add)
          and _u(st.value.orelse.left) == "steps" and isinstance(st.value.orelse.right, ast.Constant))
    if not ok:
        raise Unsupported(f"Scipy.integrate: `{b[0]}`")
    f["defaultPoints"] = int(st.value.body.value)
    f["stepsPlus"] = int(st.value.orelse.right.value)


def _sec_integrate_tc(tree, f):
    b = _body(find_function(tree, "integrate_time_course", "Scipy"))
    if not (isinstance(b[0], ast.If) and not b[0].orelse
            and [_u(s) for s in b[0].body] == ["time_points = np.insert(time_points, 0, self.t0)"]):
        raise Unsupported("Scipy.integrate_time_course: prepend statement")
    f["prependCmp"] = _cmp(b[0].test, "time_points[0]", "self.t0", "integrate_time_course prepend")
    last_if = [s for s in b if isinstance(s, ast.If) and _u(s.test) == "res.success"]
    if len(last_if) != 1:
        raise Unsupported("Scipy.integrate_time_course: `if res.success`")
    sb = [_u(s) for s in last_if[0].body]
    if sb != ["t = np.atleast_1d(np.array(res.t, dtype=float))", "y = np.atleast_2d(np.array(res.y, dtype=float).T)",
              "self.t0 = t[-1]", "self.y0 = y[-1]", "return Result(TimeCourse(time=t, values=y))"]:
        raise Unsupported(f"Scipy.integrate_time_course: success branch {sb}")
    solve = [s for s in b if isinstance(s, ast.Assign) and _u(s.targets[0]) == "res"]
    if len(solve) != 1 or not isinstance(solve[0].value, ast.Call) or _u(solve[0].value.func) != "spi.solve_ivp":
        raise Unsupported("Scipy.integrate_time_course: solve_ivp call")
    kws = {k.arg: _u(k.value) for k in solve[0].value.keywords}
    if kws.get("y0") != "self.y0" or kws.get("t_span") != "(time_points[0], time_points[-1])" or kws.get("t_eval") != "time_points":
        raise Unsupported(f"Scipy.integrate_time_course: solve_ivp arguments {kws}")


def _sec_reset(tree, f):
    b = [_u(s) for s in _body(find_function(tree, "reset", "Scipy"))]
    if b != ["self.t0 = 0", "self.y0 = self._y0_orig"]:
        raise Unsupported(f"Scipy.reset: {b}")


def _sec_steady_search(tree, f):
    fn = find_function(tree, "integrate_to_steady_state", "Scipy")
    f["stepSize"] = int(_default(fn, "step_size", "integrate_to_steady_state"))
    f["maxSteps"] = int(_default(fn, "max_steps", "integrate_to_steady_state"))
    b = _body(fn)
    ub = [_u(s) for s in b]
    loops = [s for s in b if isinstance(s, ast.For)]
    if len(loops) != 1 or b[-2] is not loops[0] or ub[-1] != "return Result(NoSteadyState())":
        raise Unsupported("integrate_to_steady_state: one loop followed by the NoSteadyState return expected")
    if _u(loops[0].iter) != "range(max_steps)":
        raise Unsupported("integrate_to_steady_state: loop header")
    pre = ub[:-2]
    f["steadyResets"] = "self.reset()" in pre
    if "integ.set_initial_value(self.y0, self.t0)" in pre:
        f["steadyStartsAtT0"] = True
    elif "integ.set_initial_value(self.y0)" in pre:
        f["steadyStartsAtT0"] = False
    else:
        raise Unsupported("integrate_to_steady_state: set_initial_value")
    if "t = self.t0 + step_size" not in pre:
        raise Unsupported("integrate_to_steady_state: `t = self.t0 + step_size`")
    known = {"self.reset()", "integ.set_initial_value(self.y0, self.t0)", "integ.set_initial_value(self.y0)",
             "t = self.t0 + step_size", "y1 = copy.deepcopy(self.y0)", "integ.set_integrator(name=self.method)",
             "integ = spi.ode(lambda t, x: list(self.rhs(t, x)), jac=self.jacobian)"}
    extra = [s for s in pre if s not in known]
    if extra:
        raise Unsupported(f"integrate_to_steady_state: statements before the loop: {extra}")
    lb = list(loops[0].body)
    # since the repair of F-C15-3 the loop may ask `integ.successful()` after the step and return IntegrationFailure: for
    # the time bookkeeping that is one more way to fail (nothing recorded, simulator failed), like NoSteadyState
    if len(lb) == 6 and _u(lb[1]) == "if not integ.successful():\n    return Result(IntegrationFailure())":
        del lb[1]
    if len(lb) != 5 or _u(lb[4]) != "t += step_size" or not _u(lb[0]).startswith("y2 = "):
        raise Unsupported("integrate_to_steady_state: loop body")
    hit = lb[2]
    if not (isinstance(hit, ast.If) and not hit.orelse and _u(hit.test) == "np.linalg.norm(diff, ord=2) < tolerance"):
        raise Unsupported("integrate_to_steady_state: convergence test")
    hb = [_u(s) for s in hit.body]
    ret = "return Result(TimeCourse(time=np.array([t], dtype=float), values=np.array([y2], dtype=float)))"
    if hb[-1] != ret:
        raise Unsupported(f"integrate_to_steady_state: success return `{hb[-1]}`")
    adv = hb[:-1]
    if adv == []:
        f["steadyAdvances"] = False
    elif len(adv) == 2 and adv[0] == "self.t0 = t" and adv[1] in ("self.y0 = y2.copy()", "self.y0 = np.array(y2)",
                                                                  "self.y0 = np.copy(y2)", "self.y0 = y2"):
        f["steadyAdvances"] = True
    else:
        raise Unsupported(f"integrate_to_steady_state: success branch {adv}")


SIM_SECTIONS = [_sec_simulate, _sec_time_course, _sec_steady, _sec_handle, _sec_update_variables, _sec_clear,
                _sec_protocol, _sec_protocol_tc]
SCIPY_SECTIONS = [_sec_integrate, _sec_integrate_tc, _sec_reset, _sec_steady_search]

# the values Model/C04.lean, Model/C14.lean and their lemmas were written against.  A section of the source that has
# left the supported shapes keeps these values *and* is listed in `Gen.unsupported` (Lemmas/C04.lean proves that list
# empty, so every theorem stops checking); the executable model then still runs as the code it was written against
# and the failing-input search compares the real code with it.
EXPECTED = {
    "simulateRefusal": "le", "timeCourseRefusal": "le", "timeCourseKeep": "ge", "prependCmp": "ne",
    "protocolTCRefusal": "le", "selectLo": "gt", "selectHi": "le",
    "simulateSkipfirst": True, "timeCourseSkipfirst": True, "steadySkipfirst": False,
    "simulateChecksBeforeShift": True, "timeCourseChecksBeforeShift": True, "handleShape": True,
    "updVarsKeepsAtSameTime": True, "clearResetsShift": True, "clearResetsErrors": True, "defaultRelative": False,
    "steadyResets": False, "steadyStartsAtT0": True, "steadyAdvances": True,
    "protocolSkipsUnnamed": True, "protocolTCSkipsUnnamed": True,
    "defaultPoints": 100, "stepsPlus": 1, "stepSize": 100, "maxSteps": 1000, "defaultTimePointsPerStep": 10,
}


def _run_sections(src: str, sections, f: dict, errors: list[str]) -> None:
    try:
        tree = ast.parse(src)
    except SyntaxError as e:
        errors.append(f"syntax error: {e}")
        return
    for sec in sections:
        g: dict = {}
        try:
            sec(tree, g)
            f.update(g)
        except Unsupported as e:
            errors.append(str(e))
        except Exception as e:  # noqa: BLE001  (an index error on an unexpected statement list, ...)
            errors.append(f"{sec.__name__}: {e!r}")


CMP_DECL = """/-- a comparison operator as written in the source -/
inductive Cmp where
  | lt | le | gt | ge | eq | ne | unsupported
deriving DecidableEq, Repr

def Cmp.eval : Cmp → Rat → Rat → Bool
  | .lt, a, b => decide (a < b)
  | .le, a, b => decide (a ≤ b)
  | .gt, a, b => decide (b < a)
  | .ge, a, b => decide (b ≤ a)
  | .eq, a, b => a == b
  | .ne, a, b => a != b
  | .unsupported, _, _ => false
"""

CMPS = ["simulateRefusal", "timeCourseRefusal", "timeCourseKeep", "prependCmp", "protocolTCRefusal", "selectLo", "selectHi"]
BOOLS = ["simulateSkipfirst", "timeCourseSkipfirst", "steadySkipfirst", "simulateChecksBeforeShift",
         "timeCourseChecksBeforeShift", "handleShape", "updVarsKeepsAtSameTime", "clearResetsShift", "clearResetsErrors",
         "defaultRelative", "steadyResets", "steadyStartsAtT0", "steadyAdvances", "protocolSkipsUnnamed",
         "protocolTCSkipsUnnamed"]
NATS = ["defaultPoints", "stepsPlus", "stepSize", "maxSteps", "defaultTimePointsPerStep"]

DOC = {
    "simulateRefusal": "simulate: `if t_end <op> prior_t_end: raise ValueError`",
    "timeCourseRefusal": "simulate_time_course: `if time_points[-1] <op> prior_t_end: raise ValueError`",
    "timeCourseKeep": "simulate_time_course: `larger := time_points <op> prior_t_end` (the points kept)",
    "prependCmp": "Scipy.integrate_time_course: `if time_points[0] <op> self.t0: insert t0`",
    "protocolTCRefusal": "simulate_protocol_time_course: `if time_points[-1] <op> t_start: raise ValueError`",
    "selectLo": "simulate_protocol_time_course: `full_time_points <op> t_start` (lower end of a step's selection)",
    "selectHi": "simulate_protocol_time_course: `full_time_points <op> t_end` (upper end of a step's selection)",
    "simulateSkipfirst": "simulate: `_handle_simulation_results(..., skipfirst=…)`",
    "timeCourseSkipfirst": "simulate_time_course: `skipfirst=…`",
    "steadySkipfirst": "simulate_to_steady_state: `skipfirst=…`",
    "simulateChecksBeforeShift": "simulate: the refusal test precedes `t_end -= _time_shift`",
    "timeCourseChecksBeforeShift": "simulate_time_course: refusal test and overlap filter precede `time_points -= _time_shift`",
    "handleShape": "_handle_simulation_results has the modelled shape (shift added back, first frame whole, later `iloc[1:]` iff skipfirst, parameters appended)",
    "updVarsKeepsAtSameTime": "update_variables re-reads the last row only `if self._time_shift != t_last`",
    "clearResetsShift": "clear_results: `self._time_shift = None`",
    "clearResetsErrors": "clear_results: `self._errors = []`",
    "defaultRelative": "simulate_protocol_time_course: default of `time_points_as_relative`",
    "steadyResets": "Scipy.integrate_to_steady_state calls `self.reset()` first",
    "steadyStartsAtT0": "… starts the ode object at `self.t0` (`set_initial_value(self.y0, self.t0)`)",
    "steadyAdvances": "… sets `self.t0 = t; self.y0 = y2` on success",
    "protocolSkipsUnnamed": "simulate_protocol applies `pars.dropna().to_dict()`: a step only sets the parameters it names",
    "protocolTCSkipsUnnamed": "simulate_protocol_time_course applies `pars.dropna().to_dict()`",
    "defaultPoints": "Scipy.integrate: `steps = <this> if steps is None else steps + …`",
    "stepsPlus": "Scipy.integrate: `… else steps + <this>`",
    "stepSize": "Scipy.integrate_to_steady_state: default `step_size`",
    "maxSteps": "Scipy.integrate_to_steady_state: default `max_steps`",
    "defaultTimePointsPerStep": "simulate_protocol: default `time_points_per_step`",
}


def render(f: dict, errors: list[str]) -> str:
    out = ["-- GENERATED by translate/c04.py from src/mxlpy/simulator.py and src/mxlpy/integrators/int_scipy.py; do not edit",
           "namespace Mxl.C04.Gen", CMP_DECL]
    esc = [e[:300].replace("\\", "/").replace('"', "'").replace("\n", " ") for e in errors]
    out.append("/-- sections of the source that have left the shapes translate/c04.py reads (their facts below keep the\n"
               "    values the model was written against); `Lemmas/C04.lean` proves this list empty -/")
    out.append("def unsupported : List String := [" + ", ".join(f'"{e}"' for e in esc) + "]")
    for k in CMPS:
        out.append(f"/-- {DOC[k]} -/\ndef {k} : Cmp := .{f.get(k, EXPECTED[k])}")
    for k in BOOLS:
        v = f.get(k, EXPECTED[k])
        out.append(f"/-- {DOC[k]} -/\ndef {k} : Bool := {'true' if v else 'false'}")
    for k in NATS:
        out.append(f"/-- {DOC[k]} -/\ndef {k} : Nat := {f.get(k, EXPECTED[k])}")
    out.append("end Mxl.C04.Gen\n")
    return "\n".join(out)


def facts(repo: Path) -> tuple[dict, list[str]]:
    f: dict = {}
    errors: list[str] = []
    _run_sections((Path(repo) / "src" / "mxlpy" / "simulator.py").read_text(), SIM_SECTIONS, f, errors)
    _run_sections((Path(repo) / "src" / "mxlpy" / "integrators" / "int_scipy.py").read_text(), SCIPY_SECTIONS, f, errors)
    return f, errors


def generate(repo: Path, outdir: Path) -> bool:
    out = Path(outdir) / "C04Facts.lean"
    f, errors = facts(Path(repo))
    changed = write_if_changed(out, render(f, errors))
    if errors:
        raise Unsupported("; ".join(errors))
    return changed


if __name__ == "__main__":
    import os
    root = Path(__file__).resolve().parent.parent
    try:
        generate(Path(os.environ.get("MXLPY_REPO", "/repo")), root / "lean" / "MxlVerif" / "MxlVerif" / "Generated")
    finally:
        print((root / "lean/MxlVerif/MxlVerif/Generated/C04Facts.lean").read_text())
