"""translate/c17.py — reads the identifier mapping with `ast` from BOTH copies of the source

  * pysbml/parse/name_conversion.py (site-packages of /venv: the function `sbml.read` actually uses), and
  * src/mxlpy/sbml/_name_conversion.py of the repo under test (a dead copy inside mxlpy),

and writes lean/MxlVerif/MxlVerif/Generated/C17Names.lean:

  replaceChain      the `.replace(a, b)` chain of name_to_py, in order, as (String × String) pairs
  sbmlDot           the constant SBML_DOT
  escapeRegex       the pattern of RE_FROM_SBML
  kwlist            `keyword.kwlist` of the interpreter that runs the import (/venv/bin/python); RE_KWDS must be
                    "|".join(f"^{i}$" for i in keyword.kwlist)
  keywordSuffix     what _escape_keyword appends to the whole match
  escapeIsChr       _ascii_to_character is chr(int(group(1)))
  stepOrder         order of the statements of name_to_py
  leadingPrefix     what is put in front of a name whose first character is not alphabetic
  mxlpyCopy*        the same facts for the copy inside mxlpy (no empty-name guard there)

Anything outside the shapes recognised here raises Unsupported: the run then reports the proof side as broken
instead of keeping a stale table.
"""
from __future__ import annotations

import ast
import hashlib
import json
import os
import subprocess
import sys
from pathlib import Path

VENV_PY = "/venv/bin/python"


class Unsupported(Exception):
    pass


def _pysbml_source() -> Path:
    for base in sys.path:
        p = Path(base) / "pysbml" / "parse" / "name_conversion.py"
        if p.exists():
            return p
    for p in Path("/venv/lib").glob("python*/site-packages/pysbml/parse/name_conversion.py"):
        return p
    raise Unsupported("pysbml/parse/name_conversion.py not found")


def _kwlist() -> list[str]:
    if os.path.exists(VENV_PY) and os.path.realpath(sys.executable) != os.path.realpath(VENV_PY):
        out = subprocess.run([VENV_PY, "-c", "import keyword, json; print(json.dumps(keyword.kwlist))"],
                             capture_output=True, text=True, check=True).stdout
        return json.loads(out.strip().splitlines()[-1])
    import keyword

    return list(keyword.kwlist)


def _str(node, consts) -> str:
    if isinstance(node, ast.Constant) and isinstance(node.value, str):
        return node.value
    if isinstance(node, ast.Name) and node.id in consts:
        return consts[node.id]
    raise Unsupported(f"not a string constant: {ast.dump(node)[:80]}")


def _is_kw_regex(node) -> bool:
    """re.compile("|".join(f"^{i}$" for i in keyword.kwlist))"""
    want = 're.compile("|".join((f"^{i}$" for i in keyword.kwlist)))'
    try:
        return ast.unparse(ast.parse(want, mode="eval").body) == ast.unparse(node)
    except Exception:  # noqa: BLE001
        return False


def facts(path: Path, fn_names: tuple[str, ...]) -> dict:
    tree = ast.parse(path.read_text())
    consts: dict[str, str] = {}
    regexes: dict[str, str] = {}
    kw_regex = None
    funcs = {}
    for node in tree.body:
        if isinstance(node, ast.Assign) and len(node.targets) == 1 and isinstance(node.targets[0], ast.Name):
            name, v = node.targets[0].id, node.value
            if isinstance(v, ast.Constant) and isinstance(v.value, str):
                consts[name] = v.value
            elif _is_kw_regex(v):
                kw_regex = name
            elif (isinstance(v, ast.Call) and ast.unparse(v.func) == "re.compile" and len(v.args) == 1 and not v.keywords
                  and isinstance(v.args[0], ast.Constant) and isinstance(v.args[0].value, str)):
                regexes[name] = v.args[0].value
            elif name != "__all__":
                raise Unsupported(f"{path.name}: module-level assignment {name} not recognised")
        elif isinstance(node, ast.FunctionDef):
            funcs[node.name] = node
    if kw_regex is None:
        raise Unsupported(f"{path.name}: no keyword regex of the expected form")
    fn = next((funcs[n] for n in fn_names if n in funcs), None)
    if fn is None:
        raise Unsupported(f"{path.name}: none of {fn_names} defined")
    arg = fn.args.args[0].arg

    def helper(name, want_body):
        f = funcs.get(name)
        if f is None:
            raise Unsupported(f"{path.name}: helper {name} missing")
        body = [s for s in f.body if not (isinstance(s, ast.Expr) and isinstance(s.value, ast.Constant))]
        if len(body) != 1 or not isinstance(body[0], ast.Return):
            raise Unsupported(f"{path.name}: {name} is not a single return")
        p = f.args.args[0].arg
        return ast.unparse(body[0].value) == want_body.replace("M", p), body[0].value

    steps, chain, kw_suffix, esc_chr, prefix = [], None, None, None, None
    for st in fn.body:
        if isinstance(st, ast.Expr) and isinstance(st.value, ast.Constant):
            continue  # docstring
        src = ast.unparse(st)
        if isinstance(st, ast.Assign) and src.startswith(f"{arg} = ") and isinstance(st.value, ast.Call):
            call = st.value
            f = ast.unparse(call.func)
            if f.endswith(".sub") and len(call.args) == 2 and ast.unparse(call.args[1]) == arg:
                rx, h = f[:-4], ast.unparse(call.args[0])
                if rx == kw_regex:
                    ok, ret = helper(h, "f'{M.group(0)}_'")
                    if not (isinstance(ret, ast.JoinedStr) and len(ret.values) == 2 and isinstance(ret.values[1], ast.Constant)
                            and ast.unparse(ret.values[0]) .find(".group(0)") >= 0):
                        raise Unsupported(f"{path.name}: {h} is not f'{{match.group(0)}}<suffix>'")
                    kw_suffix = ret.values[1].value
                    steps.append("keywords")
                elif rx in regexes:
                    ok, _ = helper(h, "chr(int(M.group(1)))")
                    if not ok:
                        raise Unsupported(f"{path.name}: {h} is not chr(int(match.group(1)))")
                    esc_chr = (regexes[rx], True)
                    steps.append("unescape")
                else:
                    raise Unsupported(f"{path.name}: substitution with unknown regex {rx}")
                continue
            # the .replace chain
            pairs, node = [], call
            while isinstance(node, ast.Call) and isinstance(node.func, ast.Attribute) and node.func.attr == "replace":
                if len(node.args) != 2 or node.keywords:
                    raise Unsupported(f"{path.name}: replace with unexpected arguments")
                pairs.append((_str(node.args[0], consts), _str(node.args[1], consts)))
                node = node.func.value
            if not (isinstance(node, ast.Name) and node.id == arg) or not pairs or chain is not None:
                raise Unsupported(f"{path.name}: statement not recognised: {src[:80]}")
            chain = pairs[::-1]
            steps.append("replace")
            continue
        if isinstance(st, ast.If) and not st.orelse and len(st.body) == 1 and isinstance(st.body[0], ast.Return):
            test, ret = ast.unparse(st.test), st.body[0].value
            if test == f"len({arg}) == 0" and ast.unparse(ret) == arg:
                steps.append("empty")
                continue
            if test == f"not {arg}[0].isalpha()" and isinstance(ret, ast.JoinedStr) and len(ret.values) == 2 \
                    and isinstance(ret.values[0], ast.Constant) and ast.unparse(ret.values[1].value) == arg:
                prefix = ret.values[0].value
                steps.append("leading")
                continue
        if isinstance(st, ast.Return) and ast.unparse(st.value) == arg:
            steps.append("return")
            continue
        raise Unsupported(f"{path.name}: statement of {fn.name} not recognised: {src[:80]}")
    if chain is None or kw_suffix is None or esc_chr is None or prefix is None or steps[-1] != "return":
        raise Unsupported(f"{path.name}: {fn.name} lacks one of the expected steps ({steps})")
    if "SBML_DOT" not in consts:
        raise Unsupported(f"{path.name}: SBML_DOT missing")
    return {"chain": chain, "sbml_dot": consts["SBML_DOT"], "escape_regex": esc_chr[0], "kw_suffix": kw_suffix,
            "prefix": prefix, "steps": steps[:-1]}


def _s(x: str) -> str:
    out = []
    for ch in x:
        if ch == "\\":
            out.append("\\\\")
        elif ch == '"':
            out.append('\\"')
        elif 32 <= ord(ch) < 127:
            out.append(ch)
        else:
            raise Unsupported(f"character {ch!r} in a table")
    return '"' + "".join(out) + '"'


def _lst(xs, f) -> str:
    return "[" + ", ".join(f(x) for x in xs) + "]"


def render(repo: Path) -> str:
    py = facts(_pysbml_source(), ("name_to_py",))
    mx = facts(Path(repo) / "src" / "mxlpy" / "sbml" / "_name_conversion.py", ("_name_to_py", "name_to_py"))
    kws = _kwlist()

    def pair(ab):
        return f"({_s(ab[0])}, {_s(ab[1])})"

    return f"""-- GENERATED by /verif/translate/c17.py from pysbml/parse/name_conversion.py and src/mxlpy/sbml/_name_conversion.py; do not edit
namespace Mxl.C17.Gen

def replaceChain : List (String × String) := {_lst(py["chain"], pair)}
def sbmlDot : String := {_s(py["sbml_dot"])}
def escapeRegex : String := {_s(py["escape_regex"])}
def kwlist : List String := {_lst(kws, _s)}
def keywordSuffix : String := {_s(py["kw_suffix"])}
def escapeIsChr : Bool := true
def leadingPrefix : String := {_s(py["prefix"])}
def stepOrder : List String := {_lst(py["steps"], _s)}

def mxlpyCopyChain : List (String × String) := {_lst(mx["chain"], pair)}
def mxlpyCopySbmlDot : String := {_s(mx["sbml_dot"])}
def mxlpyCopyEscapeRegex : String := {_s(mx["escape_regex"])}
def mxlpyCopyKeywordSuffix : String := {_s(mx["kw_suffix"])}
def mxlpyCopyLeadingPrefix : String := {_s(mx["prefix"])}
def mxlpyCopyStepOrder : List String := {_lst(mx["steps"], _s)}

end Mxl.C17.Gen
"""


# ------------------------------------------------------------------------------------------------ session effects of read()


def _import_path(repo: Path) -> Path:
    return Path(repo) / "src" / "mxlpy" / "sbml" / "_import.py"


def session_facts(repo: Path) -> dict:
    """Every effect of `_import.py` on state that outlives one call of `read`, or Unsupported.

    allowed:  module level: docstring, imports, `__all__ = [...]`, `if TYPE_CHECKING:` imports, function definitions
              functions:    no decorators, no `global` / `nonlocal`, no mutable default argument;
                            stores only to local names and to attributes / items of objects created in the same function
                            (`sym = SymbolicRepr()`), plus the two recognised effects:
                              `sys.modules[module_name] = module`        in import_from_path
                              `path.open("w+")` + `f.write(...)`          in _codegen, path = default_tmp_dir(...) / f"{name}.py"
    read():   digest = hashlib.sha256(file.read_bytes()).hexdigest()[:N];  out_name = f"{valid_filename(file.stem)}_{digest}"
              model_fn = import_from_path(out_name, _codegen(out_name, model));  return model_fn()
    """
    tree = ast.parse(_import_path(repo).read_text())
    effects: list[str] = []
    fns: dict[str, ast.FunctionDef] = {}
    for st in tree.body:
        if isinstance(st, ast.Expr) and isinstance(st.value, ast.Constant):
            continue
        if isinstance(st, (ast.Import, ast.ImportFrom)):
            continue
        if isinstance(st, ast.Assign) and len(st.targets) == 1 and isinstance(st.targets[0], ast.Name) \
                and st.targets[0].id == "__all__":
            continue
        if isinstance(st, ast.If) and ast.unparse(st.test) == "TYPE_CHECKING" \
                and all(isinstance(x, (ast.Import, ast.ImportFrom)) for x in st.body) and not st.orelse:
            continue
        if isinstance(st, ast.FunctionDef):
            fns[st.name] = st
            continue
        raise Unsupported(f"_import.py: module-level statement that may hold state: {ast.unparse(st)[:80]}")
    for name, fn in fns.items():
        if fn.decorator_list:
            raise Unsupported(f"_import.py: {name} has a decorator (memoisation?)")
        for d in fn.args.defaults + [d for d in fn.args.kw_defaults if d is not None]:
            if not isinstance(d, ast.Constant):
                raise Unsupported(f"_import.py: {name} has a non-constant default argument")
        local_objs: set[str] = set()
        for n in ast.walk(fn):
            if isinstance(n, (ast.Global, ast.Nonlocal)):
                raise Unsupported(f"_import.py: {name} declares {ast.unparse(n)}")
            if isinstance(n, (ast.FunctionDef, ast.Lambda, ast.ClassDef)) and n is not fn:
                raise Unsupported(f"_import.py: {name} defines a nested function / class")
            fresh = (ast.Call, ast.Dict, ast.List, ast.Set, ast.DictComp, ast.ListComp, ast.SetComp)
            if isinstance(n, ast.Assign) and isinstance(n.value, fresh) and all(isinstance(t, ast.Name) for t in n.targets):
                local_objs.update(t.id for t in n.targets)       # an object created in this function
            if isinstance(n, ast.AnnAssign) and isinstance(n.target, ast.Name) and isinstance(n.value, fresh):
                local_objs.add(n.target.id)
        for n in ast.walk(fn):
            targets = []
            if isinstance(n, ast.Assign):
                targets = n.targets
            elif isinstance(n, (ast.AugAssign, ast.AnnAssign)):
                targets = [n.target]
            elif isinstance(n, ast.Delete):
                targets = n.targets
            for t in targets:
                if isinstance(t, ast.Name):
                    continue
                root = t
                while isinstance(root, (ast.Attribute, ast.Subscript)):
                    root = root.value
                txt = ast.unparse(t)
                if name == "import_from_path" and txt == "sys.modules[module_name]" and ast.unparse(n.value) == "module":
                    effects.append(".sysModules")
                    continue
                if isinstance(root, ast.Name) and root.id in local_objs and root.id == "sym":
                    continue
                raise Unsupported(f"_import.py: {name} stores to a non-local object: {txt}")
            if isinstance(n, ast.Call) and isinstance(n.func, ast.Attribute):
                a = n.func.attr
                if a in ("open", "write_text", "write_bytes", "unlink", "mkdir", "rename", "replace", "touch"):
                    if name == "_codegen" and a == "open" and ast.unparse(n.func.value) == "path":
                        effects.append(".file")
                        continue
                    raise Unsupported(f"_import.py: {name} touches the file system: {ast.unparse(n)[:80]}")
                if a in ("setdefault", "update", "append", "add", "pop", "clear", "extend", "insert", "remove"):
                    r = n.func.value
                    while isinstance(r, (ast.Attribute, ast.Subscript, ast.Call)):
                        r = r.func.value if isinstance(r, ast.Call) and isinstance(r.func, ast.Attribute) else (
                            r.value if not isinstance(r, ast.Call) else ast.Constant(None))
                    if not (isinstance(r, ast.Name) and r.id in local_objs):
                        raise Unsupported(f"_import.py: {name} mutates a non-local container: {ast.unparse(n)[:80]}")
    for need in ("read", "_codegen", "import_from_path", "valid_filename"):  # (_check_unique_names is optional)
        if need not in fns:
            raise Unsupported(f"_import.py: function {need} not found")
    cg = ast.unparse(fns["_codegen"])
    if "path = default_tmp_dir(None, remove_old_cache=False) / f'{name}.py'" not in cg or "f.write(generate_mxlpy_code_from_symbolic_repr(sym" not in cg:
        raise Unsupported("_codegen: the file written is not <tmp dir>/<name>.py with the generated code")
    body = [st for st in fns["read"].body if not (isinstance(st, ast.Expr) and isinstance(st.value, ast.Constant))]
    src = [ast.unparse(st) for st in body]
    if src and src[0] == "_check_unique_names(file)":   # a pure check (raises or returns None) before parsing
        body, src = body[1:], src[1:]
    if len(src) != 5 or src[0] != "model = pysbml.load_and_transform_model(file)" \
            or src[3] != "model_fn = import_from_path(out_name, _codegen(out_name, model))" or src[4] != "return model_fn()":
        raise Unsupported("read: statements not recognised:\n" + "\n".join(src))
    dg = body[1]
    if not (isinstance(dg, ast.Assign) and isinstance(dg.targets[0], ast.Name) and isinstance(dg.value, ast.Subscript)
            and ast.unparse(dg.value.value) == "hashlib.sha256(file.read_bytes()).hexdigest()"
            and isinstance(dg.value.slice, ast.Slice) and dg.value.slice.lower is None and dg.value.slice.step is None
            and isinstance(dg.value.slice.upper, ast.Constant) and isinstance(dg.value.slice.upper.value, int)):
        raise Unsupported(f"read: digest is not sha256(file bytes).hexdigest()[:N]: {src[1]}")
    nm = body[2]
    if not (isinstance(nm, ast.Assign) and ast.unparse(nm.targets[0]) == "out_name" and isinstance(nm.value, ast.JoinedStr)):
        raise Unsupported(f"read: out_name is not an f-string: {src[2]}")
    parts = []
    for v in nm.value.values:
        if isinstance(v, ast.Constant):
            parts.append(f'.lit "{v.value}"')
        elif isinstance(v, ast.FormattedValue) and ast.unparse(v.value) == "valid_filename(file.stem)":
            parts.append(".validFilename")
        elif isinstance(v, ast.FormattedValue) and ast.unparse(v.value) == dg.targets[0].id:
            parts.append(".digest")
        else:
            raise Unsupported(f"read: piece of out_name: {ast.unparse(v)}")
    vf = ast.unparse(fns["valid_filename"].body[-1])
    if vf != "return f'mb_{value}'":
        raise Unsupported(f"valid_filename: {vf}")
    return {"digest_len": dg.value.slice.upper.value, "parts": parts, "effects": sorted(set(effects))}


def render_session(repo: Path) -> str:
    f = session_facts(repo)
    return f"""-- GENERATED by /verif/translate/c17.py from src/mxlpy/sbml/_import.py; do not edit
namespace Mxl.C17.GenSession

inductive NamePart where | validFilename | lit (s : String) | digest
deriving Repr, DecidableEq

/-- state outliving a call of `read` that `_import.py` writes -/
inductive Effect where | file | sysModules
deriving Repr, DecidableEq

def digestLen : Nat := {f['digest_len']}
def moduleNameParts : List NamePart := [{', '.join(f['parts'])}]
def sessionEffects : List Effect := [{', '.join(f['effects'])}]

end Mxl.C17.GenSession
"""


def generate(repo: Path, outdir: Path) -> None:
    text = render(Path(repo))
    outdir.mkdir(parents=True, exist_ok=True)
    p = outdir / "C17Names.lean"
    if not (p.exists() and hashlib.sha1(p.read_bytes()).digest() == hashlib.sha1(text.encode()).digest()):
        p.write_text(text)
    text = render_session(Path(repo))
    p = outdir / "C17Session.lean"
    if not (p.exists() and hashlib.sha1(p.read_bytes()).digest() == hashlib.sha1(text.encode()).digest()):
        p.write_text(text)


if __name__ == "__main__":
    print(render(Path(sys.argv[1] if len(sys.argv) > 1 else "/repo")))
    print(render_session(Path(sys.argv[1] if len(sys.argv) > 1 else "/repo")))
