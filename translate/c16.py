"""translate/c16.py — reads src/mxlpy/linear_label_map.py and writes Generated/C16Facts.lean.

Same scheme as translate/c05.py: every function the Lean model `Model/C16.lean` mirrors must have exactly one
of the statement shapes below (after `ast.unparse`, docstrings removed), no decorators; `LinearLabelMapper`
must be a `dataclass(slots=True)` with exactly the three public fields (a further field is state that survives
between builds).  Regenerated facts: the placeholder of the external pool, the separator of position names,
the default of `external_label`, and which helper `build_model` uses to read a label map
(`documentedDirection`: product position i is built from substrate position labelmap[i], as in
`label_map._map_substrates_to_products`).  Anything else raises `Unsupported`.
"""
from __future__ import annotations

import ast
from pathlib import Path

from .c05 import check_dataclass, check_functions, functions_of, lean_str
from .common import Unsupported, write_if_changed

SRC = "src/mxlpy/linear_label_map.py"

BUILD_HEAD = """isotopomers = {name: _generate_isotope_labels(name, num) for name, num in self.label_variables.items()}
variables = {k: 0.0 for iso in isotopomers.values() for k in iso}
if initial_labels is not None:
    for base_compound, label_positions in initial_labels.items():
        if isinstance(label_positions, int):
            label_positions = [label_positions]
        for pos in label_positions:
            variables[f'{base_compound}__{pos}'] = 1 / len(label_positions)
m = Model()
m.add_variables(variables)
m.add_parameters(concs.to_dict() | fluxes.to_dict() | {«ext»: external_label})
rxns = self.model.get_raw_reactions()
for rxn_name, label_map in self.label_maps.items():
    rxn = rxns[rxn_name]
    subs, prods = _unpack_stoichiometries(rxn.stoichiometry)
    subs = _stoichiometry_to_duplicate_list(subs)
    prods = _stoichiometry_to_duplicate_list(prods)
    subs = [j for i in subs for j in isotopomers[i]]
    prods = [j for i in prods for j in isotopomers[i]]
    subs, prods = _add_label_influx_or_efflux(subs, prods, label_map)
"""
BUILD_TAIL = """    for i, (substrate, product) in enumerate(zip(subs, prods, strict=True)):
        if substrate == product:
            continue
        stoichiometry = {}
        if substrate != «ext»:
            stoichiometry[substrate] = Derived(fn=_neg_one_div, args=[substrate.split(«sep»)[0]])
        if product != «ext»:
            stoichiometry[product] = Derived(fn=_one_div, args=[product.split(«sep»)[0]])
        m.add_reaction(name=f'{rxn_name}__{i}', fn=_relative_label_flux, stoichiometry=stoichiometry, args=[substrate, rxn_name])
return m"""

HELPERS = {
    "_generate_isotope_labels": ("base_name: str, num_labels: int", [
        "if num_labels > 0:\n    return [f'{base_name}__{i}' for i in range(num_labels)]\n"
        "msg = f'Compound {base_name} must have labels'\nraise ValueError(msg)"]),
    "_unpack_stoichiometries": ("stoichiometries: Mapping[str, float | Derived]", [
        # after "fix: LinearLabelMapper refuses a fractional stoichiometric coefficient ...": int() first, fractional refused
        "substrates = {}\nproducts = {}\nfor k, v in stoichiometries.items():\n    if isinstance(v, Derived):\n"
        "        raise NotImplementedError\n    n = int(v)\n    if n != v:\n"
        "        msg = f'Stoichiometric coefficient of {k} must be a whole number, got {v}'\n"
        "        raise ValueError(msg)\n    if n < 0:\n        substrates[k] = -n\n    else:\n"
        "        products[k] = n\nreturn (substrates, products)"]),
    "_stoichiometry_to_duplicate_list": ("stoichiometry: dict[str, int]", [
        "long_form: list[str] = []\nfor k, v in stoichiometry.items():\n    long_form.extend([k] * v)\nreturn long_form"]),
    "_add_label_influx_or_efflux": ("substrates: list[str], products: list[str], labelmap: list[int]", [
        "if (diff := (len(substrates) - len(products))) > 0:\n    products.extend([«ext»] * diff)\n"
        "if (diff := (len(products) - len(substrates))) > 0:\n    substrates.extend([«ext»] * diff)\n"
        "if (diff := (len(labelmap) - len(substrates))) < 0:\n"
        "    msg = f\"Labelmap 'missing' {abs(diff)} label(s)\"\n    raise ValueError(msg)\n"
        "return (substrates, products)"]),
    "_relative_label_flux": ("label_percentage: float, v_ss: float", ["return label_percentage * v_ss"]),
    "_one_div": ("y: float", ["return 1 / y"]),
    "_neg_one_div": ("y: float", ["return -1 / y"]),
}
# the two ways `build_model` may read a map, each with the helper it calls
DOCUMENTED = {"_map_labelmap_to_substrates": ("substrates: list[str], labelmap: list[int]", [
    "return [substrates[pos] for _, pos in zip(substrates, labelmap, strict=True)]"])}
INVERSE = {"_map_substrates_to_labelmap": ("substrates: list[str], labelmap: list[int]", [
    "res = [«ext»] * len(substrates)\nfor substrate, pos in zip(substrates, labelmap, strict=True):\n"
    "    res[pos] = substrate\nreturn res"])}

METHODS_COMMON = {
    "get_isotopomers": ("self, variables: list[str]", [
        "isotopomers = {name: _generate_isotope_labels(name, num) for name, num in self.label_variables.items()}\n"
        "return {k: isotopomers[k] for k in variables}"]),
}
FIELDS = ["model: Model", "label_variables: dict[str, int] = field(default_factory=dict)",
          "label_maps: dict[str, list[int]] = field(default_factory=dict)"]


def facts(src: str) -> dict:
    tree = ast.parse(src)
    f: dict = {}
    fns = functions_of(tree)
    check_functions(fns, HELPERS, f, "")
    check_dataclass(tree, "LinearLabelMapper", FIELDS)
    methods = functions_of(tree, "LinearLabelMapper")
    check_functions(methods, METHODS_COMMON, f, "LinearLabelMapper.")
    bm = methods.get("build_model")
    if bm is None:
        raise Unsupported("LinearLabelMapper.build_model not found")
    a = bm.args
    names = [x.arg for x in a.args]
    if names != ["self", "concs", "fluxes", "external_label", "initial_labels"] or a.kwonlyargs or a.vararg or a.kwarg:
        raise Unsupported(f"build_model parameters: {ast.unparse(a)}")
    if len(a.defaults) != 2 or ast.unparse(a.defaults[1]) != "None" or ast.unparse(a.args[3].annotation) != "float":
        raise Unsupported(f"build_model defaults: {ast.unparse(a)}")
    try:
        default = ast.literal_eval(a.defaults[0])
    except Exception as e:  # noqa: BLE001
        raise Unsupported(f"external_label default: {ast.unparse(a.defaults[0])}") from e
    if not isinstance(default, (int, float)) or isinstance(default, bool) or default != int(default):
        raise Unsupported(f"external_label default: {default!r}")
    f["ext_default"] = int(default)
    sig = ast.unparse(a)
    doc = {"build_model": (sig, [BUILD_HEAD + "    subs = _map_labelmap_to_substrates(subs, label_map)\n" + BUILD_TAIL])}
    inv = {"build_model": (sig, [BUILD_HEAD + "    subs = _map_substrates_to_labelmap(subs, label_map)\n" + BUILD_TAIL])}
    try:
        check_functions(methods, doc, f, "LinearLabelMapper.")
        check_functions(fns, DOCUMENTED, f, "")
        f["documented"] = True
    except Unsupported as first:
        try:
            check_functions(methods, inv, f, "LinearLabelMapper.")
            check_functions(fns, INVERSE, f, "")
            f["documented"] = False
        except Unsupported:
            raise first from None
    if "_map_substrates_to_labelmap" in fns:  # the pinned helper, if present, keeps its shape
        check_functions(fns, INVERSE, f, "")
    if not isinstance(f["ext"], str) or not isinstance(f["sep"], str):
        raise Unsupported(f"placeholders {f['ext']!r} {f['sep']!r}")
    return f


def render(f: dict) -> str:
    return (
        f"-- GENERATED from {SRC} by /verif/translate/c16.py; do not edit (rewritten on every run)\n"
        "namespace Mxl.C16.Gen\n"
        "/-- every mirrored function has one of the modelled statement shapes, no decorator; the dataclass has its three fields -/\n"
        "def shapeOk : Bool := true\n"
        "/-- placeholder of the external pool (padding, parameter name, excluded from stoichiometries) -/\n"
        f"def ext : String := {lean_str(f['ext'])}\n"
        "/-- `substrate.split(sep)[0]` recovers the pool name of a position variable `f'{compound}__{i}'` -/\n"
        f"def sep : String := {lean_str(f['sep'])}\n"
        "/-- default of `external_label` -/\n"
        f"def extDefault : Nat := {f['ext_default']}\n"
        "/-- `build_model` reads a map through `_map_labelmap_to_substrates` (product i from substrate labelmap[i]) -/\n"
        f"def documentedDirection : Bool := {'true' if f['documented'] else 'false'}\n"
        "end Mxl.C16.Gen\n"
    )


UNSUPPORTED = (
    "-- GENERATED by /verif/translate/c16.py: UNSUPPORTED source shape\n"
    "namespace Mxl.C16.Gen\n/- {why} -/\n"
    "def shapeOk : Bool := false\ndef ext : String := \"\"\ndef sep : String := \"\"\ndef extDefault : Nat := 0\n"
    "def documentedDirection : Bool := false\nend Mxl.C16.Gen\n"
)


def generate(repo: Path, outdir: Path) -> bool:
    out = Path(outdir) / "C16Facts.lean"
    try:
        f = facts((Path(repo) / SRC).read_text())
    except Exception as e:
        write_if_changed(out, UNSUPPORTED.format(why=str(e)[:600].replace("-/", "- /")))
        raise
    return write_if_changed(out, render(f))


if __name__ == "__main__":
    import os

    root = Path(__file__).resolve().parent.parent
    generate(Path(os.environ.get("MXLPY_REPO", "/repo")), root / "lean" / "MxlVerif" / "MxlVerif" / "Generated")
    print((root / "lean/MxlVerif/MxlVerif/Generated/C16Facts.lean").read_text())
