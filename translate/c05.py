"""translate/c05.py — reads src/mxlpy/label_map.py and writes Generated/C05Facts.lean.

Every function the Lean model `Model/C05.lean` mirrors must have EXACTLY the statement shapes listed in
TEMPLATES below (compared after `ast.unparse`, docstrings removed, names of locals normalised — renaming a
local variable is not a change of shape); the holes «name» of a template are the
facts that are regenerated on every run: the name-mangling separators, the label alphabet and its order in
`it.product`, the character external positions get, the default label count, the suffix of the totals, the
comparison operators of the length checks, whether rate arguments are replaced per occurrence.  Decorator
lists must be empty (a memoising decorator changes what the public queries hand out) and the dataclass must
have exactly the three public fields (a further field is state that survives between builds).
Anything else raises `Unsupported`: the generated file then says `shapeOk := false`, the theorem
`C05_source_facts` fails to elaborate and the check escalates its search for a failing input.
"""
from __future__ import annotations

import ast
import re
from pathlib import Path

from .common import Unsupported, write_if_changed

SRC = "src/mxlpy/label_map.py"

HOLE = re.compile(r"«(\w+)»")
LIT = r"(?:'[^'\n]*'|\"[^\"\n]*\"|\((?:'[^'\n]*'(?:, )?)+\))"


def body_text(fn: ast.FunctionDef) -> str:
    body = [s for s in fn.body
            if not (isinstance(s, ast.Expr) and isinstance(s.value, ast.Constant) and isinstance(s.value.value, str))]
    return "\n".join(ast.unparse(s) for s in body)


def canon_locals(text: str) -> str:
    """`text` (a statement list) with every name that is bound in it (assignment, loop / comprehension target,
    walrus) renamed to `_v<k>`, k = order of first binding: the names of locals are not part of a shape, so
    renaming a local in the source is not a change of shape.  Parameters that are only read, attributes, keyword
    names and called functions keep their names."""
    tree = ast.parse(text)
    order: list[str] = []

    class Collect(ast.NodeVisitor):
        def visit_Name(self, n: ast.Name) -> None:
            if isinstance(n.ctx, (ast.Store, ast.Del)) and n.id not in order and not n.id.startswith("__HOLE_"):
                order.append(n.id)

    Collect().visit(tree)
    ren = {n: f"_v{i}" for i, n in enumerate(order)}

    class Rename(ast.NodeTransformer):
        def visit_Name(self, n: ast.Name) -> ast.Name:
            if n.id in ren:
                n.id = ren[n.id]
            return n

    Rename().visit(tree)
    return ast.unparse(tree)


def canon_template(template: str) -> str:
    """the template with its locals renamed the same way (holes survive as identifiers)"""
    t = canon_locals(HOLE.sub(lambda m: f"__HOLE_{m.group(1)}__", template))
    return re.sub(r"__HOLE_(\w+?)__", lambda m: f"«{m.group(1)}»", t)


def match_template(name: str, template: str, text: str, facts: dict) -> bool:
    """`template` with holes «x» (Python string / tuple-of-strings literals) against `text`; the values of
    the holes are added to `facts` (a hole seen twice must have the same value)."""
    parts, pos = [], 0
    seen: list[str] = []
    for m in HOLE.finditer(template):
        parts.append(re.escape(template[pos:m.start()]))
        h = m.group(1)
        if h in seen:
            parts.append(f"(?P={h})")
        else:
            seen.append(h)
            parts.append(f"(?P<{h}>{LIT})")
        pos = m.end()
    parts.append(re.escape(template[pos:]))
    mm = re.fullmatch("".join(parts), text)
    if mm is None:
        return False
    for h, v in mm.groupdict().items():
        val = ast.literal_eval(v)
        if h in facts and facts[h] != val:
            raise Unsupported(f"{name}: «{h}» = {val!r} here but {facts[h]!r} elsewhere")
        facts[h] = val
    return True


def functions_of(tree: ast.Module, cls: str | None = None) -> dict[str, ast.FunctionDef]:
    scope = tree.body
    if cls is not None:
        c = next((n for n in tree.body if isinstance(n, ast.ClassDef) and n.name == cls), None)
        if c is None:
            raise Unsupported(f"class {cls} not found")
        scope = c.body
    return {n.name: n for n in scope if isinstance(n, ast.FunctionDef)}


def check_functions(fns: dict[str, ast.FunctionDef], templates: dict, facts: dict, where: str) -> dict[str, int]:
    """every templated function exists, has no decorators, the listed signature, and one of its variants'
    shapes; returns the index of the variant that matched"""
    variant = {}
    for name, (sig, variants) in templates.items():
        fn = fns.get(name)
        if fn is None:
            raise Unsupported(f"{where}{name} not found")
        if fn.decorator_list:
            raise Unsupported(f"{where}{name} is decorated with {[ast.unparse(d) for d in fn.decorator_list]}")
        if ast.unparse(fn.args) != sig:
            raise Unsupported(f"{where}{name} signature: {ast.unparse(fn.args)}")
        text = canon_locals(body_text(fn))
        for i, t in enumerate(variants):
            if match_template(where + name, canon_template(t), text, facts):
                variant[name] = i
                break
        else:
            raise Unsupported(f"{where}{name}: body has none of the modelled shapes:\n{text[:600]}")
    return variant


def check_dataclass(tree: ast.Module, cls: str, fields: list[str]) -> None:
    c = next((n for n in tree.body if isinstance(n, ast.ClassDef) and n.name == cls), None)
    if c is None:
        raise Unsupported(f"class {cls} not found")
    if [ast.unparse(d) for d in c.decorator_list] != ["dataclass(slots=True)"]:
        raise Unsupported(f"{cls} decorators: {[ast.unparse(d) for d in c.decorator_list]}")
    got = [ast.unparse(n) for n in c.body if isinstance(n, (ast.AnnAssign, ast.Assign))]
    if got != fields:
        raise Unsupported(f"{cls} fields: {got}")


# --------------------------------------------------------------------------- label_map.py

ISO_HEAD = """base_substrates, base_products = _unpack_stoichiometries(stoichiometries=stoichiometry)
labels_per_substrate = _get_labels_per_variable(label_variables=label_variables, compounds=base_substrates)
labels_per_product = _get_labels_per_variable(label_variables=label_variables, compounds=base_products)
total_substrate_labels = sum(labels_per_substrate)
total_product_labels = sum(labels_per_product)
if len(labelmap) - total_substrate_labels < 0:
    msg = f"Labelmap 'missing' {abs(len(labelmap) - total_substrate_labels)} label(s)"
    raise ValueError(msg)
external_labels = _get_external_labels(total_product_labels=total_product_labels, total_substrate_labels=total_substrate_labels)
for rate_suffix in (''.join(i) for i in it.product(«alphabet», repeat=total_substrate_labels)):
    rate_suffix += external_labels
    product_suffix = _map_substrates_to_products(rate_suffix=rate_suffix, labelmap=labelmap)
    product_labels = _split_label_string(label=product_suffix, labels_per_compound=labels_per_product)
    substrate_labels = _split_label_string(label=rate_suffix, labels_per_compound=labels_per_substrate)
    new_substrates = _assign_compound_labels(base_compounds=base_substrates, label_suffixes=substrate_labels)
    new_products = _assign_compound_labels(base_compounds=base_products, label_suffixes=product_labels)
    new_stoichiometry = _repack_stoichiometries(new_substrates=new_substrates, new_products=new_products)
    new_rate_name = rate_name + «sep» + rate_suffix
"""
ISO_POSITIONAL = """    substrate_names: defaultdict[str, list[str]] = defaultdict(list)
    for base_name, new_name in zip(base_substrates, new_substrates, strict=True):
        substrate_names[base_name].append(new_name)
    product_names = dict(zip(base_products, new_products, strict=True))
    mentions: defaultdict[str, int] = defaultdict(int)
    new_args = []
    for k in args:
        if (occurrences := substrate_names.get(k)) is not None:
            new_args.append(occurrences[min(mentions[k], len(occurrences) - 1)])
            mentions[k] += 1
        else:
            new_args.append(product_names.get(k, k))
    model.add_reaction(name=new_rate_name, fn=function, stoichiometry=new_stoichiometry, args=new_args)"""
ISO_LAST_BINDING = """    replacements = dict(zip(base_substrates, new_substrates, strict=True)) | dict(zip(base_products, new_products, strict=True))
    model.add_reaction(name=new_rate_name, fn=function, stoichiometry=new_stoichiometry, args=[replacements.get(k, k) for k in args])"""

HELPERS = {
    "_generate_binary_labels": ("base_name: str, num_labels: int", [
        "if num_labels > 0:\n"
        "    return [base_name + «sep» + ''.join(i) for i in it.product(«alphabet», repeat=num_labels)]\n"
        "return [base_name]"]),
    "_split_label_string": ("label: str, labels_per_compound: list[int]", [
        "split_labels = []\ncnt = 0\nfor i in range(len(labels_per_compound)):\n"
        "    split_labels.append(label[cnt:cnt + labels_per_compound[i]])\n"
        "    cnt += labels_per_compound[i]\nreturn split_labels"]),
    "_map_substrates_to_products": ("rate_suffix: str, labelmap: list[int]", [
        "return ''.join([rate_suffix[i] for i in labelmap])"]),
    "_unpack_stoichiometries": ("stoichiometries: Mapping[str, float]", [
        # after "fix: LabelMapper accepts whole-number float coefficients ...": int() first, fractional refused
        "substrates = []\nproducts = []\nfor k, v in stoichiometries.items():\n    n = int(v)\n    if n != v:\n"
        "        msg = f'Stoichiometric coefficient of {k} must be a whole number, got {v}'\n"
        "        raise ValueError(msg)\n    if n < 0:\n"
        "        substrates.extend([k] * -n)\n    else:\n        products.extend([k] * n)\n"
        "return (substrates, products)"]),
    "_get_labels_per_variable": ("label_variables: dict[str, int], compounds: list[str]", [
        "return [label_variables.get(compound, 0) for compound in compounds]"]),
    "_repack_stoichiometries": ("new_substrates: list[str], new_products: list[str]", [
        "new_stoichiometries: defaultdict[str, int] = defaultdict(int)\nfor arg in new_substrates:\n"
        "    new_stoichiometries[arg] -= 1\nfor arg in new_products:\n    new_stoichiometries[arg] += 1\n"
        "return dict(new_stoichiometries)"]),
    "_assign_compound_labels": ("base_compounds: list[str], label_suffixes: list[str]", [
        "new_compounds = []\nfor i, compound in enumerate(base_compounds):\n    if label_suffixes[i] != '':\n"
        "        new_compounds.append(compound + «sep» + label_suffixes[i])\n    else:\n"
        "        new_compounds.append(compound)\nreturn new_compounds"]),
    "_get_external_labels": ("*, total_product_labels: int, total_substrate_labels: int", [
        "n_external_labels = total_product_labels - total_substrate_labels\nif n_external_labels > 0:\n"
        "    external_label_string = [«ext»] * n_external_labels\n    return ''.join(external_label_string)\n"
        "return ''"]),
    "_create_isotopomer_reactions": (
        "model: Model, label_variables: dict[str, int], rate_name: str, function: Callable, "
        "stoichiometry: Mapping[str, int], labelmap: list[int], args: list[str]",
        [ISO_HEAD + ISO_POSITIONAL, ISO_HEAD + ISO_LAST_BINDING]),
}

BUILD = """isotopomers = self.get_isotopomers()
initial_labels = {} if initial_labels is None else initial_labels
m = Model()
m.add_parameters(self.model.get_parameter_values())
for name, dp in self.model.get_derived_parameters().items():
    m.add_derived(name, fn=dp.fn, args=dp.args)
variables: dict[str, float] = {}
for k, v in self.model.get_initial_conditions().items():
    if (isos := isotopomers.get(k)) is None:
        variables[k] = v
    else:
        label_pos = initial_labels.get(k)
        d = zip(isos, it.repeat(0), strict=False)
        variables.update(d)
        if label_pos is None:
            variables[isos[0]] = v
        else:
            if isinstance(label_pos, int):
                label_pos = [label_pos]
            suffix = ''.join((«one» if idx in label_pos else «zero» for idx in range(self.label_variables[k])))
            variables[_assign_compound_labels(base_compounds=[k], label_suffixes=[suffix])[0]] = v
m.add_variables(variables)
for base_name, label_names in isotopomers.items():
    m.add_derived(name=f'{base_name}__total', fn=_total_concentration, args=label_names)
for name, dv in self.model.get_derived_variables().items():
    m.add_derived(name, fn=dv.fn, args=[f'{i}__total' if i in isotopomers else i for i in dv.args])
for rxn_name, rxn in self.model.get_raw_reactions().items():
    if (label_map := self.label_maps.get(rxn_name)) is None:
        m.add_reaction(rxn_name, rxn.fn, args=[f'{i}__total' if i in isotopomers else i for i in rxn.args], stoichiometry=rxn.stoichiometry)
    else:
        _create_isotopomer_reactions(model=m, label_variables=self.label_variables, rate_name=rxn_name, stoichiometry=rxn.stoichiometry, function=rxn.fn, labelmap=label_map, args=rxn.args)
return m"""

METHODS = {
    "get_isotopomers": ("self", [
        "return {name: _generate_binary_labels(base_name=name, num_labels=num) for name, num in self.label_variables.items()}"]),
    "get_isotopomer_of": ("self, name: str", [
        "return _generate_binary_labels(base_name=name, num_labels=self.label_variables[name])"]),
    "get_isotopomers_by_regex": ("self, name: str, regex: str", [
        "pattern = re.compile(regex)\nisotopomers = self.get_isotopomer_of(name=name)\n"
        "return [i for i in isotopomers if pattern.match(i)]"]),
    "get_isotopomers_of_at_position": ("self, name: str, positions: int | list[int]", [
        "if isinstance(positions, int):\n    positions = [positions]\nnum_labels = self.label_variables[name]\n"
        "label_positions = ['[01]'] * num_labels\nfor position in positions:\n    label_positions[position] = «one»\n"
        "return self.get_isotopomers_by_regex(name, f'{name}__{''.join(label_positions)}')"]),
    "get_isotopomers_of_with_n_labels": ("self, name: str, n_labels: int", [
        "label_positions = self.label_variables[name]\n"
        "label_patterns = [[«one» if i in positions else «zero» for i in range(label_positions)] "
        "for positions in it.combinations(range(label_positions), n_labels)]\n"
        "return [f'{name}__{''.join(i)}' for i in label_patterns]"]),
    "build_model": ("self, initial_labels: dict[str, int | list[int]] | None=None", [BUILD]),
}

FIELDS = ["model: Model", "label_variables: dict[str, int] = field(default_factory=dict)",
          "label_maps: dict[str, list[int]] = field(default_factory=dict)"]


def facts(src: str) -> dict:
    tree = ast.parse(src)
    f: dict = {}
    var = check_functions(functions_of(tree), HELPERS, f, "")
    check_dataclass(tree, "LabelMapper", FIELDS)
    check_functions(functions_of(tree, "LabelMapper"), METHODS, f, "LabelMapper.")
    alpha = f["alphabet"]
    if not (isinstance(alpha, tuple) and len(alpha) == 2 and all(isinstance(c, str) and len(c) == 1 for c in alpha)):
        raise Unsupported(f"label alphabet {alpha!r}")
    for h in ("ext", "one", "zero"):
        if not (isinstance(f[h], str) and len(f[h]) == 1):
            raise Unsupported(f"«{h}» = {f[h]!r}")
    if not isinstance(f["sep"], str):
        raise Unsupported(f"separator {f['sep']!r}")
    # the f-strings `f'{base_name}__total'`, `f'{name}__{...}'` are part of the fixed template text: they use "__"
    f["total_suffix"] = "__total"
    f["positional"] = var["_create_isotopomer_reactions"] == 0
    return f


def lean_str(s: str) -> str:
    return '"' + s.replace("\\", "\\\\").replace('"', '\\"') + '"'


def lean_char(c: str) -> str:
    return "'" + ("\\'" if c == "'" else "\\\\" if c == "\\" else c) + "'"


def render(f: dict) -> str:
    return (
        f"-- GENERATED from {SRC} by /verif/translate/c05.py; do not edit (rewritten on every run)\n"
        "namespace Mxl.C05.Gen\n"
        "/-- every mirrored function has one of the modelled statement shapes, no decorator; the dataclass has its three fields -/\n"
        "def shapeOk : Bool := true\n"
        "/-- `base + sep + bits` in `_generate_binary_labels`, `_assign_compound_labels` and the rate names -/\n"
        f"def sep : String := {lean_str(f['sep'])}\n"
        "/-- `it.product(alphabet, repeat=n)`, the same tuple at both sites; iteration order = tuple order -/\n"
        f"def alphabet : List Char := [{', '.join(lean_char(c) for c in f['alphabet'])}]\n"
        "/-- the character `_get_external_labels` repeats for positions beyond the substrates -/\n"
        f"def extChar : Char := {lean_char(f['ext'])}\n"
        "/-- initial-label placement / position queries: requested position, other position -/\n"
        f"def oneChar : Char := {lean_char(f['one'])}\n"
        f"def zeroChar : Char := {lean_char(f['zero'])}\n"
        f"def totalSuffix : String := {lean_str(f['total_suffix'])}\n"
        "/-- rate arguments are replaced per occurrence (the j-th mention reads the j-th occurrence) rather than by one dict -/\n"
        f"def positionalArgs : Bool := {'true' if f['positional'] else 'false'}\n"
        "end Mxl.C05.Gen\n"
    )


UNSUPPORTED = (
    "-- GENERATED by /verif/translate/c05.py: UNSUPPORTED source shape\n"
    "namespace Mxl.C05.Gen\n/- {why} -/\n"
    "def shapeOk : Bool := false\ndef sep : String := \"\"\ndef alphabet : List Char := []\n"
    "def extChar : Char := ' '\ndef oneChar : Char := ' '\ndef zeroChar : Char := ' '\n"
    "def totalSuffix : String := \"\"\ndef positionalArgs : Bool := false\nend Mxl.C05.Gen\n"
)


def generate(repo: Path, outdir: Path) -> bool:
    out = Path(outdir) / "C05Facts.lean"
    try:
        f = facts((Path(repo) / SRC).read_text())
    except Exception as e:
        write_if_changed(out, UNSUPPORTED.format(why=str(e)[:600].replace("-/", "- /")))
        raise
    return write_if_changed(out, render(f))


if __name__ == "__main__":
    import os

    root = Path(__file__).resolve().parent.parent
    generate(Path(os.environ.get("MXLPY_REPO", "/repo")), root / "lean" / "MxlVerif" / "MxlVerif" / "Generated")
    print((root / "lean/MxlVerif/MxlVerif/Generated/C05Facts.lean").read_text())
