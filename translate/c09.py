"""translate/c09.py — reads src/mxlpy/scan.py, mc.py, parallel.py and writes Generated/C09Facts.lean.

Facts the executable model of C09 (`Model/C09.lean`, `Model/C09Par.lean`) depends on, regenerated from the
CURRENT source on every run:

  * `rowSteps`: what `_update_parameters_and_initial_conditions` does, statement by statement (copy the model,
    write the row's initial values, write the row's parameters, call the worker) — in source order;
  * `parallelise`: the key check guards the cache, `_load_or_run` loads before it runs and saves after it ran, the
    pool branch is `pool.map(worker, inputs, timeout=timeout)` drained by a loop that APPENDS results in iteration
    order, SKIPS a `TimeoutError` and stops at `StopIteration`; the sequential branch is `list(map(worker, inputs))`;
  * one record per scan driver (scan.* and mc.*): which table its rows come from (`list(<table>.iterrows())`), that
    it hands the worker `y0=None` after writing `y0` into the model itself, which of `parallel` / `max_workers` /
    `cache` / `timeout` it passes on, and how results are joined with the index (positionally with an index built
    from the same table, or `dict(res)` / `{k: … for k, v in res}` keyed by row label).

Anything outside these shapes raises `Unsupported` (a broken obligation: the check then searches for a failing input).
"""
from __future__ import annotations

import ast
import re
from pathlib import Path

from .common import HEADER, Unsupported, find_function, write_if_changed

SCAN = "src/mxlpy/scan.py"
MC = "src/mxlpy/mc.py"
PAR = "src/mxlpy/parallel.py"


def body_of(fn: ast.FunctionDef) -> list[ast.stmt]:
    b = list(fn.body)
    if b and isinstance(b[0], ast.Expr) and isinstance(b[0].value, ast.Constant) and isinstance(b[0].value.value, str):
        b = b[1:]
    return b


# ------------------------------------------------------------------ _update_parameters_and_initial_conditions

def row_steps(tree: ast.AST) -> list[str]:
    fn = find_function(tree, "_update_parameters_and_initial_conditions")
    if [a.arg for a in fn.args.args] != ["pars", "fn", "model"]:
        raise Unsupported("_update_parameters_and_initial_conditions: parameters are not (pars, fn, model)")
    steps: list[str] = []
    row_dict = None
    for st in body_of(fn):
        src = ast.unparse(st)
        if src in ("model = deepcopy(model)", "model = copy.deepcopy(model)"):
            steps.append("copy")
        elif isinstance(st, ast.Assign) and len(st.targets) == 1 and isinstance(st.targets[0], ast.Name) \
                and ast.unparse(st.value) == "pars.to_dict()":
            row_dict = st.targets[0].id
        elif row_dict and src == f"model.update_variables({{k: v for k, v in {row_dict}.items() if k in model._variables}})":
            steps.append("updVars")
        elif row_dict and src == f"model.update_parameters({{k: v for k, v in {row_dict}.items() if k in model._parameters}})":
            steps.append("updPars")
        elif src == "return fn(model)":
            steps.append("call")
        else:
            raise Unsupported(f"_update_parameters_and_initial_conditions: statement outside the subset: {src}")
    return steps


# ------------------------------------------------------------------ parallel.py

class _Subst(ast.NodeTransformer):
    def __init__(self, env):
        self.env = env

    def visit_Name(self, node):
        return ast.copy_location(ast.Name(id=self.env[node.id], ctx=ast.Load()), node) if node.id in self.env else node


def _strip_cast(e: ast.expr) -> ast.expr:
    while isinstance(e, ast.Call) and ast.unparse(e.func) in ("cast", "typing.cast") and len(e.args) == 2:
        e = e.args[1]
    return e


def load_or_run_paths(fn: ast.FunctionDef) -> dict[str, tuple[list[str], str]]:
    """`_load_or_run` by WHAT IT DOES, not how it is written: the body is executed symbolically in the three situations
    (no cache / the key's file exists / it does not); locals are identified by their definitions; if/else and early-return
    forms of the same control flow give the same answer.  Result per situation: the calls of `fn` / `cache.load_fn` /
    `cache.save_fn` in order, and the returned pair."""
    args = [a.arg for a in fn.args.args]
    if args[:1] != ["inp"] or "fn" not in args or "cache" not in args:
        raise Unsupported("_load_or_run: parameters are not (inp, fn, cache)")
    out = {}
    for situation in ("none", "hit", "miss"):
        env: dict[str, str] = {}
        effects: list[str] = []

        def ev(e: ast.expr) -> str:
            e = _strip_cast(_Subst(env).visit(ast.parse(ast.unparse(e), mode="eval").body))
            txt = ast.unparse(e)
            if txt in ("inp[0]",):
                return "KEY"
            if txt in ("inp[1]",):
                return "VAL"
            if txt == "cache.tmp_dir / cache.name_fn(KEY)":
                return "FILE"
            if txt == "fn(VAL)":
                effects.append("run")
                return "RES"
            if txt == "cache.load_fn(FILE)":
                effects.append("load")
                return "LOADED"
            if txt == "cache.save_fn(FILE, RES)":
                effects.append("save")
                return "None"
            if isinstance(e, ast.Tuple) and len(e.elts) == 2:
                return f"({ev(e.elts[0])}, {ev(e.elts[1])})"
            if isinstance(e, ast.Name):
                return e.id
            raise Unsupported(f"_load_or_run: expression outside the subset: {txt}")

        def test(t: ast.expr) -> bool:
            if isinstance(t, ast.UnaryOp) and isinstance(t.op, ast.Not):
                return not test(t.operand)
            txt = ast.unparse(_Subst(env).visit(ast.parse(ast.unparse(t), mode="eval").body))
            if txt == "cache is None":
                return situation == "none"
            if txt == "cache is not None":
                return situation != "none"
            if txt == "FILE.exists()":
                if situation == "none":
                    raise Unsupported("_load_or_run: looks at the cache directory although there is no cache")
                return situation == "hit"
            raise Unsupported(f"_load_or_run: condition outside the subset: {txt}")

        def run(stmts) -> str | None:
            for st in stmts:
                if isinstance(st, ast.Return):
                    return ev(st.value)
                if isinstance(st, ast.Assign) and len(st.targets) == 1:
                    tgt = st.targets[0]
                    if isinstance(tgt, ast.Tuple) and ast.unparse(st.value) == "inp" and len(tgt.elts) == 2 \
                            and all(isinstance(x, ast.Name) for x in tgt.elts):
                        env[tgt.elts[0].id], env[tgt.elts[1].id] = "KEY", "VAL"
                    elif isinstance(tgt, ast.Name):
                        env[tgt.id] = ev(st.value)
                    else:
                        raise Unsupported(f"_load_or_run: assignment outside the subset: {ast.unparse(st)}")
                elif isinstance(st, ast.AnnAssign) and isinstance(st.target, ast.Name) and st.value is not None:
                    env[st.target.id] = ev(st.value)
                elif isinstance(st, ast.Expr) and isinstance(st.value, ast.Call):
                    ev(st.value)
                elif isinstance(st, ast.If):
                    r = run(st.body if test(st.test) else st.orelse)
                    if r is not None:
                        return r
                else:
                    raise Unsupported(f"_load_or_run: statement outside the subset: {ast.unparse(st)}")
            return None

        ret = run(body_of(fn))
        if ret is None:
            raise Unsupported("_load_or_run: a path does not return")
        out[situation] = (effects, ret)
    return out


def _first_components(e: ast.expr) -> bool:
    """`[k for k, _ in inputs]` (any names; list, set or generator)"""
    return (isinstance(e, (ast.ListComp, ast.SetComp, ast.GeneratorExp)) and len(e.generators) == 1
            and not e.generators[0].ifs and ast.unparse(e.generators[0].iter) == "inputs"
            and isinstance(e.generators[0].target, ast.Tuple) and len(e.generators[0].target.elts) == 2
            and isinstance(e.elt, ast.Name) and isinstance(e.generators[0].target.elts[0], ast.Name)
            and e.elt.id == e.generators[0].target.elts[0].id)


def key_check(body: list[ast.stmt], upto: int) -> bool:
    """before the branches: inside an `if cache is not None:` a `ValueError` is raised when the first components of
    `inputs` are not pairwise distinct (`len(set(X)) != len(X)`, X a local defined as those components, either order)"""
    for st in body[:upto]:
        if not (isinstance(st, ast.If) and ast.unparse(st.test) == "cache is not None"):
            continue
        keys = {t.id for x in st.body if isinstance(x, ast.Assign) and _first_components(x.value)
                for t in x.targets if isinstance(t, ast.Name)}
        for x in st.body:
            if isinstance(x, ast.If) and isinstance(x.test, ast.Compare) and len(x.test.ops) == 1 \
                    and isinstance(x.test.ops[0], (ast.NotEq, ast.Lt, ast.Gt)):
                sides = {ast.unparse(x.test.left), ast.unparse(x.test.comparators[0])}
                if any(sides == {f"len(set({k}))", f"len({k})"} for k in keys) \
                        and any(isinstance(y, ast.Raise) and "ValueError" in ast.unparse(y) for y in ast.walk(x)) \
                        and not x.orelse:
                    return True
    return False


def parallelise_facts(tree: ast.AST) -> dict[str, bool]:
    facts = {}
    paths = load_or_run_paths(find_function(tree, "_load_or_run"))
    want = {"none": (["run"], "(KEY, RES)"), "hit": (["load"], "(KEY, LOADED)"), "miss": (["run", "save"], "(KEY, RES)")}
    if paths != want:
        raise Unsupported(f"_load_or_run is not: no cache -> fn(v); stored -> load; else fn(v), save — it is {paths}")
    facts["loadBeforeRun"] = True
    fn = find_function(tree, "parallelise")
    body = body_of(fn)
    br = [s for s in body if isinstance(s, ast.If) and ast.unparse(s.test) == "parallel"]
    if len(br) != 1:
        raise Unsupported("parallelise: no single `if parallel:`")
    at = body.index(br[0])
    # 1. the key check guards the cache, before anything runs
    if not key_check(body, at):
        raise Unsupported("parallelise: no `if cache is not None:` check of pairwise distinct keys before the branches")
    facts["cacheChecksKeys"] = True
    # 2. the worker: a local bound to partial(_load_or_run, fn=fn, cache=cache); the result: the local that is returned
    ws = [s for s in body[:at] if isinstance(s, (ast.Assign, ast.AnnAssign)) and s.value is not None
          and ast.unparse(s.value) == "partial(_load_or_run, fn=fn, cache=cache)"]
    if len(ws) != 1:
        raise Unsupported("parallelise: no single local bound to partial(_load_or_run, fn=fn, cache=cache)")
    tgt = ws[0].targets[0] if isinstance(ws[0], ast.Assign) else ws[0].target
    if not isinstance(tgt, ast.Name):
        raise Unsupported("parallelise: the worker is not bound to a name")
    W = tgt.id
    if not (isinstance(body[-1], ast.Return) and isinstance(body[-1].value, ast.Name)):
        raise Unsupported("parallelise: does not return a local")
    R = body[-1].value.id
    # 3. the two branches
    par, seq = br[0].body, br[0].orelse
    seq_ok = False
    if len(seq) == 1 and isinstance(seq[0], ast.Assign) and ast.unparse(seq[0].targets[0]) == R:
        v = seq[0].value
        if isinstance(v, ast.Call) and ast.unparse(v.func) == "list" and len(v.args) == 1:
            inner = v.args[0]
            if isinstance(inner, ast.Call) and ast.unparse(inner.func) == "tqdm" and inner.args:
                inner = inner.args[0]  # the progress bar passes its iterable through
            seq_ok = ast.unparse(inner) == f"map({W}, inputs)"
    if not seq_ok:
        raise Unsupported(f"parallelise: sequential branch is not {R} = list(map({W}, inputs))")
    facts["seqIsMap"] = True
    par_mod = ast.Module(body=par, type_ignores=[])
    maps = [n for n in ast.walk(par_mod) if isinstance(n, ast.Call) and isinstance(n.func, ast.Attribute) and n.func.attr == "map"]
    if not (len(maps) == 1 and [ast.unparse(a) for a in maps[0].args] == [W, "inputs"]
            and {k.arg: ast.unparse(k.value) for k in maps[0].keywords} == {"timeout": "timeout"}):
        raise Unsupported(f"parallelise: the pool branch is not <pool>.map({W}, inputs, timeout=timeout)")
    if not any(ast.unparse(s) == f"{R} = []" for s in par):
        raise Unsupported(f"parallelise: {R} does not start empty")
    loops = [n for n in ast.walk(par_mod) if isinstance(n, ast.While)]
    if len(loops) != 1 or ast.unparse(loops[0].test) != "True" or len(loops[0].body) != 1 or not isinstance(loops[0].body[0], ast.Try):
        raise Unsupported("parallelise: no single `while True: try:` drain loop")
    tr = loops[0].body[0]

    def progress(st: ast.stmt) -> bool:  # `pbar.update(1)`: touches neither the iterator nor the results
        return isinstance(st, ast.Expr) and isinstance(st.value, ast.Call) and R not in ast.unparse(st) and "next(" not in ast.unparse(st)

    core = [st for st in tr.body if not progress(st)]
    ok = (len(core) == 2 and isinstance(core[0], ast.Assign) and isinstance(core[0].targets[0], ast.Tuple)
          and len(core[0].targets[0].elts) == 2 and all(isinstance(x, ast.Name) for x in core[0].targets[0].elts)
          and isinstance(core[0].value, ast.Call) and ast.unparse(core[0].value.func) == "next" and len(core[0].value.args) == 1)
    if ok:
        a, b = (x.id for x in core[0].targets[0].elts)
        ok = ast.unparse(core[1]) == f"{R}.append(({a}, {b}))"
    if not ok:
        raise Unsupported(f"parallelise: the drain loop body is {[ast.unparse(x) for x in tr.body]}")
    handlers = {ast.unparse(h.type): [st for st in h.body if not progress(st)] for h in tr.handlers}
    if set(handlers) != {"StopIteration", "TimeoutError"} or [ast.unparse(x) for x in handlers["StopIteration"]] != ["break"]:
        raise Unsupported(f"parallelise: handlers {sorted(handlers)}")
    facts["appendInOrder"] = True
    facts["timeoutSkipsRow"] = not any(R in ast.unparse(x) for x in handlers["TimeoutError"])
    if any(not isinstance(x, ast.Pass) for x in handlers["TimeoutError"]) and facts["timeoutSkipsRow"]:
        raise Unsupported(f"parallelise: the TimeoutError handler does {[ast.unparse(x) for x in handlers['TimeoutError']]}")
    # nothing touches the results after the branches
    if any(R in {n.id for n in ast.walk(s) if isinstance(n, ast.Name)} for s in body[at + 1:-1]):
        raise Unsupported(f"parallelise: {R} is modified after it was collected")
    return facts


# ------------------------------------------------------------------ placeholder grids

_NUM = r"(-?\d+(?:\.\d+)?)"
_OPS = {">=": "≥", ">": ">", "<=": "≤", "<": "<"}


def _rat(txt: str) -> str:
    from fractions import Fraction

    q = Fraction(txt)
    return f"({q.numerator} : Rat)" if q.denominator == 1 else f"(({q.numerator} : Rat) / {q.denominator})"


def grid_helpers(tree: ast.AST) -> list[str]:
    """`_time_points_of_time_course` / `_time_points_of_protocol`: the statements must have exactly the shapes below;
    the comparison operators, the constants, the `+ k` of the points per step and the `[d:]` slice are SLOTS that are
    rendered into Lean (the theorems of Props/C09 identify the result with the grids of successful runs)"""
    tc = [ast.unparse(x) for x in body_of(find_function(tree, "_time_points_of_time_course"))]
    pats = [r"time_points = np\.array\(time_points, dtype=float\)",
            rf"time_points = time_points\[time_points (>=|>) {_NUM}\]",
            rf"if len\(time_points\) == 0 or time_points\[0\] != {_NUM}:\n    time_points = np\.insert\(time_points, 0, {_NUM}\)",
            r"return time_points"]
    if len(tc) != len(pats):
        raise Unsupported("_time_points_of_time_course: statement count")
    ms = []
    for st, pat in zip(tc, pats):
        m = re.fullmatch(pat, st)
        if m is None:
            raise Unsupported(f"_time_points_of_time_course: statement outside the subset: {st}")
        ms.append(m)
    op, c0 = ms[1].group(1), ms[1].group(2)
    t1, t2 = ms[2].group(1), ms[2].group(2)
    from fractions import Fraction

    if Fraction(t1) != Fraction(t2):
        raise Unsupported("_time_points_of_time_course: tests for one start, inserts another")
    out = [f"/-- `time_points[time_points {op} {c0}]` -/\ndef tcKeeps (t : Rat) : Bool := decide (t {_OPS[op]} {_rat(c0)})\n",
           f"/-- the start that is inserted when missing -/\ndef tcStart : Rat := {_rat(t2)}\n",
           "/-- `_time_points_of_time_course` -/\ndef tcPlaceholder (tps : List Rat) : List Rat :=\n"
           "  let kept := tps.filter tcKeeps\n"
           "  if kept.length == 0 || kept.head? != some tcStart then tcStart :: kept else kept\n"]
    pr = [ast.unparse(x) for x in body_of(find_function(tree, "_time_points_of_protocol"))]
    pats = [r"ends = np\.array\(cast\(pd\.TimedeltaIndex, protocol\.index\)\.total_seconds\(\), dtype=float\)",
            rf"if time_points is not None:\n    points = np\.union1d\(ends, np\.array\(time_points, dtype=float\)\)\n"
            rf"    return np\.insert\(points\[\(points (>=|>) {_NUM}\) & \(points (<=|<) ends\[-1\]\)\], 0, {_NUM}\)",
            rf"grid, t_start = \(\[np\.array\(\[{_NUM}\]\)\], {_NUM}\)",
            r"for t_end in ends:\n    grid\.append\(np\.linspace\(t_start, t_end, cast\(int, time_points_per_step\) \+ (\d+)\)\[(\d+):\]\)\n    t_start = t_end",
            r"return np\.concatenate\(grid\)"]
    if len(pr) != len(pats):
        raise Unsupported("_time_points_of_protocol: statement count")
    ms = []
    for st, pat in zip(pr, pats):
        m = re.fullmatch(pat, st)
        if m is None:
            raise Unsupported(f"_time_points_of_protocol: statement outside the subset: {st}")
        ms.append(m)
    lo_op, lo_c, hi_op, ins = ms[1].groups()
    g0, s0 = ms[2].groups()
    if Fraction(g0) != Fraction(s0):
        raise Unsupported("_time_points_of_protocol: the grid does not start where the first step starts")
    k, d = ms[3].groups()
    out += [f"/-- `points[(points {lo_op} {lo_c}) & (points {hi_op} ends[-1])]` -/\n"
            f"def ptcKeeps (t tEnd : Rat) : Bool := decide (t {_OPS[lo_op]} {_rat(lo_c)}) && decide (t {_OPS[hi_op]} tEnd)\n",
            f"def ptcStart : Rat := {_rat(ins)}\n",
            f"def protoStart : Rat := {_rat(s0)}\n",
            f"/-- `np.linspace(t_start, t_end, time_points_per_step + {k})[{d}:]` -/\n"
            f"def protoPoints (n : Nat) : Nat := n + {k}\ndef protoDrop : Nat := {d}\n",
            "/-- the loop of `_time_points_of_protocol` (`linspace` is the model's `np.linspace`) -/\n"
            "def protoSteps (linspace : Rat → Rat → Nat → List Rat) (n : Nat) : Rat → List Rat → List Rat\n"
            "  | _, [] => []\n"
            "  | tStart, tEnd :: rest => (linspace tStart tEnd (protoPoints n)).drop protoDrop ++ protoSteps linspace n tEnd rest\n",
            "def protoPlaceholder (linspace : Rat → Rat → Nat → List Rat) (n : Nat) (ends : List Rat) : List Rat :=\n"
            "  protoStart :: protoSteps linspace n protoStart ends\n"]
    return out


# ------------------------------------------------------------------ the drivers

def kwargs(call: ast.Call) -> dict[str, ast.expr]:
    return {k.arg: k.value for k in call.keywords if k.arg}


def driver_fact(fn: ast.FunctionDef, routine: bool) -> dict:
    name = fn.name
    calls = [n for n in ast.walk(fn) if isinstance(n, ast.Call) and ast.unparse(n.func) == "parallelise"]
    if len(calls) != 1:
        raise Unsupported(f"{name}: expected one call of parallelise, found {len(calls)}")
    call = calls[0]
    kw = kwargs(call)
    first = call.args[0] if call.args else kw.get("fn")
    if first is None or not isinstance(first, ast.Call) or ast.unparse(first.func) != "partial":
        raise Unsupported(f"{name}: parallelise is not given partial(_update_parameters_and_initial_conditions, ...)")
    if ast.unparse(first.args[0]) != "_update_parameters_and_initial_conditions":
        raise Unsupported(f"{name}: rows are not applied by _update_parameters_and_initial_conditions")
    okw = kwargs(first)
    if ast.unparse(okw.get("model", ast.Constant(None))) != "model":
        raise Unsupported(f"{name}: the row task is not given model=model")
    inner = okw.get("fn")
    if not (isinstance(inner, ast.Call) and ast.unparse(inner.func) == "partial"):
        raise Unsupported(f"{name}: fn= is not a partial of the worker")
    ikw = kwargs(inner)
    worker_y0 = ast.unparse(ikw["y0"]) if "y0" in ikw else None
    inputs = kw.get("inputs")
    src = ast.unparse(inputs) if inputs is not None else ""
    if not (src.startswith("list(") and src.endswith(".iterrows())")):
        raise Unsupported(f"{name}: inputs is {src}")
    table = src[len("list("):-len(".iterrows())")]
    params = [a.arg for a in fn.args.args + fn.args.kwonlyargs]
    if table not in params:
        raise Unsupported(f"{name}: the rows come from {table}, which is not a parameter")
    # y0 handling before the call
    pre = [ast.unparse(s) for s in body_of(fn) if isinstance(s, ast.If)]
    y0_on_model = "if y0 is not None:\n    model.update_variables(y0)" in pre
    # container
    ret = [n for n in ast.walk(fn) if isinstance(n, ast.Return)]
    if len(ret) != 1:
        raise Unsupported(f"{name}: more than one return")
    bound = [t.id for s in body_of(fn) if isinstance(s, ast.Assign) and s.value is call for t in s.targets if isinstance(t, ast.Name)]
    if len(bound) != 1:
        raise Unsupported(f"{name}: the result of parallelise is not bound to one local")
    N = bound[0]  # whatever the local is called
    text = "\n".join(ast.unparse(s) for s in body_of(fn)[body_of(fn).index(next(s for s in body_of(fn) if isinstance(s, ast.Assign) and s.value is call)) + 1:])
    if re.search(rf"raw_results=\[(\w+)\[1\] for \1 in {N}\]", text):
        idx = (f"raw_index=pd.Index({table}.iloc[:, 0]) if {table}.shape[1] == 1 else pd.MultiIndex.from_frame({table})")
        if idx not in text:
            raise Unsupported(f"{name}: positional results, but raw_index is not built from {table}")
        container = "positional"
    elif f"raw_results=dict({N})" in text:
        container = "byLabel"
    elif re.search(rf"for (\w+), (\w+) in {N}\}}", text) or f"pd.concat(dict({N}))" in text:
        container = "byLabel"
    else:
        raise Unsupported(f"{name}: results are joined with the index in an unknown way")
    if "sorted(" in text or ".sort(" in text or "reversed(" in text:
        raise Unsupported(f"{name}: results are reordered")
    return {"name": name, "table": table, "container": container, "workerY0None": worker_y0 in ("None", None) and (routine or worker_y0 == "None"),
            "y0OnModel": y0_on_model or routine, "passesParallel": "parallel" in kw, "passesMaxWorkers": "max_workers" in kw,
            "passesCache": "cache" in kw, "passesTimeout": "timeout" in kw}


SCAN_DRIVERS = ["steady_state", "time_course", "protocol", "protocol_time_course"]
MC_DRIVERS = ["steady_state", "time_course", "protocol", "protocol_time_course", "scan_steady_state"]
MC_ROUTINES = ["variable_elasticities", "parameter_elasticities", "response_coefficients"]


def top_function(tree: ast.Module, name: str) -> ast.FunctionDef:
    for n in tree.body:
        if isinstance(n, ast.FunctionDef) and n.name == name:
            return n
    raise Unsupported(f"function {name} not found")


def generate(repo: Path, outdir: Path) -> bool:
    scan_t = ast.parse((repo / SCAN).read_text())
    mc_t = ast.parse((repo / MC).read_text())
    par_t = ast.parse((repo / PAR).read_text())
    steps = row_steps(scan_t)
    pf = parallelise_facts(par_t)
    drivers = [dict(driver_fact(top_function(scan_t, n), False), module="scan") for n in SCAN_DRIVERS]
    drivers += [dict(driver_fact(top_function(mc_t, n), False), module="mc") for n in MC_DRIVERS]
    drivers += [dict(driver_fact(top_function(mc_t, n), True), module="mc") for n in MC_ROUTINES]
    # mc.* imports the row task from scan.py (one definition)
    if "_update_parameters_and_initial_conditions" not in [a.name for n in mc_t.body if isinstance(n, ast.ImportFrom) and n.module == "mxlpy.scan" for a in n.names]:
        raise Unsupported("mc.py does not import _update_parameters_and_initial_conditions from mxlpy.scan")

    def b(x: bool) -> str:
        return "true" if x else "false"

    # Simulation.default: a model that cannot be evaluated at its initial state (ZeroDivisionError) is replaced by its
    # NaN-valued copy before anything else is asked of it
    sim_t = ast.parse((repo / "src/mxlpy/simulation.py").read_text())
    dflt = find_function(sim_t, "default", cls="Simulation")
    tries = [n for n in body_of(dflt) if isinstance(n, ast.Try)]
    survives = (len(tries) == 1 and body_of(dflt)[0] is tries[0]
                and [ast.unparse(x) for x in tries[0].body] == ["model.get_parameter_values()"]
                and len(tries[0].handlers) == 1 and ast.unparse(tries[0].handlers[0].type) == "ZeroDivisionError"
                and [ast.unparse(x) for x in tries[0].handlers[0].body] == ["model = _nan_valued_copy(model)"])
    workers_catch = all(
        any(isinstance(h.type, ast.Name) and h.type.id == "ZeroDivisionError" and ast.unparse(h.body[0]) == "res = Result(Exception())"
            for t in ast.walk(top_function(scan_t, w)) if isinstance(t, ast.Try) for h in t.handlers)
        for w in ("_steady_state_worker", "_time_course_worker", "_protocol_worker", "_protocol_time_course_worker"))

    out = [HEADER.format(src=f"{SCAN}, {MC}, {PAR}", tr="c09.py"), "namespace Mxl.Generated.C09\n",
           "inductive RowStep where\n  | copy | updVars | updPars | call\nderiving DecidableEq, Repr\n",
           "inductive Container where\n  | positional | byLabel\nderiving DecidableEq, Repr\n",
           "structure Driver where\n  module : String\n  name : String\n  table : String\n  container : Container\n"
           "  workerY0None : Bool\n  y0OnModel : Bool\n  passesParallel : Bool\n  passesMaxWorkers : Bool\n  passesCache : Bool\n"
           "  passesTimeout : Bool\nderiving DecidableEq, Repr\n",
           "/-- `_update_parameters_and_initial_conditions`, statement by statement -/\n"
           f"def rowSteps : List RowStep := [{', '.join('.' + s for s in steps)}]\n",
           f"def cacheChecksKeys : Bool := {b(pf['cacheChecksKeys'])}\n",
           f"def loadBeforeRun : Bool := {b(pf['loadBeforeRun'])}\n",
           f"def seqIsMap : Bool := {b(pf['seqIsMap'])}\n",
           f"def appendInOrder : Bool := {b(pf['appendInOrder'])}\n",
           f"def timeoutSkipsRow : Bool := {b(pf['timeoutSkipsRow'])}\n",
           "/-- every scan worker turns a `ZeroDivisionError` of the simulator into a failed result (`guardZeroDiv`) -/\n"
           f"def workersCatchZeroDivision : Bool := {b(workers_catch)}\n",
           "/-- `Simulation.default` does not raise for a model that cannot be evaluated at its initial state -/\n"
           f"def placeholderSurvivesZeroDivision : Bool := {b(survives)}\n",
           *grid_helpers(scan_t),
           "def drivers : List Driver := ["]
    rows = []
    for d in drivers:
        rows.append(f'  {{ module := "{d["module"]}", name := "{d["name"]}", table := "{d["table"]}", container := .{d["container"]}, '
                    f'workerY0None := {b(d["workerY0None"])}, y0OnModel := {b(d["y0OnModel"])}, passesParallel := {b(d["passesParallel"])}, '
                    f'passesMaxWorkers := {b(d["passesMaxWorkers"])}, passesCache := {b(d["passesCache"])}, passesTimeout := {b(d["passesTimeout"])} }}')
    out.append(",\n".join(rows) + "]\n")
    out.append("end Mxl.Generated.C09\n")
    return write_if_changed(outdir / "C09Facts.lean", "\n".join(out))
