"""translate/c20.py — turns every function of src/mxlpy/fit/losses.py (single numpy expressions) and the
`_Settings.loss` wrapper of src/mxlpy/fit/abstract.py into Lean definitions in Generated/C20Losses.lean,
polymorphic in the number type (run at Rat by the driver, at ℝ by the theorems).

Supported subset of an expression (anything else raises and leaves a file that breaks the dependent theorems):
  names y_pred / y_true (vectors) . integer / dyadic constants . + - * / and unary minus (vector-vector,
  vector-scalar broadcasting, scalar-scalar) . np.mean np.sum np.square np.sqrt np.abs np.log .
  np.linalg.norm(v, 2) (also through a local alias `norm = np.linalg.norm`) . np.ravel(v) . cast(float, e)
"""
from __future__ import annotations

import ast
import hashlib
from fractions import Fraction
from pathlib import Path


class Unsupported(Exception):
    pass


BASE = "[Add α] [Sub α] [Mul α] [Div α] [Neg α] [NatCast α]"


class Tr:
    def __init__(self, args):
        self.vec = set(args)
        self.alias = {}
        self.classes = set()

    def lit(self, v) -> str:
        fr = Fraction(v)
        if fr < 0:
            return f"(-{self.lit(-fr)})"
        if fr.denominator == 1:
            return f"(({fr.numerator} : Nat) : α)"
        d = fr.denominator
        if d & (d - 1):
            raise Unsupported(f"non-dyadic constant {v!r}")
        return f"((({fr.numerator} : Nat) : α) / (({d} : Nat) : α))"

    def fname(self, f: ast.AST) -> str:
        s = ast.unparse(f)
        return self.alias.get(s, s)

    def expr(self, e: ast.AST):
        """returns (kind, lean) with kind 'V' (vector) or 'S' (scalar)"""
        if isinstance(e, ast.Name):
            if e.id in self.vec:
                return "V", e.id
            raise Unsupported(f"name {e.id}")
        if isinstance(e, ast.Constant) and isinstance(e.value, (int, float)) and not isinstance(e.value, bool):
            return "S", self.lit(e.value)
        if isinstance(e, ast.UnaryOp) and isinstance(e.op, ast.USub):
            k, x = self.expr(e.operand)
            return (k, f"(-{x})") if k == "S" else (k, f"(vmap (fun x => -x) {x})")
        if isinstance(e, ast.BinOp):
            op = {ast.Add: "+", ast.Sub: "-", ast.Mult: "*", ast.Div: "/"}.get(type(e.op))
            if op is None:
                raise Unsupported(f"operator {ast.dump(e.op)}")
            fn = {"+": "vadd", "-": "vsub", "*": "vmul", "/": "vdiv"}[op]
            ka, a = self.expr(e.left)
            kb, b = self.expr(e.right)
            if ka == "V" and kb == "V":
                return "V", f"({fn} {a} {b})"
            if ka == "V":
                return "V", f"(vmap (fun x => x {op} {b}) {a})"
            if kb == "V":
                return "V", f"(vmap (fun x => {a} {op} x) {b})"
            return "S", f"({a} {op} {b})"
        if isinstance(e, ast.Call):
            f = self.fname(e.func)
            if f == "cast" and len(e.args) == 2 and ast.unparse(e.args[0]) == "float":
                return self.expr(e.args[1])
            if f == "np.linalg.norm":
                order = None
                if len(e.args) == 2 and not e.keywords:
                    order = e.args[1]
                elif len(e.args) == 1 and len(e.keywords) == 1 and e.keywords[0].arg == "ord":
                    order = e.keywords[0].value
                if order is None or not (isinstance(order, ast.Constant) and order.value == 2):
                    raise Unsupported("norm order " + ast.unparse(e))
                k, x = self.expr(e.args[0])
                if k != "V":
                    raise Unsupported("norm of a scalar")
                self.classes.add("HasSqrt")
                return "S", f"(norm2 {x})"
            if len(e.args) != 1 or e.keywords:
                raise Unsupported("call " + ast.unparse(e))
            k, x = self.expr(e.args[0])
            if f == "np.ravel":  # flattening: a Series/DataFrame is already a flat list here
                if k != "V":
                    raise Unsupported("ravel of a scalar")
                return "V", x
            if f == "np.mean":
                if k != "V":
                    raise Unsupported("mean of a scalar")
                return "S", f"(vmean {x})"
            if f == "np.sum":
                return ("S", f"(vsum {x})") if k == "V" else ("S", x)  # np.sum of a scalar is that scalar
            if f == "np.square":
                return ("V", f"(vsquare {x})") if k == "V" else ("S", f"({x} * {x})")
            if f == "np.sqrt":
                self.classes.add("HasSqrt")
                return ("V", f"(vsqrt {x})") if k == "V" else ("S", f"(HasSqrt.sqrt {x})")
            if f == "np.abs":
                self.classes.add("HasAbs")
                return ("V", f"(vabs {x})") if k == "V" else ("S", f"(HasAbs.abs {x})")
            if f == "np.log":
                self.classes.add("HasLog")
                return ("V", f"(vlog {x})") if k == "V" else ("S", f"(HasLog.log {x})")
            raise Unsupported("function " + f)
        raise Unsupported(ast.unparse(e))


def translate_loss(fn: ast.FunctionDef) -> tuple[str, list[str]]:
    args = [a.arg for a in fn.args.args]
    if args != ["y_pred", "y_true"] or fn.args.kwonlyargs or fn.args.vararg or fn.args.kwarg:
        raise Unsupported(f"{fn.name}: signature {args}")
    tr = Tr(args)
    body = [s for s in fn.body if not (isinstance(s, ast.Expr) and isinstance(s.value, ast.Constant))]
    for st in body[:-1]:
        if (isinstance(st, ast.Assign) and len(st.targets) == 1 and isinstance(st.targets[0], ast.Name)
                and ast.unparse(st.value) == "np.linalg.norm"):
            tr.alias[st.targets[0].id] = "np.linalg.norm"
        else:
            raise Unsupported(f"{fn.name}: statement {ast.unparse(st)}")
    if not isinstance(body[-1], ast.Return) or body[-1].value is None:
        raise Unsupported(f"{fn.name}: last statement is not a return")
    kind, lean = tr.expr(body[-1].value)
    if kind != "S":
        raise Unsupported(f"{fn.name}: returns a vector")
    cls = "".join(f" [{c} α]" for c in sorted(tr.classes))
    src = ast.unparse(body[-1].value)
    text = (f"/-- `{src}` -/\n"
            f"def {fn.name} {{α : Type}} {BASE}{cls} (y_pred y_true : List α) : α :=\n  {lean}\n")
    return text, sorted(tr.classes)


SETTINGS_EXPECT = {
    "mean": "return self.data.mean()",
    "scale": ["return self.data.std()",
              "scale = self.data.std()\nif np.ndim(scale) == 0:\n    return scale if scale > 0 else 1.0\n"
              "return scale.where(scale > 0, 1.0)"],
    "data_scaled": "return (self.data - self.mean) / self.scale",
    "loss": ("if self.standard_scale:\n    return self.loss_fn(self.data_scaled, (prediction - self.mean) / self.scale)\n"
             "return self.loss_fn(self.data, prediction)"),
}


def check_settings(src: str) -> bool:
    """verifies the wrapper verbatim; returns whether `scale` guards a non-positive spread"""
    tree = ast.parse(src)
    cls = next((n for n in tree.body if isinstance(n, ast.ClassDef) and n.name == "_Settings"), None)
    if cls is None:
        raise Unsupported("_Settings not found")
    fns = {n.name: n for n in cls.body if isinstance(n, ast.FunctionDef)}
    for name, want in SETTINGS_EXPECT.items():
        if name not in fns:
            raise Unsupported(f"_Settings.{name} not found")
        body = [s for s in fns[name].body if not (isinstance(s, ast.Expr) and isinstance(s.value, ast.Constant))]
        got = "\n".join(ast.unparse(s) for s in body)
        if isinstance(want, list):
            if got not in want:
                raise Unsupported(f"_Settings.{name} changed:\n{got}")
            guard = want.index(got) == 1
        elif got != want:
            raise Unsupported(f"_Settings.{name} changed:\n{got}")
    return guard


def check_routines(src: str) -> dict:
    """default of as_deepcopy / standard_scale / loss_fn and the `if as_deepcopy: model = deepcopy(model)` line"""
    tree = ast.parse(src)
    out = {}
    for name in ("steady_state", "time_course", "protocol_time_course"):
        fn = next((n for n in tree.body if isinstance(n, ast.FunctionDef) and n.name == name), None)
        if fn is None:
            raise Unsupported(f"fit.{name} not found")
        kw = {a.arg: ast.unparse(d) for a, d in zip(fn.args.kwonlyargs, fn.args.kw_defaults) if d is not None}
        body = [s for s in fn.body if not (isinstance(s, ast.Expr) and isinstance(s.value, ast.Constant))]
        first = ast.unparse(body[0])
        if first != "if as_deepcopy:\n    model = deepcopy(model)":
            raise Unsupported(f"fit.{name}: first statement is\n{first}")
        if kw.get("as_deepcopy") != "True":
            raise Unsupported(f"fit.{name}: as_deepcopy default {kw.get('as_deepcopy')}")
        out[name] = kw.get("loss_fn", "?")
    out["sets_best"] = sets_best(tree)
    return out


SET_BEST_BODY = ("p_names = model.get_parameter_names()\nv_names = model.get_variable_names()\n"
                 "model.update_parameters({k: v for k, v in parameters.items() if k in p_names})\n"
                 "model.update_variables({k: v for k, v in parameters.items() if k in v_names})")


def sets_best(tree: ast.Module) -> bool:
    """does the success branch of all three fit routines start with `_set_best(model, parameters)` (and is `_set_best`
    the assignment of the reported values through the parameter / variable names)?  none of them: False (pinned tree);
    some but not all, or another `_set_best`: refuse"""
    found = []
    for name in ("steady_state", "time_course", "protocol_time_course"):
        fn = next(n for n in tree.body if isinstance(n, ast.FunctionDef) and n.name == name)
        m = fn.body[-1]
        if not (isinstance(m, ast.Match) and ast.unparse(m.subject) == "minimizer(fn, p0, {} if bounds is None else bounds).value"):
            raise Unsupported(f"fit.{name}: does not end with `match minimizer(fn, p0, ...).value`")
        case = m.cases[0]
        if ast.unparse(case.pattern) != "OptimisationState(parameters, residual)":
            raise Unsupported(f"fit.{name}: first case is {ast.unparse(case.pattern)}")
        body = [ast.unparse(x) for x in case.body]
        ret = "return Result(Fit(model=model, best_pars=parameters, loss=residual))"
        if body == [ret]:
            found.append(False)
        elif body == ["_set_best(model, parameters)", ret]:
            found.append(True)
        else:
            raise Unsupported(f"fit.{name}: success branch is\n" + "\n".join(body))
        if ast.unparse(m.cases[1].pattern) != "_ as e" or [ast.unparse(x) for x in m.cases[1].body] != ["return Result(e)"]:
            raise Unsupported(f"fit.{name}: failure branch changed")
    if not any(found):
        return False
    if not all(found):
        raise Unsupported("_set_best is called by some fit routines only")
    fn = next((n for n in tree.body if isinstance(n, ast.FunctionDef) and n.name == "_set_best"), None)
    if fn is None or [a.arg for a in fn.args.args] != ["model", "parameters"]:
        raise Unsupported("_set_best not found / signature")
    body = [s for s in fn.body if not (isinstance(s, ast.Expr) and isinstance(s.value, ast.Constant))]
    if "\n".join(ast.unparse(x) for x in body) != SET_BEST_BODY:
        raise Unsupported("_set_best changed:\n" + "\n".join(ast.unparse(x) for x in body))
    return True


def default_box(src: str):
    """the boxes LocalScipyMinimizer.__call__ hands to scipy -> (lo, hi, only_if_inside):
    `bounds=[bounds.get(name, (lo, hi)) for name in p0]` (pinned: the default box for every name without bounds) or, with
    `default = (lo, hi)` before it, `bounds=[bounds.get(name, default if default[0] <= value <= default[1] else (None, None))
    for name, value in p0.items()]` (the default box only for a start value inside it; otherwise no box)"""
    tree = ast.parse(src)
    cls = next((n for n in tree.body if isinstance(n, ast.ClassDef) and n.name == "LocalScipyMinimizer"), None)
    if cls is None:
        raise Unsupported("LocalScipyMinimizer not found")
    call = next((n for n in cls.body if isinstance(n, ast.FunctionDef) and n.name == "__call__"), None)
    if call is None:
        raise Unsupported("LocalScipyMinimizer.__call__ not found")
    for node in ast.walk(call):
        if isinstance(node, ast.Call) and ast.unparse(node.func) == "minimize":
            kw = {k.arg: k.value for k in node.keywords}
            b = kw.get("bounds")
            if ast.unparse(kw.get("x0")) != "list(p0.values())":
                raise Unsupported("x0 is not list(p0.values())")
            if not (isinstance(b, ast.ListComp) and len(b.generators) == 1 and not b.generators[0].ifs
                    and isinstance(b.elt, ast.Call) and ast.unparse(b.elt.func) == "bounds.get" and len(b.elt.args) == 2):
                raise Unsupported("bounds= of the minimize call changed shape: " + (ast.unparse(b) if b is not None else "missing"))
            gen = b.generators[0]
            if (ast.unparse(gen.iter) == "p0" and isinstance(gen.target, ast.Name) and ast.unparse(b.elt.args[0]) == gen.target.id):
                lo, hi = ast.literal_eval(b.elt.args[1])
                return Fraction(repr(float(lo))), Fraction(repr(float(hi))), False
            if (ast.unparse(gen.iter) == "p0.items()" and isinstance(gen.target, ast.Tuple) and len(gen.target.elts) == 2
                    and all(isinstance(e, ast.Name) for e in gen.target.elts)):
                nm, val = (e.id for e in gen.target.elts)
                d = ast.unparse(b.elt.args[1])
                dname = d.split(" ", 1)[0]
                if ast.unparse(b.elt.args[0]) != nm or d != f"{dname} if {dname}[0] <= {val} <= {dname}[1] else (None, None)":
                    raise Unsupported("default of bounds.get: " + d)
                assign = next((st for st in call.body if isinstance(st, ast.Assign) and ast.unparse(st.targets[0]) == dname), None)
                if assign is None:
                    raise Unsupported(f"no `{dname} = (lo, hi)` before the minimize call")
                lo, hi = ast.literal_eval(assign.value)
                return Fraction(repr(float(lo))), Fraction(repr(float(hi))), True
            raise Unsupported("bounds= of the minimize call changed shape: " + ast.unparse(b))
    raise Unsupported("no minimize(...) call in LocalScipyMinimizer.__call__")


def update_order(src: str) -> list[str]:
    """the first lines of the three residual functions, as blocks in source order: "y0" (`if (y0 := settings.y0) is not
    None: model.update_variables(y0)`), "pars" (`for p in settings.p_names: model.update_parameter(p, updates[p])`), "vars"
    (`for v in settings.v_names: model.update_variable(v, updates[v])`); loop-variable names are free; all three functions must
    agree; any other statement before the simulation refuses"""
    tree = ast.parse(src)
    orders = []
    for name in ("steady_state_residual", "time_course_residual", "protocol_time_course_residual"):
        fn = next((n for n in tree.body if isinstance(n, ast.FunctionDef) and n.name == name), None)
        if fn is None:
            raise Unsupported(f"{name} not found")
        body = [s for s in fn.body if not (isinstance(s, ast.Expr) and isinstance(s.value, ast.Constant))]
        if ast.unparse(body[0]) != "model = settings.model":
            raise Unsupported(f"{name}: does not start with `model = settings.model`")
        order = []
        for st in body[1:]:
            if isinstance(st, ast.If) and not st.orelse and ast.unparse(st.test) == "(y0 := settings.y0) is not None" \
                    and [ast.unparse(x) for x in st.body] == ["model.update_variables(y0)"]:
                order.append("y0")
            elif isinstance(st, ast.For) and not st.orelse and isinstance(st.target, ast.Name) and len(st.body) == 1:
                v = st.target.id
                it, b = ast.unparse(st.iter), ast.unparse(st.body[0])
                if it == "settings.p_names" and b == f"model.update_parameter({v}, updates[{v}])":
                    order.append("pars")
                elif it == "settings.v_names" and b == f"model.update_variable({v}, updates[{v}])":
                    order.append("vars")
                else:
                    raise Unsupported(f"{name}: loop `{ast.unparse(st)[:80]}`")
            else:
                break  # the simulation starts here
        if sorted(order) != ["pars", "vars", "y0"]:
            raise Unsupported(f"{name}: update blocks {order}")
        orders.append(order)
    if orders[0] != orders[1] or orders[0] != orders[2]:
        raise Unsupported(f"the residual functions update the model in different orders: {orders}")
    return orders[0]


def global_box(src: str, lo, hi) -> bool:
    """GlobalScipyMinimizer.__call__: `box = [bounds.get(name, (lo, hi)) for name in p0]` with the local minimiser's default
    box, handed to differential_evolution / shgo / dual_annealing / direct -> True; the `bounds` dict handed on as it
    is (pinned tree: those four methods raise) -> False; anything else refuses"""
    tree = ast.parse(src)
    cls = next((n for n in tree.body if isinstance(n, ast.ClassDef) and n.name == "GlobalScipyMinimizer"), None)
    call = None if cls is None else next((n for n in cls.body if isinstance(n, ast.FunctionDef) and n.name == "__call__"), None)
    if call is None:
        raise Unsupported("GlobalScipyMinimizer.__call__ not found")
    passed = {}
    for node in ast.walk(call):
        if isinstance(node, ast.Call) and ast.unparse(node.func) in ("differential_evolution", "shgo", "dual_annealing", "direct"):
            if len(node.args) != 2 or node.keywords or ast.unparse(node.args[0]) != "res_fn":
                raise Unsupported("global call " + ast.unparse(node))
            passed[ast.unparse(node.func)] = ast.unparse(node.args[1])
    if len(passed) != 4:
        raise Unsupported(f"global methods found: {sorted(passed)}")
    if set(passed.values()) == {"bounds"}:
        return False
    if len(set(passed.values())) != 1:
        raise Unsupported(f"global methods get {passed}")
    (local,) = set(passed.values())  # whatever the local list of boxes is called
    for st in call.body:
        if isinstance(st, ast.Assign) and len(st.targets) == 1 and ast.unparse(st.targets[0]) == local:
            b = st.value
            if (isinstance(b, ast.ListComp) and len(b.generators) == 1 and not b.generators[0].ifs
                    and ast.unparse(b.generators[0].iter) == "p0" and isinstance(b.generators[0].target, ast.Name)
                    and isinstance(b.elt, ast.Call) and ast.unparse(b.elt.func) == "bounds.get" and len(b.elt.args) == 2
                    and ast.unparse(b.elt.args[0]) == b.generators[0].target.id):
                glo, ghi = ast.literal_eval(b.elt.args[1])
                if (Fraction(repr(float(glo))), Fraction(repr(float(ghi)))) != (lo, hi):
                    raise Unsupported("the global minimiser's default box differs from the local one's")
                return True
            raise Unsupported(f"{local} = " + ast.unparse(b))
    raise Unsupported(f"no `{local} = ...` in GlobalScipyMinimizer.__call__")


BASINHOPPING_KW = "{'bounds': [bounds.get(name, (None, None)) for name in p0]} if bounds else None"


def basinhopping_bounded(src: str) -> bool:
    """does the basinhopping call hand the caller's bounds to its local steps (`minimizer_kwargs=` of exactly this
    form: the caller's box for a name that has one, no box otherwise, nothing at all without bounds)?  no such keyword
    -> False (pinned tree: bounds ignored); another form refuses"""
    tree = ast.parse(src)
    cls = next(n for n in tree.body if isinstance(n, ast.ClassDef) and n.name == "GlobalScipyMinimizer")
    call = next(n for n in cls.body if isinstance(n, ast.FunctionDef) and n.name == "__call__")
    for node in ast.walk(call):
        if isinstance(node, ast.Call) and ast.unparse(node.func) == "basinhopping":
            kw = {k.arg: k.value for k in node.keywords}
            if ast.unparse(kw.get("x0")) != "list(p0.values())":
                raise Unsupported("basinhopping: x0 is not list(p0.values())")
            if "minimizer_kwargs" not in kw:
                return False
            if ast.unparse(kw["minimizer_kwargs"]) != BASINHOPPING_KW:
                raise Unsupported("basinhopping: minimizer_kwargs = " + ast.unparse(kw["minimizer_kwargs"]))
            return True
    raise Unsupported("no basinhopping(...) call in GlobalScipyMinimizer.__call__")


def render(repo: Path) -> str:
    losses_src = (repo / "src/mxlpy/fit/losses.py").read_text()
    tree = ast.parse(losses_src)
    fns = [n for n in tree.body if isinstance(n, ast.FunctionDef)]
    parts, names, needs = [], [], {}
    for fn in fns:
        text, cls = translate_loss(fn)
        parts.append(text)
        names.append(fn.name)
        needs[fn.name] = cls
    guard = check_settings((repo / "src/mxlpy/fit/abstract.py").read_text())
    defaults = check_routines((repo / "src/mxlpy/fit/routines.py").read_text())
    lo, hi, inside = default_box((repo / "src/mxlpy/minimizers/_scipy.py").read_text())
    gbox = global_box((repo / "src/mxlpy/minimizers/_scipy.py").read_text(), lo, hi)
    uorder = update_order((repo / "src/mxlpy/fit/routines.py").read_text())
    bhb = basinhopping_bounded((repo / "src/mxlpy/minimizers/_scipy.py").read_text())
    shipped = ", ".join(f'"{n}"' for n in sorted(names))
    rat_ok = [n for n in names if set(needs[n]) <= {"HasAbs"}]
    rat_cases = "\n".join(f'  | "{n}" => some ({n} d p)' for n in sorted(rat_ok))
    return (
        "-- GENERATED by translate/c20.py from src/mxlpy/fit/losses.py, fit/abstract.py (_Settings), fit/routines.py; do not edit\n"
        "import MxlVerif.Model.C20\n"
        "namespace Mxl.C20.Gen\nopen Mxl.C20\n\n"
        + "\n".join(parts)
        + "\n/-- every function defined in fit/losses.py -/\n"
        f"def shipped : List String := [{shipped}]\n\n"
        "/-- `_Settings.scale` takes a spread that is not positive as 1 -/\n"
        f"def scaleGuard : Bool := {'true' if guard else 'false'}\n\n"
        "/-- `_Settings.loss` (checked verbatim against fit/abstract.py): data first, prediction second, both scaled\n"
        "with the data's mean and `_Settings.scale` -/\n"
        f"def settingsLoss {{α : Type}} [Sub α] [Div α] [LT α] [DecidableLT α] [NatCast α]\n"
        "    (lossFn : List α → List α → α) (standardScale : Bool) (mean scale : α) (data prediction : List α) : α :=\n"
        "  scaledLoss scaleGuard lossFn standardScale mean scale data prediction\n\n"
        "/-- `as_deepcopy: bool = True` and `if as_deepcopy: model = deepcopy(model)` open all three fit routines -/\n"
        "def fitCopiesByDefault : Bool := true\n"
        f"/-- default `loss_fn` of steady_state / time_course / protocol_time_course -/\n"
        f"def defaultLoss : List String := [{', '.join(chr(34) + defaults[k] + chr(34) for k in ('steady_state', 'time_course', 'protocol_time_course'))}]\n\n"
        "/-- the success branch of the three fit routines assigns the reported values to the returned model -/\n"
        f"def fitSetsBest : Bool := {'true' if defaults['sets_best'] else 'false'}\n\n"
        "/-- the box `LocalScipyMinimizer` applies to a parameter without explicit bounds -/\n"
        f"def defaultBox : Rat × Rat := (({lo.numerator} : Rat) / {lo.denominator}, ({hi.numerator} : Rat) / {hi.denominator})\n\n"
        "/-- the order in which every residual function writes into the model before it simulates -/\n"
        f"def updateOrder : List String := [{', '.join(chr(34) + x + chr(34) for x in uorder)}]\n\n"
        "/-- basinhopping's local steps get the caller's boxes (names without one stay free; no bounds, no boxes) -/\n"
        f"def basinhoppingBounded : Bool := {'true' if bhb else 'false'}\n\n"
        "/-- GlobalScipyMinimizer hands scipy one box per entry of p0 (the caller's, or the default box) -/\n"
        f"def globalUsesBox : Bool := {'true' if gbox else 'false'}\n\n"
        "/-- LocalScipyMinimizer applies its default box only to a start value that lies inside it (no box otherwise) -/\n"
        f"def localBoxOnlyIfInside : Bool := {'true' if inside else 'false'}\n\n"
        "/-- the losses that need no sqrt/log, evaluated at Rat by the driver -/\n"
        "def evalRat (name : String) (d p : List Rat) : Option Rat :=\n  match name with\n"
        + rat_cases + "\n  | _ => none\n\n"
        "end Mxl.C20.Gen\n"
    )


def write_if_changed(path: Path, text: str) -> bool:
    if path.exists() and hashlib.sha1(path.read_bytes()).digest() == hashlib.sha1(text.encode()).digest():
        return False
    path.parent.mkdir(parents=True, exist_ok=True)
    path.write_text(text)
    return True


def generate(repo: Path, outdir: Path) -> None:
    out = Path(outdir) / "C20Losses.lean"
    try:
        text = render(Path(repo))
    except Exception as e:
        write_if_changed(out, "-- GENERATED by translate/c20.py: UNSUPPORTED source shape\nimport MxlVerif.Model.C20\n"
                              "namespace Mxl.C20.Gen\n"
                              f"/- {str(e)[:600].replace('-/', '- /')} -/\n"
                              "def shipped : List String := []\n"
                              "def defaultBox : Rat × Rat := (0, 0)\n"
                              "def scaleGuard : Bool := false\n"
                              "def fitSetsBest : Bool := false\n"
                              "def globalUsesBox : Bool := false\n"
                              "def updateOrder : List String := []\n"
                              "def basinhoppingBounded : Bool := false\n"
                              "def localBoxOnlyIfInside : Bool := false\n"
                              "def settingsLoss {α : Type} [Sub α] [Div α] [LT α] [DecidableLT α] [NatCast α]\n"
                              "    (lossFn : List α → List α → α) (standardScale : Bool) (mean scale : α) (data prediction : List α) : α :=\n"
                              "  scaledLoss false lossFn standardScale mean scale data prediction\n"
                              "def evalRat (name : String) (d p : List Rat) : Option Rat := none\n"
                              "end Mxl.C20.Gen\n")
        raise
    write_if_changed(out, text)


if __name__ == "__main__":
    import os
    root = Path(__file__).resolve().parent.parent
    generate(Path(os.environ.get("MXLPY_REPO", "/repo")), root / "lean" / "MxlVerif" / "MxlVerif" / "Generated")
    print((root / "lean/MxlVerif/MxlVerif/Generated/C20Losses.lean").read_text())
