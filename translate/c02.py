"""C02 translator: the iteration cap of `_sort_dependencies` (model.py) as a Lean function of
`len(elements)`, so that the theorem "the cap never rejects an acyclic graph" is re-checked against
what the code says now."""
from __future__ import annotations

import ast
from pathlib import Path

from .common import HEADER, Unsupported, find_function, write_if_changed


_ELEMENTS = "elements"


def nat_expr(e: ast.expr) -> str:
    if isinstance(e, ast.Constant) and isinstance(e.value, int) and e.value >= 0:
        return str(e.value)
    if (isinstance(e, ast.Call) and isinstance(e.func, ast.Name) and e.func.id == "len"
            and len(e.args) == 1 and isinstance(e.args[0], ast.Name) and e.args[0].id == _ELEMENTS):
        return "n"
    if isinstance(e, ast.BinOp):
        l, r = nat_expr(e.left), nat_expr(e.right)
        if isinstance(e.op, ast.Pow):
            return f"({l} ^ {r})"
        if isinstance(e.op, ast.Mult):
            return f"({l} * {r})"
        if isinstance(e.op, ast.Add):
            return f"({l} + {r})"
        if isinstance(e.op, ast.FloorDiv):
            return f"({l} / {r})"
    raise Unsupported(f"iteration cap expression {ast.dump(e)}")


def _names_len_arg(fn: ast.FunctionDef) -> str:
    """the parameter holding the element list (second positional parameter)"""
    pos = [a.arg for a in fn.args.args]
    if len(pos) < 2:
        raise Unsupported("_sort_dependencies no longer takes (available, elements)")
    return pos[1]


def generate(repo: Path, outdir: Path) -> bool:
    src = repo / "src" / "mxlpy" / "model.py"
    fn = find_function(ast.parse(src.read_text()), "_sort_dependencies")
    global _ELEMENTS
    _ELEMENTS = _names_len_arg(fn)
    # the failure branch: `if <counter> > <cap>: … raise CircularDependencyError(…)` — the locals are found by this USE,
    # so renaming them does not disturb the translation
    guards = []
    for n in ast.walk(fn):
        if (isinstance(n, ast.If) and isinstance(n.test, ast.Compare) and len(n.test.ops) == 1
                and isinstance(n.test.left, ast.Name) and isinstance(n.test.comparators[0], ast.Name)
                and any(isinstance(r, ast.Raise) and "CircularDependencyError" in ast.unparse(r) for r in ast.walk(n))):
            guards.append(n.test)
    if len(guards) != 1:
        raise Unsupported(f"expected exactly one `if <counter> > <cap>` guarding CircularDependencyError, found {len(guards)}")
    if not isinstance(guards[0].ops[0], ast.Gt):
        raise Unsupported(f"the cap test is no longer `counter > cap`: {ast.unparse(guards[0])}")
    counter, cap = guards[0].left.id, guards[0].comparators[0].id
    incs = [n for n in ast.walk(fn) if isinstance(n, ast.AugAssign) and isinstance(n.target, ast.Name) and n.target.id == counter]
    if not (len(incs) == 1 and isinstance(incs[0].op, ast.Add) and isinstance(incs[0].value, ast.Constant) and incs[0].value.value == 1):
        raise Unsupported("the iteration counter is no longer incremented by exactly 1 per loop iteration")
    inits = [n for n in ast.walk(fn) if isinstance(n, ast.Assign) and len(n.targets) == 1
             and isinstance(n.targets[0], ast.Name) and n.targets[0].id == counter]
    if not (len(inits) == 1 and isinstance(inits[0].value, ast.Constant) and inits[0].value.value == 0):
        raise Unsupported("the iteration counter no longer starts at 0")
    caps = [n for n in ast.walk(fn) if isinstance(n, ast.Assign) and len(n.targets) == 1
            and isinstance(n.targets[0], ast.Name) and n.targets[0].id == cap]
    if len(caps) != 1:
        raise Unsupported(f"expected exactly one assignment to the cap, found {len(caps)}")
    text = (HEADER.format(src="src/mxlpy/model.py::_sort_dependencies", tr="c02.py")
            + "namespace Mxl.Generated.C02\n\n"
            + f"/-- `max_iterations = {ast.unparse(caps[0].value)}` -/\n"
            + f"def maxIterations (n : Nat) : Nat := {nat_expr(caps[0].value)}\n\n"
            + "end Mxl.Generated.C02\n")
    return write_if_changed(outdir / "C02.lean", text)
