"""C02 translator: the iteration cap of `_sort_dependencies` (model.py) as a Lean function of
`len(elements)`, so that the theorem "the cap never rejects an acyclic graph" is re-checked against
what the code says now."""
from __future__ import annotations

import ast
from pathlib import Path

from .common import HEADER, Unsupported, find_function, write_if_changed


def nat_expr(e: ast.expr) -> str:
    if isinstance(e, ast.Constant) and isinstance(e.value, int) and e.value >= 0:
        return str(e.value)
    if (isinstance(e, ast.Call) and isinstance(e.func, ast.Name) and e.func.id == "len"
            and len(e.args) == 1 and isinstance(e.args[0], ast.Name) and e.args[0].id == "elements"):
        return "n"
    if isinstance(e, ast.BinOp):
        l, r = nat_expr(e.left), nat_expr(e.right)
        if isinstance(e.op, ast.Pow):
            return f"({l} ^ {r})"
        if isinstance(e.op, ast.Mult):
            return f"({l} * {r})"
        if isinstance(e.op, ast.Add):
            return f"({l} + {r})"
        if isinstance(e.op, ast.FloorDiv):
            return f"({l} / {r})"
    raise Unsupported(f"iteration cap expression {ast.dump(e)}")


def generate(repo: Path, outdir: Path) -> bool:
    src = repo / "src" / "mxlpy" / "model.py"
    fn = find_function(ast.parse(src.read_text()), "_sort_dependencies")
    caps = [n for n in ast.walk(fn) if isinstance(n, ast.Assign) and len(n.targets) == 1
            and isinstance(n.targets[0], ast.Name) and n.targets[0].id == "max_iterations"]
    if len(caps) != 1:
        raise Unsupported(f"expected exactly one assignment to max_iterations, found {len(caps)}")
    # the comparison that trips the cap must still be `i > max_iterations`
    cmps = [n for n in ast.walk(fn) if isinstance(n, ast.Compare) and isinstance(n.left, ast.Name) and n.left.id == "i"]
    if not (len(cmps) == 1 and isinstance(cmps[0].ops[0], ast.Gt) and isinstance(cmps[0].comparators[0], ast.Name)
            and cmps[0].comparators[0].id == "max_iterations"):
        raise Unsupported("the cap test is no longer `i > max_iterations`")
    text = (HEADER.format(src="src/mxlpy/model.py::_sort_dependencies", tr="c02.py")
            + "namespace Mxl.Generated.C02\n\n"
            + f"/-- `max_iterations = {ast.unparse(caps[0].value)}` -/\n"
            + f"def maxIterations (n : Nat) : Nat := {nat_expr(caps[0].value)}\n\n"
            + "end Mxl.Generated.C02\n")
    return write_if_changed(outdir / "C02.lean", text)
