"""Runs every translator (used by tools/setup.py); each check also runs its own through ctx.translate."""
import os as _os
import sys as _sys

if _os.path.exists("/venv/bin/python") and _os.path.realpath(_sys.executable) != _os.path.realpath("/venv/bin/python") and not _os.environ.get("MXLVERIF_NO_REEXEC"):
    # the repository's sources use Python 3.12 syntax; parse them with the interpreter that runs them
    _os.environ["MXLVERIF_NO_REEXEC"] = "1"
    _os.execv("/venv/bin/python", ["/venv/bin/python", *_sys.argv])

import importlib
import pkgutil
import sys
from pathlib import Path

ROOT = Path(__file__).resolve().parent.parent
sys.path.insert(0, str(ROOT))
import os  # noqa: E402

REPO = Path(os.environ.get("MXLPY_REPO", "/repo"))
OUT = ROOT / "lean" / "MxlVerif" / "MxlVerif" / "Generated"


def main() -> int:
    import translate

    rc = 0
    for m in pkgutil.iter_modules(translate.__path__):
        if m.name in ("common", "run_all"):
            continue
        mod = importlib.import_module(f"translate.{m.name}")
        if hasattr(mod, "generate"):
            try:
                changed = mod.generate(REPO, OUT)
                print(f"translate.{m.name}: {'rewritten' if changed else 'unchanged'}")
            except Exception as e:  # noqa: BLE001
                print(f"translate.{m.name}: FAILED {e!r}")
                rc = 1
    return rc


if __name__ == "__main__":
    sys.exit(main())
