"""C01/C02/C13 translator: the *assembly facts* of `Model._create_cache`, `Model._get_args` and
`Model.get_arg_names` (model.py) that the hand-written Lean model `Model/Core.lean` / `Model/Queries.lean`
depends on, regenerated from the current source:

* which containers are united, and in which order, into `to_sort`, `available`, `dependent`
  (`_create_cache`), `args` and `containers` (`_get_args`)  ->  generic combinators over an abstract union;
* the (flag, group) sequence of `get_arg_names`.

`Props/C01Tie.lean` proves that the model's definitions ARE these combinators (by `rfl` / `simp`), so a source
change (a container dropped from `to_sort`, operands swapped, a flag consulting another group, groups reordered)
breaks a proof obligation; anything outside the recognised subset makes the translator refuse."""
from __future__ import annotations

import ast
from pathlib import Path

from .common import HEADER, Unsupported, find_function, write_if_changed

# source expressions with a fixed role (attributes of self / the cache); LOCAL names get their role from how they
# are defined (see local_roles), so renaming a local does not disturb the translation
FIXED_ROLES = {
    "self._data": "data",
    "self._derived": "derived",
    "self._reactions": "rxns",
    "self._surrogates": "surs",
}


def _comp_role(e: ast.expr) -> str | None:
    """{k: x for k, v in self._parameters.items() if [not] isinstance(x := v.value, InitialAssignment)} -> role"""
    if not (isinstance(e, ast.DictComp) and len(e.generators) == 1 and len(e.generators[0].ifs) == 1):
        return None
    g = e.generators[0]
    src = ast.unparse(g.iter)
    cond = g.ifs[0]
    neg = isinstance(cond, ast.UnaryOp) and isinstance(cond.op, ast.Not)
    call = cond.operand if neg else cond
    if not (isinstance(call, ast.Call) and isinstance(call.func, ast.Name) and call.func.id == "isinstance"
            and len(call.args) == 2 and ast.unparse(call.args[1]) == "InitialAssignment"):
        return None
    tested = ast.unparse(call.args[0])
    if src == "self._parameters.items()" and tested.endswith("v.value)"):
        return "pars" if neg else "ia_pars"
    if src == "self._variables.items()" and tested.endswith("v.initial_value)"):
        return "vars" if neg else "ia_vars"
    return None


def local_roles(fn: ast.FunctionDef) -> dict[str, str]:
    roles: dict[str, str] = {}
    for n in ast.walk(fn):
        if isinstance(n, ast.Assign) and len(n.targets) == 1 and isinstance(n.targets[0], ast.Name):
            tgt, val = n.targets[0].id, n.value
        elif isinstance(n, ast.AnnAssign) and isinstance(n.target, ast.Name) and n.value is not None:
            tgt, val = n.target.id, n.value
        else:
            continue
        r = _comp_role(val)
        if r in ("pars", "vars"):
            roles[tgt] = r
        elif (isinstance(val, ast.BinOp) and isinstance(val.op, ast.BitOr)
              and sorted([str(_comp_role(val.left)), str(_comp_role(val.right))]) == ["ia_pars", "ia_vars"]):
            # the model's `omUnion (iaOf c.vars) (iaOf c.pars)`; the two have distinct keys, either order
            roles[tgt] = "ias"
    return roles


def leaf_role(e: ast.expr, roles: dict[str, str]) -> str:
    # set(x) / dict(x): a copy or the key set of x — same role
    if (isinstance(e, ast.Call) and isinstance(e.func, ast.Name) and e.func.id in ("set", "dict")
            and len(e.args) == 1 and not e.keywords):
        return leaf_role(e.args[0], roles)
    if isinstance(e, ast.Set) and len(e.elts) == 1 and isinstance(e.elts[0], ast.Constant) and e.elts[0].value == "time":
        return "time"
    if (isinstance(e, ast.Dict) and len(e.keys) == 1 and isinstance(e.keys[0], ast.Constant)
            and e.keys[0].value == "time" and isinstance(e.values[0], ast.Constant) and e.values[0].value == 0.0):
        return "time"
    src = ast.unparse(e)
    if src in FIXED_ROLES:
        return FIXED_ROLES[src]
    if src in roles:
        return roles[src]
    raise Unsupported(f"union operand {src!r} is not a recognised container")


def union_term(e: ast.expr, roles) -> str:
    """`a | b | c` (any parenthesisation) -> `u (u a b) c` following the source tree"""
    if isinstance(e, ast.BinOp) and isinstance(e.op, ast.BitOr):
        return f"(u {union_term(e.left, roles)} {union_term(e.right, roles)})"
    return leaf_role(e, roles)


def leaves(e: ast.expr, roles) -> list[str]:
    if isinstance(e, ast.BinOp) and isinstance(e.op, ast.BitOr):
        return leaves(e.left, roles) + leaves(e.right, roles)
    return [leaf_role(e, roles)]


def the_assign(fn: ast.FunctionDef, target: str) -> ast.expr:
    found = []
    for n in ast.walk(fn):
        if isinstance(n, ast.Assign) and len(n.targets) == 1 and isinstance(n.targets[0], ast.Name) and n.targets[0].id == target:
            found.append(n.value)
        elif isinstance(n, ast.AnnAssign) and isinstance(n.target, ast.Name) and n.target.id == target and n.value is not None:
            found.append(n.value)
    if len(found) != 1:
        raise Unsupported(f"expected exactly one assignment to {target} in {fn.name}, found {len(found)}")
    return found[0]


def eval_loop(fn: ast.FunctionDef, over: str | None) -> tuple[str, str, str]:
    """the loop `for n in <order>: <X>[n].calculate_inpl(n, <Y>)` -> (order expr, X, Y); locals are found by this USE,
    not by their names"""
    hits = []
    for s in fn.body:
        if not (isinstance(s, ast.For) and isinstance(s.target, ast.Name) and len(s.body) == 1 and not s.orelse):
            continue
        st = s.body[0]
        if not (isinstance(st, ast.Expr) and isinstance(st.value, ast.Call)):
            continue
        c = st.value
        n = s.target.id
        if (isinstance(c.func, ast.Attribute) and c.func.attr == "calculate_inpl" and isinstance(c.func.value, ast.Subscript)
                and isinstance(c.func.value.value, ast.Name) and ast.unparse(c.func.value.slice) == n
                and len(c.args) == 2 and ast.unparse(c.args[0]) == n and isinstance(c.args[1], ast.Name) and not c.keywords):
            hits.append((ast.unparse(s.iter), c.func.value.value.id, c.args[1].id))
    if over is not None:
        hits = [h for h in hits if h[0] == over]
    if len(hits) != 1:
        raise Unsupported(f"{fn.name}: expected exactly one loop `for n in {over or '<order>'}: X[n].calculate_inpl(n, Y)`, found {len(hits)}")
    return hits[0]


def combinator(name: str, params: list[str], e: ast.expr, doc: str, roles) -> str:
    """the `|` chain as a union of its operands in CANONICAL order (`params`): the operand SET is what the obligation
    is about — the containers have pairwise distinct keys (`Model._ids`), so the order of the operands only changes
    dict insertion order, which no observable depends on (C02's order-independence theorems); a dropped, added or
    duplicated operand is refused"""
    used = leaves(e, roles)
    if sorted(used) != sorted(params):
        raise Unsupported(f"{name}: operands {used} are not exactly {params} (each once)")
    term = params[0]
    for q in params[1:]:
        term = f"(u {term} {q})"
    return (f"/-- `{doc}`: the union of {' | '.join(params)} in this order -/\n"
            f"def {name} {{α : Type}} (u : α → α → α) ({' '.join(params)} : α) : α :=\n  {term}\n\n")


# get_arg_names: the call that supplies a group -> group label
GROUP_OF_CALL = {
    "self.get_variable_names()": "variables",
    "self.get_parameter_names()": "parameters",
    "self.get_derived_variable_names()": "derived_variables",
    "self.get_derived_parameter_names()": "derived_parameters",
    "self.get_reaction_names()": "reactions",
    "self.get_surrogate_output_names(include_fluxes=False)": "surrogate_variables",
    "self.get_surrogate_reaction_names()": "surrogate_fluxes",
    "self.get_readout_names()": "readouts",
}


def arg_groups(fn: ast.FunctionDef) -> list[tuple[str, str]]:
    out = []
    body = [s for s in fn.body if not (isinstance(s, ast.Expr) and isinstance(s.value, ast.Constant))]  # docstring
    if not (isinstance(body[0], ast.Assign) and ast.unparse(body[0]) == "names = []"):
        raise Unsupported("get_arg_names no longer starts with `names = []`")
    if not (isinstance(body[-1], ast.Return) and ast.unparse(body[-1]) == "return names"):
        raise Unsupported("get_arg_names no longer ends with `return names`")
    for st in body[1:-1]:
        if not (isinstance(st, ast.If) and isinstance(st.test, ast.Name) and not st.orelse and len(st.body) == 1
                and isinstance(st.body[0], ast.Expr) and isinstance(st.body[0].value, ast.Call)):
            raise Unsupported(f"get_arg_names: unexpected statement {ast.unparse(st)!r}")
        flag = st.test.id
        call = st.body[0].value
        target = ast.unparse(call.func)
        if len(call.args) != 1 or call.keywords:
            raise Unsupported(f"get_arg_names: unexpected call {ast.unparse(call)!r}")
        arg = call.args[0]
        if target == "names.append" and isinstance(arg, ast.Constant) and arg.value == "time":
            group = "time"
        elif target == "names.extend" and ast.unparse(arg) in GROUP_OF_CALL:
            group = GROUP_OF_CALL[ast.unparse(arg)]
        else:
            raise Unsupported(f"get_arg_names: unrecognised group {ast.unparse(call)!r}")
        out.append((flag, group))
    return out


# ---- the static/dynamic split of _create_cache ---------------------------------------------------------------

MEMBER_OF = {"self._reactions": "inReactions", "self._surrogates": "inSurrogates",
             "self._variables": "inVariables", "self._parameters": "inParameters"}


def bool_term(e: ast.expr, loopvar: str) -> str:
    if isinstance(e, ast.BoolOp):
        op = " || " if isinstance(e.op, ast.Or) else " && "
        return "(" + op.join(bool_term(v, loopvar) for v in e.values) + ")"
    if isinstance(e, ast.UnaryOp) and isinstance(e.op, ast.Not):
        return f"(!{bool_term(e.operand, loopvar)})"
    if (isinstance(e, ast.Compare) and len(e.ops) == 1 and isinstance(e.ops[0], ast.In)
            and isinstance(e.left, ast.Name) and e.left.id == loopvar and ast.unparse(e.comparators[0]) in MEMBER_OF):
        return MEMBER_OF[ast.unparse(e.comparators[0])]
    raise Unsupported(f"classification test {ast.unparse(e)!r} is not a boolean combination of `name in self._<container>`")


def classification(cc: ast.FunctionDef, order_var: str) -> str:
    """the loop that splits `order` into static and dynamic names -> `classifyKind`"""
    # which list is the dynamic one: the `dyn_order=` argument of the ModelCache(...) call
    dyn_var = None
    for n in ast.walk(cc):
        if isinstance(n, ast.Call) and ast.unparse(n.func) == "ModelCache":
            for k in n.keywords:
                if k.arg == "dyn_order" and isinstance(k.value, ast.Name):
                    dyn_var = k.value.id
    if dyn_var is None:
        raise Unsupported("ModelCache(dyn_order=<local>) not found in _create_cache")
    loops = [s for s in cc.body if isinstance(s, ast.For) and ast.unparse(s.iter) == order_var
             and len(s.body) == 1 and isinstance(s.body[0], ast.If)]
    if len(loops) != 1:
        raise Unsupported(f"expected exactly one classification loop over `{order_var}`, found {len(loops)}")
    loop = loops[0]
    n = loop.target.id

    def appended(body) -> str | None:
        if len(body) == 1 and isinstance(body[0], ast.Expr) and isinstance(body[0].value, ast.Call):
            c = body[0].value
            if (isinstance(c.func, ast.Attribute) and c.func.attr == "append" and isinstance(c.func.value, ast.Name)
                    and len(c.args) == 1 and ast.unparse(c.args[0]) == n):
                return c.func.value.id
        return None

    branches = []
    node = loop.body[0]
    static_var = None
    while True:
        tgt = appended(node.body)
        if tgt is None:
            raise Unsupported(f"classification branch {ast.unparse(node.test)!r} does more than append the name to one list")
        kind = "dynamic" if tgt == dyn_var else "static"
        if kind == "static":
            static_var = static_var or tgt
            if tgt != static_var:
                raise Unsupported("classification appends to more than two lists")
        branches.append((bool_term(node.test, n), kind))
        if len(node.orelse) == 1 and isinstance(node.orelse[0], ast.If) and appended(node.orelse[0].body) is not None:
            node = node.orelse[0]
            continue
        tail = node.orelse
        break
    # the final else: the derived quantity is static iff every argument is already a parameter name
    if not (len(tail) == 2 and isinstance(tail[0], ast.Assign) and isinstance(tail[0].targets[0], ast.Name)
            and ast.unparse(tail[0].value) == f"self._derived[{n}]" and isinstance(tail[1], ast.If)):
        raise Unsupported("the last classification branch no longer looks the derived quantity up in self._derived")
    dv = tail[0].targets[0].id
    test = tail[1].test
    if not (isinstance(test, ast.Call) and ast.unparse(test.func) == "all" and len(test.args) == 1
            and isinstance(test.args[0], ast.GeneratorExp)):
        raise Unsupported("the derived test is no longer all(<arg> in <parameter names> for <arg> in derived.args)")
    g = test.args[0]
    if not (len(g.generators) == 1 and ast.unparse(g.generators[0].iter) == f"{dv}.args" and not g.generators[0].ifs
            and isinstance(g.elt, ast.Compare) and len(g.elt.ops) == 1 and isinstance(g.elt.ops[0], ast.In)
            and ast.unparse(g.elt.left) == ast.unparse(g.generators[0].target) and isinstance(g.elt.comparators[0], ast.Name)):
        raise Unsupported("the derived test is no longer all(<arg> in <parameter names> for <arg> in derived.args)")
    apn = g.elt.comparators[0].id
    yes = sorted(ast.unparse(x) for x in tail[1].body)
    no = [ast.unparse(x) for x in tail[1].orelse]
    if static_var is None:
        raise Unsupported("no static branch in the classification")
    if yes != sorted([f"{static_var}.append({n})", f"{apn}.add({n})"]) or no != [f"{dyn_var}.append({n})"]:
        raise Unsupported("a parameter-only derived quantity is no longer (static, added to the parameter names) / else dynamic")
    # the parameter-name set must start as the set of ALL parameters (plain and assignment-defined)
    seed = the_assign(cc, apn)
    seen = 0
    while not (ast.unparse(seed) in ("set(self._parameters)", "set(self._parameters.keys())")):
        if (isinstance(seed, ast.Call) and isinstance(seed.func, ast.Name) and seed.func.id == "set" and len(seed.args) == 1
                and isinstance(seed.args[0], ast.Name)) and seen < 4:
            seed = the_assign(cc, seed.args[0].id)
            seen += 1
            continue
        if isinstance(seed, ast.Name) and seen < 4:
            seed = the_assign(cc, seed.id)
            seen += 1
            continue
        raise Unsupported(f"the parameter-name set no longer starts as set(self._parameters): {ast.unparse(seed)}")
    term = "Kind.derived"
    for cond, kind in reversed(branches):
        term = f"if {cond} then Kind.{kind} else {term}"
    return ("/-- how `_create_cache` files a sorted name before it looks at derived quantities -/\n"
            "inductive Kind where\n  | dynamic | static | derived\nderiving DecidableEq, Repr\n\n"
            "/-- the if / elif chain of the split loop (the last `else` = a derived quantity: static and added to the\n"
            "    parameter names iff all its arguments are parameter names, which start as ALL parameters) -/\n"
            "def classifyKind (inReactions inSurrogates inVariables inParameters : Bool) : Kind :=\n"
            f"  {term}\n\n")


def generate(repo: Path, outdir: Path) -> bool:
    src = repo / "src" / "mxlpy" / "model.py"
    tree = ast.parse(src.read_text())
    cc = find_function(tree, "_create_cache", "Model")
    ga = find_function(tree, "_get_args", "Model")
    gn = find_function(tree, "get_arg_names", "Model")
    text = (HEADER.format(src="src/mxlpy/model.py::Model._create_cache/_get_args/get_arg_names", tr="c01.py")
            + "namespace Mxl.Generated.C01Cache\n\n")
    # ---- _create_cache: the evaluation pass `for name in order: to_sort[name].calculate_inpl(name, dependent)`
    roles = local_roles(cc)
    order_var, to_sort_var, dependent_var = eval_loop(cc, None)
    # `order` must be what _sort_dependencies returned for (available, elements built from to_sort)
    order_val = the_assign(cc, order_var)
    if not (isinstance(order_val, ast.Call) and ast.unparse(order_val.func) == "_sort_dependencies"):
        raise Unsupported("the evaluation order of _create_cache is no longer the result of _sort_dependencies")
    kw = {k.arg: k.value for k in order_val.keywords}
    avail = kw.get("available", order_val.args[0] if order_val.args else None)
    elements = kw.get("elements", order_val.args[1] if len(order_val.args) > 1 else None)
    if not isinstance(avail, ast.Name) or elements is None:
        raise Unsupported("_sort_dependencies is no longer called with a local `available` and an `elements` list")
    if not (isinstance(elements, ast.ListComp) and len(elements.generators) == 1
            and ast.unparse(elements.generators[0].iter) == f"{to_sort_var}.items()"):
        raise Unsupported("the elements handed to _sort_dependencies are no longer built from the evaluated dict's items")
    text += combinator("toSortOf", ["ias", "derived", "rxns", "surs"], the_assign(cc, to_sort_var), "to_sort", roles)
    text += combinator("availableOf", ["pars", "vars", "data", "time"], the_assign(cc, avail.id), "available", roles)
    text += combinator("dependentOf", ["pars", "vars", "data", "time"], the_assign(cc, dependent_var), "dependent", roles)
    # ---- _get_args: `args = cache.all_parameter_values | variables | self._data; args["time"] = time;
    #                  for name in cache.dyn_order: containers[name].calculate_inpl(name, args); pop the data sets`
    pos = [a.arg for a in ga.args.args]
    if len(pos) < 3 or pos[0] != "self":
        raise Unsupported("_get_args no longer takes (self, variables, time, …)")
    state_par, time_par = pos[1], pos[2]
    cache_par = next((a.arg for a in ga.args.kwonlyargs + ga.args.args if a.arg == "cache"), None)
    if cache_par is None:
        raise Unsupported("_get_args no longer takes the cache")
    _, cont_var, args_var = eval_loop(ga, f"{cache_par}.dyn_order")
    groles = {f"{cache_par}.all_parameter_values": "allpars", state_par: "state"}
    text += combinator("argsOf", ["allpars", "state", "data"], the_assign(ga, args_var), "args", groles)
    text += combinator("containersOf", ["derived", "rxns", "surs"], the_assign(ga, cont_var), "containers", groles)
    gsrc = [ast.unparse(s) for s in ga.body]
    if f"{args_var}['time'] = {time_par}" not in gsrc:
        raise Unsupported("_get_args no longer sets args['time'] = time")
    if not any(isinstance(s, ast.For) and ast.unparse(s.iter) == "self._data" and len(s.body) == 1
               and ast.unparse(s.body[0]) == f"{args_var}.pop({s.target.id})" for s in ga.body if isinstance(s, ast.For)):
        raise Unsupported("_get_args no longer removes the data sets from the returned dict")
    text += classification(cc, order_var)
    groups = arg_groups(gn)
    text += ("/-- `get_arg_names`: (flag consulted, group appended) in the order of the method body -/\n"
             "def argGroups : List (String × String) :=\n  ["
             + ",\n   ".join(f'("{f}", "{g}")' for f, g in groups) + "]\n\n")
    text += "end Mxl.Generated.C01Cache\n"
    return write_if_changed(outdir / "C01Cache.lean", text)
