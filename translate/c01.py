"""C01/C02/C13 translator: the *assembly facts* of `Model._create_cache`, `Model._get_args` and
`Model.get_arg_names` (model.py) that the hand-written Lean model `Model/Core.lean` / `Model/Queries.lean`
depends on, regenerated from the current source:

* which containers are united, and in which order, into `to_sort`, `available`, `dependent`
  (`_create_cache`), `args` and `containers` (`_get_args`)  ->  generic combinators over an abstract union;
* the (flag, group) sequence of `get_arg_names`.

`Props/C01Tie.lean` proves that the model's definitions ARE these combinators (by `rfl` / `simp`), so a source
change (a container dropped from `to_sort`, operands swapped, a flag consulting another group, groups reordered)
breaks a proof obligation; anything outside the recognised subset makes the translator refuse."""
from __future__ import annotations

import ast
from pathlib import Path

from .common import HEADER, Unsupported, find_function, write_if_changed

# source expression (unparsed, after stripping `set(..)` / `dict(..)` copies) -> role
LEAF_ROLES = {
    "base_parameter_values": "pars",
    "base_variable_values": "vars",
    "self._data": "data",
    "initial_assignments": "ias",
    "self._derived": "derived",
    "self._reactions": "rxns",
    "self._surrogates": "surs",
    "cache.all_parameter_values": "allpars",
    "variables": "state",
}


def leaf_role(e: ast.expr) -> str:
    # set(x) / dict(x): a copy or the key set of x — same role
    if (isinstance(e, ast.Call) and isinstance(e.func, ast.Name) and e.func.id in ("set", "dict")
            and len(e.args) == 1 and not e.keywords):
        return leaf_role(e.args[0])
    if isinstance(e, ast.Set) and len(e.elts) == 1 and isinstance(e.elts[0], ast.Constant) and e.elts[0].value == "time":
        return "time"
    if (isinstance(e, ast.Dict) and len(e.keys) == 1 and isinstance(e.keys[0], ast.Constant)
            and e.keys[0].value == "time" and isinstance(e.values[0], ast.Constant) and e.values[0].value == 0.0):
        return "time"
    src = ast.unparse(e)
    if src in LEAF_ROLES:
        return LEAF_ROLES[src]
    raise Unsupported(f"union operand {src!r} is not a recognised container")


def union_term(e: ast.expr) -> str:
    """`a | b | c` (any parenthesisation) -> `u (u a b) c` following the source tree"""
    if isinstance(e, ast.BinOp) and isinstance(e.op, ast.BitOr):
        return f"(u {union_term(e.left)} {union_term(e.right)})"
    return leaf_role(e)


def leaves(e: ast.expr) -> list[str]:
    if isinstance(e, ast.BinOp) and isinstance(e.op, ast.BitOr):
        return leaves(e.left) + leaves(e.right)
    return [leaf_role(e)]


def the_assign(fn: ast.FunctionDef, target: str) -> ast.expr:
    found = [n for n in ast.walk(fn)
             if isinstance(n, (ast.Assign, ast.AnnAssign))
             and (n.targets[0] if isinstance(n, ast.Assign) else n.target).__class__ is ast.Name
             and (n.targets[0] if isinstance(n, ast.Assign) else n.target).id == target]
    if len(found) != 1:
        raise Unsupported(f"expected exactly one assignment to {target} in {fn.name}, found {len(found)}")
    if found[0].value is None:
        raise Unsupported(f"{target} is declared without a value in {fn.name}")
    return found[0].value


def combinator(name: str, params: list[str], e: ast.expr, doc: str) -> str:
    used = leaves(e)
    if sorted(used) != sorted(params):
        raise Unsupported(f"{name}: operands {used} are not exactly {params} (each once)")
    return (f"/-- `{doc} = {ast.unparse(e)}` -/\n"
            f"def {name} {{α : Type}} (u : α → α → α) ({' '.join(params)} : α) : α :=\n  {union_term(e)}\n\n")


# get_arg_names: the call that supplies a group -> group label
GROUP_OF_CALL = {
    "self.get_variable_names()": "variables",
    "self.get_parameter_names()": "parameters",
    "self.get_derived_variable_names()": "derived_variables",
    "self.get_derived_parameter_names()": "derived_parameters",
    "self.get_reaction_names()": "reactions",
    "self.get_surrogate_output_names(include_fluxes=False)": "surrogate_variables",
    "self.get_surrogate_reaction_names()": "surrogate_fluxes",
    "self.get_readout_names()": "readouts",
}


def arg_groups(fn: ast.FunctionDef) -> list[tuple[str, str]]:
    out = []
    body = [s for s in fn.body if not (isinstance(s, ast.Expr) and isinstance(s.value, ast.Constant))]  # docstring
    if not (isinstance(body[0], ast.Assign) and ast.unparse(body[0]) == "names = []"):
        raise Unsupported("get_arg_names no longer starts with `names = []`")
    if not (isinstance(body[-1], ast.Return) and ast.unparse(body[-1]) == "return names"):
        raise Unsupported("get_arg_names no longer ends with `return names`")
    for st in body[1:-1]:
        if not (isinstance(st, ast.If) and isinstance(st.test, ast.Name) and not st.orelse and len(st.body) == 1
                and isinstance(st.body[0], ast.Expr) and isinstance(st.body[0].value, ast.Call)):
            raise Unsupported(f"get_arg_names: unexpected statement {ast.unparse(st)!r}")
        flag = st.test.id
        call = st.body[0].value
        target = ast.unparse(call.func)
        if len(call.args) != 1 or call.keywords:
            raise Unsupported(f"get_arg_names: unexpected call {ast.unparse(call)!r}")
        arg = call.args[0]
        if target == "names.append" and isinstance(arg, ast.Constant) and arg.value == "time":
            group = "time"
        elif target == "names.extend" and ast.unparse(arg) in GROUP_OF_CALL:
            group = GROUP_OF_CALL[ast.unparse(arg)]
        else:
            raise Unsupported(f"get_arg_names: unrecognised group {ast.unparse(call)!r}")
        out.append((flag, group))
    return out


def generate(repo: Path, outdir: Path) -> bool:
    src = repo / "src" / "mxlpy" / "model.py"
    tree = ast.parse(src.read_text())
    cc = find_function(tree, "_create_cache", "Model")
    ga = find_function(tree, "_get_args", "Model")
    gn = find_function(tree, "get_arg_names", "Model")
    text = (HEADER.format(src="src/mxlpy/model.py::Model._create_cache/_get_args/get_arg_names", tr="c01.py")
            + "namespace Mxl.Generated.C01Cache\n\n")
    text += combinator("toSortOf", ["ias", "derived", "rxns", "surs"], the_assign(cc, "to_sort"), "to_sort")
    text += combinator("availableOf", ["pars", "vars", "data", "time"], the_assign(cc, "available"), "available")
    text += combinator("dependentOf", ["pars", "vars", "data", "time"], the_assign(cc, "dependent"), "dependent")
    text += combinator("argsOf", ["allpars", "state", "data"], the_assign(ga, "args"), "args")
    text += combinator("containersOf", ["derived", "rxns", "surs"], the_assign(ga, "containers"), "containers")
    # `args["time"] = time` must still follow the union in _get_args, the data sets must still be popped
    gsrc = [ast.unparse(s) for s in ga.body]
    if "args['time'] = time" not in gsrc:
        raise Unsupported("_get_args no longer sets args['time'] = time")
    if not any(s.startswith("for k in self._data:") and "args.pop(k)" in s for s in gsrc):
        raise Unsupported("_get_args no longer removes the data sets from the returned dict")
    # the evaluation pass of _create_cache walks `order` and evaluates `to_sort[name]` in place on `dependent`
    if not any(isinstance(s, ast.For) and ast.unparse(s.iter) == "order"
               and ast.unparse(s.body[0]) == "to_sort[name].calculate_inpl(name, dependent)" for s in cc.body):
        raise Unsupported("_create_cache no longer evaluates `to_sort[name].calculate_inpl(name, dependent)` along `order`")
    if not any(isinstance(s, ast.For) and ast.unparse(s.iter) == "cache.dyn_order"
               and ast.unparse(s.body[0]) == "containers[name].calculate_inpl(name, args)" for s in ga.body):
        raise Unsupported("_get_args no longer evaluates `containers[name].calculate_inpl(name, args)` along `cache.dyn_order`")
    groups = arg_groups(gn)
    text += ("/-- `get_arg_names`: (flag consulted, group appended) in the order of the method body -/\n"
             "def argGroups : List (String × String) :=\n  ["
             + ",\n   ".join(f'("{f}", "{g}")' for f, g in groups) + "]\n\n")
    text += "end Mxl.Generated.C01Cache\n"
    return write_if_changed(outdir / "C01Cache.lean", text)
