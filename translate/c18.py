"""translate/c18.py — reads src/mxlpy/mca.py and writes Generated/C18Expr.lean.

Regenerated from the CURRENT source, for each of `variable_elasticities`, `parameter_elasticities` and
`_response_coefficient_worker`:

  * the two perturbed values (`old * (1 + displacement)`, `old * (1 - displacement)`),
  * the difference quotient (`(upper - lower) / (2 * displacement * old)`),
  * the scaling factor applied when `normalized` (`old / <unperturbed value>`),

as Lean functions over `Rat`, and the STRUCTURE facts the frame theorems rest on: the perturbations of the two
model-writing routines sit in a `try:` whose `finally:` resets the parameter (and, in the response worker, the
variables when custom ones were given); the state of `parameter_elasticities` is resolved once, before the loop.

`Props/C18.lean` proves that these are the expressions the executable model (`Model/C18.lean::coef`, `parTry`,
`respTry`) uses, so a changed formula in the source breaks a theorem.  Anything outside the arithmetic subset
(`+ - * /`, the names below, integer literals) raises `Unsupported`.
"""
from __future__ import annotations

import ast
from pathlib import Path

from .common import HEADER, Unsupported, find_function, write_if_changed

SRC = "src/mxlpy/mca.py"
NAMES = {"old": "old", "displacement": "d", "upper": "upper", "lower": "lower"}


def is_call_to(e: ast.expr, obj: str, meth: str) -> bool:
    return (isinstance(e, ast.Call) and isinstance(e.func, ast.Attribute) and e.func.attr == meth
            and isinstance(e.func.value, ast.Name) and e.func.value.id == obj)


def last_row(e: ast.expr) -> str | None:
    """`<name>.variables.iloc[-1]` / `<name>.fluxes.iloc[-1]` -> name"""
    if (isinstance(e, ast.Subscript) and isinstance(e.value, ast.Attribute) and e.value.attr == "iloc"
            and isinstance(e.slice, ast.UnaryOp) and isinstance(e.slice.op, ast.USub)
            and isinstance(e.slice.operand, ast.Constant) and e.slice.operand.value == 1
            and isinstance(e.value.value, ast.Attribute) and e.value.value.attr in ("variables", "fluxes")
            and isinstance(e.value.value.value, ast.Name)):
        return e.value.value.value.id
    return None


def rat(e: ast.expr, extra: dict[str, str]) -> str:
    if isinstance(e, ast.Constant) and isinstance(e.value, int) and not isinstance(e.value, bool) and e.value >= 0:
        return f"({e.value} : Rat)"
    if isinstance(e, ast.Name) and e.id in {**NAMES, **extra}:
        return {**NAMES, **extra}[e.id]
    if (n := last_row(e)) is not None and n in {**NAMES, **extra}:
        return {**NAMES, **extra}[n]
    if is_call_to(e, "model", "get_fluxes"):
        kws = {k.arg: ast.unparse(k.value) for k in e.keywords}
        if kws == {"variables": "variables", "time": "time"} and not e.args:
            return "base"  # the flux vector at the UNPERTURBED state
        raise Unsupported(f"get_fluxes called with {kws}")
    if isinstance(e, ast.BinOp) and isinstance(e.op, (ast.Add, ast.Sub, ast.Mult, ast.Div)):
        op = {ast.Add: "+", ast.Sub: "-", ast.Mult: "*", ast.Div: "/"}[type(e.op)]
        return f"({rat(e.left, extra)} {op} {rat(e.right, extra)})"
    raise Unsupported(f"expression outside the arithmetic subset: {ast.unparse(e)}")


def assigns(fn: ast.AST, target: str) -> list[ast.Assign]:
    return [n for n in ast.walk(fn) if isinstance(n, ast.Assign) and len(n.targets) == 1
            and isinstance(n.targets[0], ast.Name) and n.targets[0].id == target]


def one(xs: list, what: str):
    if len(xs) != 1:
        raise Unsupported(f"expected exactly one {what}, found {len(xs)}")
    return xs[0]


def scaling(fn: ast.AST, target: str, extra: dict[str, str]) -> str:
    """`if normalized: ... <target> *= <factor>`"""
    found = []
    for node in ast.walk(fn):
        if isinstance(node, ast.If) and isinstance(node.test, ast.Name) and node.test.id == "normalized":
            for st in node.body:
                if (isinstance(st, ast.AugAssign) and isinstance(st.op, ast.Mult) and isinstance(st.target, ast.Name)
                        and st.target.id == target):
                    found.append(st.value)
    return rat(one(found, f"`if normalized: {target} *= ...`"), extra)


def perturbations(fn: ast.AST, key: str) -> list[ast.expr]:
    """values `model.update_parameters({<key>: value})` is called with, in source order"""
    out = []
    for node in ast.walk(fn):
        if is_call_to(node, "model", "update_parameters") and len(node.args) == 1 and isinstance(node.args[0], ast.Dict):
            d = node.args[0]
            if len(d.keys) == 1 and isinstance(d.keys[0], ast.Name) and d.keys[0].id == key:
                out.append((node.lineno, node.col_offset, d.values[0]))
    return [v for _, _, v in sorted(out, key=lambda t: (t[0], t[1]))]


def try_finally(fn: ast.AST, key: str) -> tuple[bool, bool, bool]:
    """(all non-reset perturbations of <key> sit inside one `try:`, its `finally:` resets <key> to `old`,
        its `finally:` restores the variables under `if y0 is not None`)"""
    tries = [n for n in ast.walk(fn) if isinstance(n, ast.Try) and n.finalbody]
    if len(tries) != 1:
        return False, False, False
    t = tries[0]
    body = ast.Module(body=t.body, type_ignores=[])
    inside = {id(v) for v in perturbations(body, key)}
    every = [v for v in perturbations(fn, key) if ast.unparse(v) != "old"]
    guarded = all(id(v) in inside for v in every) and bool(every)
    fin = ast.Module(body=t.finalbody, type_ignores=[])
    resets = any(ast.unparse(v) == "old" for v in perturbations(fin, key))
    restores = False
    for st in t.finalbody:
        if (isinstance(st, ast.If) and ast.unparse(st.test) == "y0 is not None" and len(st.body) == 1
                and ast.unparse(st.body[0]) == "model.update_variables(old_variables)"):
            restores = True
    return guarded, resets, restores


class _Rename(ast.NodeTransformer):
    def __init__(self, mapping):
        self.mapping = mapping

    def visit_Name(self, node):
        if node.id in self.mapping:
            return ast.copy_location(ast.Name(id=self.mapping[node.id], ctx=node.ctx), node)
        return node


def canonical_locals(fn: ast.FunctionDef, kind: str) -> ast.FunctionDef:
    """Locals are identified by HOW THEY ARE DEFINED, not by their names, and renamed to the names the readers below
    use: the loop variable over `to_scan`; `old` = the value looked up under it; `upper` / `lower` = what the first /
    second perturbed evaluation is bound to; `norm` = the third steady state of the worker; the coefficient(s) = the
    local(s) bound to a quotient of `upper - lower`; `old_variables` = `model.get_raw_variables()`.  Parameters of the
    functions (keyword API) keep their names."""
    mapping: dict[str, str] = {}
    params = {a.arg for a in fn.args.args + fn.args.kwonlyargs}

    def bind(actual: str, canon: str) -> None:
        if actual in params and actual != canon:
            raise Unsupported(f"{fn.name}: parameter {actual} plays the role of local `{canon}`")
        if actual != canon and (canon in mapping.values() or actual in mapping):
            raise Unsupported(f"{fn.name}: two locals play the role of `{canon}`")
        mapping[actual] = canon

    key = "parameter"
    if kind in ("var", "par"):
        loops = [n for n in ast.walk(fn) if isinstance(n, ast.For) and ast.unparse(n.iter) == "to_scan" and isinstance(n.target, ast.Name)]
        if len(loops) != 1:
            raise Unsupported(f"{fn.name}: no single loop over to_scan")
        key = loops[0].target.id
        bind(key, kind)
    assigns_ = sorted((n for n in ast.walk(fn) if isinstance(n, ast.Assign) and len(n.targets) == 1 and isinstance(n.targets[0], ast.Name)),
                      key=lambda n: (n.lineno, n.col_offset))
    evals = []
    for a in assigns_:
        v, t = a.value, a.targets[0].id
        if isinstance(v, ast.Subscript) and isinstance(v.slice, ast.Name) and v.slice.id == key:
            bind(t, "old")
        elif ast.unparse(v) == "model.get_raw_variables()":
            bind(t, "old_variables")
        elif isinstance(v, ast.Call) and ast.unparse(v.func) in ("model.get_fluxes", "_steady_state_worker"):
            evals.append(t)
    roles = ["upper", "lower"] + (["norm"] if kind == "resp" else [])
    if len(evals) != len(roles):
        raise Unsupported(f"{fn.name}: expected {len(roles)} evaluations bound to locals, found {len(evals)}")
    for t, r in zip(evals, roles):
        bind(t, r)
    up, lo = evals[0], evals[1]
    coefs = [a.targets[0].id for a in assigns_ if isinstance(a.value, ast.BinOp) and isinstance(a.value.op, ast.Div)
             and {up, lo} <= {n.id for n in ast.walk(a.value) if isinstance(n, ast.Name)}]
    want = ["conc_resp", "flux_resp"] if kind == "resp" else ["elasticity_coef"]
    if len(coefs) != len(want):
        raise Unsupported(f"{fn.name}: expected {len(want)} difference quotient(s), found {len(coefs)}")
    for t, r in zip(coefs, want):
        bind(t, r)
    return ast.fix_missing_locations(_Rename(mapping).visit(fn))


def generate(repo: Path, outdir: Path) -> bool:
    tree = ast.parse((repo / SRC).read_text())
    out = [HEADER.format(src=SRC, tr="c18.py"), "namespace Mxl.Generated.C18\n"]

    def emit(name: str, params: str, body: str, doc: str) -> None:
        out.append(f"/-- `{doc}` -/\ndef {name} ({params} : Rat) : Rat := {body}\n")

    # ---- variable_elasticities: the perturbed state is `variables | {var: <value>}`
    ve = canonical_locals(find_function(tree, "variable_elasticities"), "var")
    vals = []
    for node in ast.walk(ve):
        if is_call_to(node, "model", "get_fluxes"):
            kw = {k.arg: k.value for k in node.keywords}
            v = kw.get("variables")
            if (isinstance(v, ast.BinOp) and isinstance(v.op, ast.BitOr) and isinstance(v.left, ast.Name)
                    and v.left.id == "variables" and isinstance(v.right, ast.Dict) and len(v.right.keys) == 1
                    and isinstance(v.right.keys[0], ast.Name) and v.right.keys[0].id == "var"):
                vals.append((node.lineno, v.right.values[0]))
    vals = [v for _, v in sorted(vals, key=lambda t: t[0])]
    if len(vals) != 2:
        raise Unsupported(f"variable_elasticities: expected two perturbed flux evaluations, found {len(vals)}")
    for target, want in (("upper", 0), ("lower", 1)):
        a = one(assigns(ve, target), f"assignment to {target} in variable_elasticities")
        kw = {k.arg: k.value for k in a.value.keywords} if isinstance(a.value, ast.Call) else {}
        if not (is_call_to(a.value, "model", "get_fluxes") and kw.get("variables") is not None
                and ast.unparse(kw["variables"]).endswith(ast.unparse(vals[want]) + "}")):
            raise Unsupported(f"variable_elasticities: `{target}` is not the {['first', 'second'][want]} perturbed evaluation")
    if ast.unparse(one(assigns(ve, "old"), "assignment to old").value) != "variables[var]":
        raise Unsupported("variable_elasticities: `old` is not `variables[var]`")
    emit("varUp", "old d", rat(vals[0], {}), ast.unparse(vals[0]))
    emit("varLo", "old d", rat(vals[1], {}), ast.unparse(vals[1]))
    q = one(assigns(ve, "elasticity_coef"), "assignment to elasticity_coef").value
    emit("varQuot", "upper lower d old", rat(q, {}), ast.unparse(q))
    out.append(f"/-- the factor of `if normalized: elasticity_coef *= …` -/\ndef varScale (old base : Rat) : Rat := {scaling(ve, 'elasticity_coef', {})}\n")

    # ---- parameter_elasticities
    pe = canonical_locals(find_function(tree, "parameter_elasticities"), "par")
    pv = [v for v in perturbations(pe, "par")]
    non_reset = [v for v in pv if ast.unparse(v) != "old"]
    if len(non_reset) != 2:
        raise Unsupported(f"parameter_elasticities: expected two perturbations of `par`, found {len(non_reset)}")
    if ast.unparse(one(assigns(pe, "old"), "assignment to old").value) != "model.get_parameter_values()[par]":
        raise Unsupported("parameter_elasticities: `old` is not `model.get_parameter_values()[par]`")
    emit("parUp", "old d", rat(non_reset[0], {}), ast.unparse(non_reset[0]))
    emit("parLo", "old d", rat(non_reset[1], {}), ast.unparse(non_reset[1]))
    q = one(assigns(pe, "elasticity_coef"), "assignment to elasticity_coef").value
    emit("parQuot", "upper lower d old", rat(q, {}), ast.unparse(q))
    out.append(f"def parScale (old base : Rat) : Rat := {scaling(pe, 'elasticity_coef', {})}\n")
    guarded, resets, _ = try_finally(pe, "par")
    out.append(f"/-- both perturbations of `par` sit in a `try:` whose `finally:` does `model.update_parameters({{par: old}})` -/\n"
               f"def parFinallyResets : Bool := {'true' if guarded and resets else 'false'}\n")
    # the state is resolved BEFORE the loop (a `variables = ... if variables is None else variables` statement at
    # function level) and every flux evaluation inside the loop gets it explicitly
    top = [st for st in pe.body if isinstance(st, ast.Assign) and ast.unparse(st) ==
           "variables = model.get_initial_conditions() if variables is None else variables"]
    loop = one([st for st in pe.body if isinstance(st, ast.For)], "for loop in parameter_elasticities")
    calls = [n for n in ast.walk(loop) if is_call_to(n, "model", "get_fluxes")]
    explicit = all({k.arg: ast.unparse(k.value) for k in c.keywords}.get("variables") == "variables" for c in calls)
    out.append(f"/-- `variables` is resolved once, before the first perturbation, and handed to every flux evaluation -/\n"
               f"def parStateResolvedOnce : Bool := {'true' if top and explicit and calls else 'false'}\n")

    # ---- _response_coefficient_worker
    rw = canonical_locals(find_function(tree, "_response_coefficient_worker"), "resp")
    pv = perturbations(rw, "parameter")
    non_reset = [v for v in pv if ast.unparse(v) != "old"]
    if len(non_reset) != 2:
        raise Unsupported(f"_response_coefficient_worker: expected two perturbations, found {len(non_reset)}")
    if ast.unparse(one(assigns(rw, "old"), "assignment to old").value) != "model.get_parameter_values()[parameter]":
        raise Unsupported("_response_coefficient_worker: `old` is not `model.get_parameter_values()[parameter]`")
    emit("respUp", "old d", rat(non_reset[0], {}), ast.unparse(non_reset[0]))
    emit("respLo", "old d", rat(non_reset[1], {}), ast.unparse(non_reset[1]))
    for target, name in (("conc_resp", "respQuot"), ("flux_resp", "respFluxQuot")):
        q = one(assigns(rw, target), f"assignment to {target}").value
        emit(name, "upper lower d old", rat(q, {}), ast.unparse(q))
    out.append(f"def respScale (old base : Rat) : Rat := {scaling(rw, 'conc_resp', {'norm': 'base'})}\n")
    out.append(f"def respFluxScale (old base : Rat) : Rat := {scaling(rw, 'flux_resp', {'norm': 'base'})}\n")
    guarded, resets, restores = try_finally(rw, "parameter")
    out.append(f"/-- the perturbations sit in a `try:` whose `finally:` resets the parameter and, under `if y0 is not None`,\n"
               f"    gives the model its saved variables back -/\n"
               f"def respFinallyRestores : Bool := {'true' if guarded and resets and restores else 'false'}\n")
    # ---- model.py: update_variables / update_parameters check EVERY name before the first write (the `wr` steps of
    # the model: a failing update leaves the model as it was)
    mtree = ast.parse((repo / "src/mxlpy/model.py").read_text())
    atomic = True
    for meth, single in (("update_variables", "update_variable"), ("update_parameters", "update_parameter")):
        fn = find_function(mtree, meth, cls="Model")
        body = [st for st in fn.body if not (isinstance(st, ast.Expr) and isinstance(st.value, ast.Constant))]
        first = ast.unparse(body[0]) if body else ""
        writes_later = all(f"self.{single}(" not in ast.unparse(st) for st in body[:1]) and any(
            f"self.{single}(" in ast.unparse(st) for st in body[1:])
        atomic = atomic and first.startswith("self._check_known_names(") and writes_later
    chk = find_function(mtree, "_check_known_names", cls="Model")
    atomic = atomic and any(isinstance(n, ast.Raise) for n in ast.walk(chk)) and not any(
        isinstance(n, (ast.Assign, ast.AugAssign)) and "self." in ast.unparse(n.targets[0] if isinstance(n, ast.Assign) else n.target)
        for n in ast.walk(chk))
    out.append("/-- `Model.update_variables` / `update_parameters` call `self._check_known_names(...)` (which raises and writes nothing)\n"
               "    before the first `update_variable` / `update_parameter` -/\n"
               f"def updatesCheckNamesFirst : Bool := {'true' if atomic else 'false'}\n")
    out.append("end Mxl.Generated.C18\n")
    return write_if_changed(outdir / "C18Expr.lean", "\n".join(out))
