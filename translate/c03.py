"""C03 translator: facts about every public mutator of `mxlpy.model.Model`, read from the CURRENT source.

For each method of `class Model` whose name starts with add_/remove_/update_/scale_/make_ it extracts with `ast`
  * invalidates        — `@_invalidate_cache` is in the decorator list
  * idOrder            — which comes first in source order: the first `self._insert_id` / `self._remove_id` call or
                         the first write to one of the model's own containers (`self._x[..] = ..`, `del self._x[..]`,
                         `self._x.pop(..)`)
  * checksBeforeWrites — number of statements that can reject the call (an `if`/`for` containing `raise`, or a call of
                         a `self._check_*` helper) that precede the first write of any kind
  * firstWrite         — what the first write touches (ids / own container / a component object / another mutator)
  * delegates          — the public mutators it calls on `self`, in order
and writes them to Generated/C03Mutators.lean.  `Mxl.C03.step` consults these tables; the theorems in
Props/C03.lean discharge their per-op obligations on them (by `decide`), so that removing a decorator or moving an
id update in the repo breaks the proof on the next run.

Anything outside the statement forms below raises (never a silent default).
"""
from __future__ import annotations

import ast
import hashlib
from pathlib import Path

PREFIXES = ("add_", "remove_", "update_", "scale_", "make_")
CONTAINERS = {"_variables", "_parameters", "_derived", "_readouts", "_reactions", "_surrogates", "_data"}
ALLOWED_STMTS = (ast.Expr, ast.Assign, ast.AnnAssign, ast.If, ast.For, ast.Return, ast.Raise, ast.Delete, ast.Pass)


class Unsupported(Exception):
    pass


def _is_self_attr(node, names=None):
    return (isinstance(node, ast.Attribute) and isinstance(node.value, ast.Name) and node.value.id == "self"
            and (names is None or node.attr in names))


def _self_call(node):
    """name of the method when `node` is `self.<name>(...)`, else None"""
    if isinstance(node, ast.Call) and _is_self_attr(node.func):
        return node.func.attr
    return None


MUTATING = {"pop", "popitem", "clear", "update", "setdefault", "append", "extend", "insert", "remove", "add", "discard"}


def _container_method_call(node):
    """`self._x.pop(...)` -> '_x'"""
    if (isinstance(node, ast.Call) and isinstance(node.func, ast.Attribute) and node.func.attr in MUTATING
            and _is_self_attr(node.func.value, CONTAINERS)):
        return node.func.value.attr
    return None


def _other_mutating_call(node):
    """`<something else>.pop(...)`: a write to a component object (e.g. a stoichiometry dict)"""
    if isinstance(node, ast.Call) and isinstance(node.func, ast.Attribute) and node.func.attr in MUTATING:
        if _is_self_attr(node.func.value, CONTAINERS):
            return False
        if _is_self_attr(node.func.value, {"_ids"}):
            raise Unsupported("direct write to self._ids")
        return True
    return False


def _kw_const(call, key):
    """the string constant passed as keyword `key`, '' when there is none / it is not a constant"""
    for kw in call.keywords:
        if kw.arg == key and isinstance(kw.value, ast.Constant) and isinstance(kw.value.value, str):
            return kw.value.value
    return ""


def _events_of_expr(node, mutators):
    """events produced by evaluating an expression, in source order.  An event is a string whose first
    letter is its kind; the rest is detail (`I:<ctx>`, `C:<container>:<how>`, `K:<helper>`, `P:<mutator>`,
    `L:<container>` = subscript load of an own container, which raises KeyError for an unknown name)"""
    ev = []
    for sub in ast.walk(node):
        name = _self_call(sub)
        if name == "_insert_id":
            ev.append((sub.lineno, sub.col_offset, "I:" + _kw_const(sub, "ctx")))
        elif name == "_remove_id":
            ev.append((sub.lineno, sub.col_offset, "R"))
        elif name is not None and name.startswith("_check_"):
            ev.append((sub.lineno, sub.col_offset, "K:" + name))
        elif name in mutators:
            ev.append((sub.lineno, sub.col_offset, "P:" + name))
        elif _container_method_call(sub):
            ev.append((sub.lineno, sub.col_offset, f"C:{_container_method_call(sub)}:{sub.func.attr}"))
        elif _other_mutating_call(sub):
            ev.append((sub.lineno, sub.col_offset, "W"))
        elif (isinstance(sub, ast.Subscript) and isinstance(sub.ctx, ast.Load)
              and _is_self_attr(sub.value, CONTAINERS)):
            ev.append((sub.lineno, sub.col_offset, "L:" + sub.value.attr))
    return [e for _, _, e in sorted(ev)]


def _contains_raise(stmt):
    return any(isinstance(n, ast.Raise) for n in ast.walk(stmt))


def _raised(stmt):
    """`G:<class>` for the exception classes a rejecting statement raises (`raise Cls(...)` / `raise Cls`)"""
    out = []
    for n in ast.walk(stmt):
        if isinstance(n, ast.Raise):
            e = n.exc.func if isinstance(n.exc, ast.Call) else n.exc
            if not isinstance(e, ast.Name):
                raise Unsupported(f"raise of a non-name at line {n.lineno}")
            if e.id not in out:
                out.append(e.id)
    return "G:" + "+".join(out)


def _target_events(t):
    """a store / delete target"""
    if isinstance(t, ast.Subscript):
        if _is_self_attr(t.value, CONTAINERS):
            return [f"C:{t.value.attr}:{'del' if isinstance(t.ctx, ast.Del) else 'set'}"]
        if _is_self_attr(t.value, {"_ids"}):
            raise Unsupported("direct write to self._ids")
        return ["W"]  # item of some other object (a stoichiometry dict)
    if isinstance(t, ast.Attribute):
        if _is_self_attr(t):
            if t.attr in CONTAINERS or t.attr == "_ids":
                raise Unsupported(f"rebinding self.{t.attr}")
            if t.attr == "_cache":
                return ["X"]
            raise Unsupported(f"assignment to self.{t.attr}")
        return ["W"]  # attribute of a component object
    if isinstance(t, ast.Name):
        return []
    if isinstance(t, (ast.Tuple, ast.List)):
        return [e for x in t.elts for e in _target_events(x)]
    raise Unsupported(f"target {ast.dump(t)[:60]}")


def _events(stmts, mutators):
    """flat event list of a statement list in source order; 'G' marks a statement that can reject the call"""
    out = []
    for st in stmts:
        if not isinstance(st, ALLOWED_STMTS):
            raise Unsupported(f"statement {type(st).__name__} at line {st.lineno}")
        if isinstance(st, ast.Expr):
            if isinstance(st.value, ast.Constant):
                continue  # docstring
            out += _events_of_expr(st.value, mutators)
        elif isinstance(st, (ast.Assign, ast.AnnAssign)):
            if st.value is not None:
                out += _events_of_expr(st.value, mutators)
            targets = st.targets if isinstance(st, ast.Assign) else [st.target]
            for t in targets:
                out += _target_events(t)
        elif isinstance(st, ast.Delete):
            for t in st.targets:
                out += _target_events(t)
        elif isinstance(st, ast.Return):
            if st.value is not None:
                out += _events_of_expr(st.value, mutators)
        elif isinstance(st, ast.Raise):
            out.append(_raised(st))
        elif isinstance(st, ast.If):
            inner = _events_of_expr(st.test, mutators) + _events(st.body, mutators) + _events(st.orelse, mutators)
            if _contains_raise(st) and not any(e[0] not in "GL" for e in inner):
                out += [e for e in inner if e[0] == "L"] + [_raised(st)]
            else:
                out += inner
        elif isinstance(st, ast.For):
            inner = _events_of_expr(st.iter, mutators) + _events(st.body, mutators) + _events(st.orelse, mutators)
            if _contains_raise(st) and not any(e[0] not in "GL" for e in inner):
                out += [e for e in inner if e[0] == "L"] + [_raised(st)]
            else:
                out += inner
    return out


def _field_compare(node):
    """(name, compared?) of one annotated dataclass field `name: T = field(..., compare=False)`"""
    if not (isinstance(node, ast.AnnAssign) and isinstance(node.target, ast.Name)):
        raise Unsupported(f"class-level statement {type(node).__name__} at line {node.lineno}")
    compared = True
    v = node.value
    if isinstance(v, ast.Call) and isinstance(v.func, ast.Name) and v.func.id == "field":
        for kw in v.keywords:
            if kw.arg == "compare":
                if not isinstance(kw.value, ast.Constant) or not isinstance(kw.value.value, bool):
                    raise Unsupported(f"compare= of field {node.target.id} is not a literal")
                compared = kw.value.value
    return node.target.id, compared


def eq_fields(cls):
    """the fields the generated `__eq__` of `@dataclass class Model` compares, in order"""
    for d in cls.decorator_list:
        f = d.func if isinstance(d, ast.Call) else d
        if isinstance(f, ast.Name) and f.id == "dataclass":
            if isinstance(d, ast.Call):
                for kw in d.keywords:
                    if kw.arg == "eq" and not (isinstance(kw.value, ast.Constant) and kw.value.value is True):
                        raise Unsupported("dataclass(eq=...) other than True")
            break
    else:
        raise Unsupported("class Model is not a dataclass")
    if any(isinstance(n, ast.FunctionDef) and n.name == "__eq__" for n in cls.body):
        raise Unsupported("class Model defines __eq__ by hand")
    fields = [_field_compare(n) for n in cls.body if isinstance(n, (ast.AnnAssign, ast.Assign))]
    return [n for n, c in fields if c]


def _model_class(model_py: Path):
    tree = ast.parse(model_py.read_text())
    cls = next((n for n in tree.body if isinstance(n, ast.ClassDef) and n.name == "Model"), None)
    if cls is None:
        raise Unsupported("class Model not found")
    return tree, cls


def extract(model_py: Path):
    _, cls = _model_class(model_py)
    methods = [n for n in cls.body if isinstance(n, ast.FunctionDef) and n.name.startswith(PREFIXES)]
    names = [m.name for m in methods]
    if not names:
        raise Unsupported("no public mutators found")
    rows = []
    for m in methods:
        decos = []
        for d in m.decorator_list:
            if isinstance(d, ast.Name):
                decos.append(d.id)
            else:
                raise Unsupported(f"decorator form on {m.name}")
        unknown = set(decos) - {"_invalidate_cache"}
        if unknown:
            raise Unsupported(f"unknown decorator {unknown} on {m.name}")
        # the events are read off the body in guard form (`if c: … else: raise` = `if not c: raise; …`)
        ev = _events(_norm_stmts(m.body, _msg_names(m)), set(names))
        if "X" in ev:
            raise Unsupported(f"{m.name} assigns self._cache directly")
        kinds = [e[0] for e in ev]
        first_id = next((i for i, e in enumerate(kinds) if e in "IR"), None)
        first_c = next((i for i, e in enumerate(kinds) if e == "C"), None)
        if first_id is None and first_c is None:
            order = "none"
        elif first_c is None:
            order = "idOnly"
        elif first_id is None:
            order = "containerOnly"
        else:
            order = "idFirst" if first_id < first_c else "containerFirst"
        first_write = next((i for i, e in enumerate(kinds) if e in "IRCWP"), len(ev))
        checks = sum(1 for e in kinds[:first_write] if e in "GK")
        fw = kinds[first_write] if first_write < len(ev) else None
        first_kind = {"I": "id", "R": "id", "C": "container", "W": "component", None: "none"}.get(fw, "delegate")
        rows.append({
            "name": m.name,
            "invalidates": "_invalidate_cache" in decos,
            "order": order,
            "checks": checks,
            "first": first_kind,
            "delegates": [e[2:] for e in ev if e.startswith("P:")],
            "events": ev,
            # rejecting statements that come AFTER the first write (a call rejected there is half applied
            # unless the model proves the statement cannot fire)
            "late_guards": sum(1 for e in kinds[first_write + 1:] if e in "GK"),
            # exception classes of the explicit rejecting statements before the first write
            "raises_before": [c for e in ev[:first_write] if e[0] == "G" for c in e[2:].split("+")],
            # own containers subscripted (KeyError for an unknown name) before the first write
            "loads_before": [e[2:] for e in ev[:first_write] if e[0] == "L"],
            "ctx": [e[2:] for e in ev if e[0] == "I"],
            "containers": [e.split(":")[1] for e in ev if e[0] == "C"],
            # the rejecting statements themselves (conditions included), normalised like the helper bodies
            # (`_normalised_body` renames the locals of `m` IN PLACE; `check_calls` below reads the renamed tree)
            "body": (nb := _normalised_body(m)),
            "guards": [x for x in nb if "raise" in x],
            # the arguments the `_check_*` helpers are called with
            "check_args": check_calls(m),
        })
    return rows


# --------------------------------------------------------------------------- `_check_function_arity` and the sanity-check chain


def _arity_expr(node, env):
    """Lean Bool/Nat expression for the small expression language of `_check_function_arity`"""
    if isinstance(node, ast.Name):
        if node.id in env:
            return env[node.id]
        if node.id == "arity":
            return ("nat", "arity")
        raise Unsupported(f"name {node.id} in _check_function_arity")
    if isinstance(node, ast.Attribute) and isinstance(node.value, ast.Name) and env.get(node.value.id) == ("spec",):
        if node.attr in ("args", "defaults", "kwonlyargs", "varargs"):
            return ("field", node.attr)
        raise Unsupported(f"argspec.{node.attr}")
    if isinstance(node, ast.Call) and isinstance(node.func, ast.Name) and node.func.id == "len" and len(node.args) == 1:
        f = _arity_expr(node.args[0], env)
        if f == ("field", "args"):
            return ("nat", "sig.nargs")
        if f == ("field", "defaults"):
            return ("nat", "sig.defaults.getD 0")
        if f == ("field", "kwonlyargs"):
            return ("nat", "sig.kwonly")
        raise Unsupported("len() of something else")
    if isinstance(node, ast.Call) and isinstance(node.func, ast.Name) and node.func.id == "bool" and len(node.args) == 1:
        f = _arity_expr(node.args[0], env)
        if f[0] != "bool":
            raise Unsupported("bool() of a non-boolean")
        return f
    if isinstance(node, ast.BinOp) and isinstance(node.op, ast.Add):
        l, r = _arity_expr(node.left, env), _arity_expr(node.right, env)
        if l[0] == r[0] == "nat":
            return ("nat", f"({l[1]} + {r[1]})")
        raise Unsupported("+ on non-numbers")
    if isinstance(node, ast.Compare) and len(node.ops) == 1:
        op, l, rn = node.ops[0], _arity_expr(node.left, env), node.comparators[0]
        if isinstance(op, (ast.IsNot, ast.Is)) and isinstance(rn, ast.Constant) and rn.value is None:
            if l == ("field", "varargs"):
                b = "sig.varargs"
            elif l == ("field", "defaults"):
                b = "sig.defaults.isSome"
            else:
                raise Unsupported("is None on something else")
            return ("bool", b if isinstance(op, ast.IsNot) else f"(!{b})")
        if isinstance(op, ast.Eq):
            r = _arity_expr(rn, env)
            if l[0] == r[0] == "nat":
                return ("bool", f"({l[1]} == {r[1]})")
        raise Unsupported("comparison form")
    if isinstance(node, ast.BoolOp):
        parts = [_arity_expr(v, env) for v in node.values]
        if any(p[0] != "bool" for p in parts):
            raise Unsupported("and/or on non-booleans")
        return ("bool", "(" + (" && " if isinstance(node.op, ast.And) else " || ").join(p[1] for p in parts) + ")")
    if isinstance(node, ast.Constant) and isinstance(node.value, bool):
        return ("bool", "true" if node.value else "false")
    raise Unsupported(f"expression {ast.dump(node)[:60]} in _check_function_arity")


def check_function_arity(tree) -> str:
    """body of the module-level `_check_function_arity(function, arity)` as a Lean expression over `sig`, `arity`:
    a sequence of `name = <expr>` / `if <cond>: return <bool>` and a final `return <bool expr>`"""
    fn = next((n for n in tree.body if isinstance(n, ast.FunctionDef) and n.name == "_check_function_arity"), None)
    if fn is None:
        raise Unsupported("_check_function_arity not found")
    if [a.arg for a in fn.args.args] != ["function", "arity"]:
        raise Unsupported("_check_function_arity signature")
    env = {}
    clauses = []
    final = None
    for st in fn.body:
        if isinstance(st, ast.Expr) and isinstance(st.value, ast.Constant):
            continue
        if final is not None:
            raise Unsupported("statement after the final return")
        if isinstance(st, ast.Assign) and len(st.targets) == 1 and isinstance(st.targets[0], ast.Name):
            v = st.value
            if (isinstance(v, ast.Call) and isinstance(v.func, ast.Attribute) and v.func.attr == "getfullargspec"
                    and len(v.args) == 1 and isinstance(v.args[0], ast.Name) and v.args[0].id == "function"):
                env[st.targets[0].id] = ("spec",)
            else:
                env[st.targets[0].id] = _arity_expr(v, env)
        elif isinstance(st, ast.If) and not st.orelse and len(st.body) == 1 and isinstance(st.body[0], ast.Return):
            c, r = _arity_expr(st.test, env), _arity_expr(st.body[0].value, env)
            if c[0] != "bool" or r[0] != "bool":
                raise Unsupported("if/return types")
            clauses.append((c[1], r[1]))
        elif isinstance(st, ast.Return):
            r = _arity_expr(st.value, env)
            if r[0] != "bool":
                raise Unsupported("final return type")
            final = r[1]
        else:
            raise Unsupported(f"statement {type(st).__name__} in _check_function_arity")
    if final is None:
        raise Unsupported("_check_function_arity has no final return")
    out = final
    for c, r in reversed(clauses):
        out = f"if {c} then {r} else {out}"
    return out


def arity_checked(cls):
    """the operands of the `it.chain(...)` the sanity-check loop of `_create_cache` walks, in order, and the
    exception it raises"""
    cc = next((n for n in cls.body if isinstance(n, ast.FunctionDef) and n.name == "_create_cache"), None)
    if cc is None:
        raise Unsupported("_create_cache not found")
    loops = [n for n in ast.walk(cc) if isinstance(n, ast.For) and any(
        isinstance(c, ast.Call) and isinstance(c.func, ast.Name) and c.func.id == "_check_function_arity"
        for c in ast.walk(n))]
    if len(loops) != 1:
        raise Unsupported(f"{len(loops)} arity-check loops in _create_cache")
    lp = loops[0]
    it_ = lp.iter
    if not (isinstance(it_, ast.Call) and isinstance(it_.func, ast.Attribute) and it_.func.attr == "chain"):
        raise Unsupported("arity-check loop does not iterate it.chain(...)")
    names = []
    for a in it_.args:
        if not (isinstance(a, ast.Call) and isinstance(a.func, ast.Attribute) and a.func.attr == "items"):
            raise Unsupported("chain operand is not <x>.items()")
        v = a.func.value
        if isinstance(v, ast.Name):
            names.append(v.id)
        elif _is_self_attr(v):
            names.append(v.attr)
        else:
            raise Unsupported("chain operand")
    body = lp.body
    if not (len(body) == 1 and isinstance(body[0], ast.If) and isinstance(body[0].test, ast.UnaryOp)
            and isinstance(body[0].test.op, ast.Not) and len(body[0].body) == 1 and isinstance(body[0].body[0], ast.Raise)):
        raise Unsupported("shape of the arity-check loop body")
    exc = _raised(body[0])[2:]
    # the loop must come before the dependency sort
    sort_line = next((n.lineno for n in ast.walk(cc) if isinstance(n, ast.Call) and isinstance(n.func, ast.Name)
                      and n.func.id == "_sort_dependencies"), None)
    if sort_line is None:
        raise Unsupported("_sort_dependencies call not found in _create_cache")
    return names, exc, lp.lineno < sort_line


# --------------------------------------------------------------------------- the whole surface of `class Model`

ALL_STATE = CONTAINERS | {"_ids", "_cache"}
# the private functions that may write the model's state directly, and what they write
STATE_WRITERS = {"_insert_id": {"_ids"}, "_remove_id": {"_ids"}, "_create_cache": {"_cache"}}
# ways a method that is not a mutator may look at one of the model's own dictionaries without being able to
# change it: `<d>.items()` …, `f(<d>)` for a copying / measuring `f`, `x in <d>`, `a | <d>`, iteration, `<d>[k]`
READ_ATTRS = {"items", "keys", "values", "get", "copy"}
READ_CALLS = {"set", "list", "len", "dict", "sorted", "tuple", "frozenset", "copy.deepcopy", "copy.copy", "iter"}
HELPERS = ("_insert_id", "_remove_id", "_check_new_ids", "_check_known_names", "_scaled_value")


def _is_public(name):
    return not name.startswith("_") or (name.startswith("__") and name.endswith("__"))


def _parents(fn):
    par = {}
    for n in ast.walk(fn):
        for c in ast.iter_child_nodes(n):
            par[c] = n
    return par


def _direct_writes(fn):
    """names of the state attributes (`_ids`, `_cache`, the seven containers) a function body writes itself"""
    out = set()
    for n in ast.walk(fn):
        if isinstance(n, ast.Subscript) and isinstance(n.ctx, (ast.Store, ast.Del)) and _is_self_attr(n.value, ALL_STATE):
            out.add(n.value.attr)
        elif isinstance(n, ast.Attribute) and isinstance(n.ctx, (ast.Store, ast.Del)) and _is_self_attr(n):
            out.add(n.attr)
        elif (isinstance(n, ast.Call) and isinstance(n.func, ast.Attribute) and n.func.attr in MUTATING
              and _is_self_attr(n.func.value, ALL_STATE)):
            out.add(n.func.value.attr)
        elif isinstance(n, ast.Call) and isinstance(n.func, ast.Name) and n.func.id in ("setattr", "delattr", "vars"):
            raise Unsupported(f"{n.func.id}() in {fn.name}")
        elif isinstance(n, ast.Attribute) and n.attr == "__dict__":
            raise Unsupported(f"__dict__ in {fn.name}")
    return out


def _reference_shapes(fn):
    """how a NON-mutator refers to the model's own dictionaries; -> list of (container, 'live') for the references
    that hand out the dictionary itself (`return self._x`, `d = self._x`); any shape that is neither a read nor one
    of those is refused"""
    par = _parents(fn)
    live = []
    for n in ast.walk(fn):
        if not _is_self_attr(n, CONTAINERS | {"_ids"}) or not isinstance(n.ctx, ast.Load):
            continue
        p = par[n]
        if isinstance(p, ast.Attribute) and p.value is n:
            if p.attr in READ_ATTRS:
                continue
            if p.attr in MUTATING:
                continue  # counted by _direct_writes
            raise Unsupported(f"{fn.name}: self.{n.attr}.{p.attr}")
        if isinstance(p, ast.Call) and n in p.args:
            if ast.unparse(p.func) in READ_CALLS:
                continue
            raise Unsupported(f"{fn.name}: self.{n.attr} passed to {ast.unparse(p.func)}")
        if isinstance(p, ast.Subscript) and p.value is n:
            continue
        if isinstance(p, (ast.Compare, ast.BinOp, ast.IfExp, ast.BoolOp, ast.UnaryOp)):
            if isinstance(p, ast.BinOp) and not isinstance(p.op, ast.BitOr):
                raise Unsupported(f"{fn.name}: operator on self.{n.attr}")
            continue
        if isinstance(p, (ast.For, ast.comprehension)) and p.iter is n:
            continue
        if isinstance(p, ast.Return) or (isinstance(p, ast.Assign) and all(isinstance(t, ast.Name) for t in p.targets)):
            live.append(n.attr)
            continue
        raise Unsupported(f"{fn.name}: self.{n.attr} used in {type(p).__name__}")
    return live


def surface(cls, mutators):
    """every function the class body defines: is it public, a property, does it reach the cache (`self._cache` /
    `_create_cache`, transitively through calls on `self`), which dictionaries does it hand out live.
    Refuses: a non-mutator that writes `_ids` / a container (directly or through a call on `self`), a write of
    `_cache` outside `_create_cache`, nested classes / async defs / a second definition of a name."""
    meths = {}
    for n in cls.body:
        if isinstance(n, (ast.AsyncFunctionDef, ast.ClassDef)):
            raise Unsupported(f"class-level {type(n).__name__} {n.name}")
        if isinstance(n, ast.FunctionDef):
            if n.name in meths:
                raise Unsupported(f"{n.name} defined twice")
            meths[n.name] = n
    info = {}
    for name, fn in meths.items():
        decos = [ast.unparse(d) for d in fn.decorator_list]
        if set(decos) - {"_invalidate_cache", "property", "staticmethod"}:
            raise Unsupported(f"decorator {decos} on {name}")
        calls, cache = set(), False
        for s in ast.walk(fn):
            if _is_self_attr(s):
                if s.attr == "_cache":
                    cache = True
                elif s.attr in meths:
                    calls.add(s.attr)
                elif s.attr not in ALL_STATE:
                    raise Unsupported(f"{name} uses self.{s.attr}, which the class does not define")
            elif isinstance(s, ast.Name) and s.id == "Model" and name not in ("check_units",):
                raise Unsupported(f"{name} refers to the class Model")
        info[name] = {"calls": calls, "cache": cache, "writes": _direct_writes(fn),
                      "prop": "property" in decos, "public": _is_public(name)}

    def closure(name, key, seen):
        if name in seen:
            return set() if key == "writes" else False
        seen.add(name)
        if key == "writes":
            out = set(info[name]["writes"])
            for c in info[name]["calls"]:
                out |= closure(c, key, seen)
            return out
        return info[name]["cache"] or any(closure(c, key, seen) for c in info[name]["calls"])

    rows, live = [], []
    for name, fn in meths.items():
        w_direct = info[name]["writes"]
        w_all = closure(name, "writes", set())
        if name in STATE_WRITERS:
            if w_direct != STATE_WRITERS[name]:
                raise Unsupported(f"{name} writes {sorted(w_direct)}")
        elif name in mutators:
            if "_cache" in w_direct or "_ids" in w_direct:
                raise Unsupported(f"{name} writes self._cache / self._ids directly")
        else:
            if w_direct:
                raise Unsupported(f"{name} writes {sorted(w_direct)} but is not a mutator the model knows")
            if w_all - {"_cache"}:
                raise Unsupported(f"{name} reaches a write of {sorted(w_all - {'_cache'})} but is not a mutator the model knows")
            for c in _reference_shapes(fn):
                live.append((name, c))
        rows.append({"name": name, "public": info[name]["public"], "prop": info[name]["prop"],
                     "cache": closure(name, "cache", set()), "mutator": name in mutators})
    return rows, live


def _neg(e):
    """the negation of a condition, with `not` pushed inwards (comparison flipped, De Morgan, double negation)"""
    if isinstance(e, ast.UnaryOp) and isinstance(e.op, ast.Not):
        return _norm_cond(e.operand)
    if isinstance(e, ast.Compare) and len(e.ops) == 1:
        flip = {ast.In: ast.NotIn, ast.NotIn: ast.In, ast.Is: ast.IsNot, ast.IsNot: ast.Is, ast.Eq: ast.NotEq,
                ast.NotEq: ast.Eq}
        t = type(e.ops[0])
        if t in flip:
            return ast.Compare(left=e.left, ops=[flip[t]()], comparators=e.comparators)
    if isinstance(e, ast.BoolOp):
        op = ast.Or() if isinstance(e.op, ast.And) else ast.And()
        return _norm_cond(ast.BoolOp(op=op, values=[_neg(v) for v in e.values]))
    return ast.UnaryOp(op=ast.Not(), operand=_norm_cond(e))


def _norm_cond(e):
    """a condition in normal form: no `not` above a comparison / `and` / `or`; the operands of `and` / `or` flattened
    and ordered by their text (the conditions of the mutators are free of side effects: commuting them changes nothing)"""
    if isinstance(e, ast.UnaryOp) and isinstance(e.op, ast.Not):
        return _neg(e.operand)
    if isinstance(e, ast.BoolOp):
        vals = []
        for v in e.values:
            v = _norm_cond(v)
            if isinstance(v, ast.BoolOp) and type(v.op) is type(e.op):
                vals += v.values
            else:
                vals.append(v)
        vals.sort(key=lambda v: ast.unparse(v))
        return ast.BoolOp(op=e.op, values=vals)
    return e


def _is_raise_only(body):
    return len(body) == 1 and isinstance(body[0], ast.Raise)


def _norm_stmts(body, msg_names):
    """statement list in normal form: docstrings, message assignments and logging dropped; annotated assignments as
    plain ones; `if c: <stmts> else: raise` and `if c: raise else: <stmts>` as the guard `if …: raise` followed by the
    statements; conditions through `_norm_cond`"""
    out = []
    for st in body:
        if isinstance(st, ast.Expr) and isinstance(st.value, ast.Constant):
            continue
        if (isinstance(st, ast.Assign) and len(st.targets) == 1 and isinstance(st.targets[0], ast.Name)
                and st.targets[0].id in msg_names):
            continue
        if isinstance(st, ast.AnnAssign) and st.value is not None and isinstance(st.target, ast.Name):
            if st.target.id in msg_names:
                continue
            st = ast.Assign(targets=[st.target], value=st.value, lineno=st.lineno)
        if isinstance(st, ast.If):
            body_n, else_n = _norm_stmts(st.body, msg_names), _norm_stmts(st.orelse, msg_names)
            if else_n and _is_raise_only(else_n) and not _is_raise_only(body_n):
                out.append(ast.If(test=_neg(st.test), body=else_n, orelse=[]))
                out += body_n
                continue
            if else_n and _is_raise_only(body_n):
                out.append(ast.If(test=_norm_cond(st.test), body=body_n, orelse=[]))
                out += else_n
                continue
            st = ast.If(test=_norm_cond(st.test), body=body_n or [ast.Pass()], orelse=else_n)
        elif isinstance(st, ast.For):
            st = ast.For(target=st.target, iter=st.iter, body=_norm_stmts(st.body, msg_names) or [ast.Pass()],
                         orelse=_norm_stmts(st.orelse, msg_names))
        out.append(st)
    return out


def _msg_names(fn):
    """names that only carry an exception message: assigned, and used nowhere but as the argument of `raise C(name)`"""
    raised_with = {n.exc.args[0].id for n in ast.walk(fn) if isinstance(n, ast.Raise) and isinstance(n.exc, ast.Call)
                   and len(n.exc.args) == 1 and isinstance(n.exc.args[0], ast.Name)}
    raise_arg_nodes = {id(n.exc.args[0]) for n in ast.walk(fn) if isinstance(n, ast.Raise)
                       and isinstance(n.exc, ast.Call) and len(n.exc.args) == 1 and isinstance(n.exc.args[0], ast.Name)}
    used_elsewhere = {n.id for n in ast.walk(fn) if isinstance(n, ast.Name) and isinstance(n.ctx, ast.Load)
                      and id(n) not in raise_arg_nodes}
    return raised_with - used_elsewhere


def _normalised_body(fn):
    """the statements of a function, one string each, in a normal form that only a change of MEANING alters:
    docstrings, messages (whatever the variable is called, f-string or not) and logging dropped, `raise C(…)` → `raise C`,
    parameters and locals renamed v0, v1, … by first appearance, `typing.cast` removed, conditions with `not` pushed
    inwards and `and` / `or` operands ordered, `if c: … else: raise` written as the guard it is"""
    ren = {}

    def nm(x):
        if x == "self":
            return x
        if x not in ren:
            ren[x] = f"v{len(ren)}"
        return ren[x]

    local = {a.arg for a in fn.args.args + fn.args.kwonlyargs}
    if fn.args.vararg:
        local.add(fn.args.vararg.arg)
    if fn.args.kwarg:
        local.add(fn.args.kwarg.arg)
    for n in ast.walk(fn):
        if isinstance(n, ast.Name) and isinstance(n.ctx, ast.Store):
            local.add(n.id)
    msg_names = _msg_names(fn)
    for a in fn.args.args + fn.args.kwonlyargs:
        nm(a.arg)

    class Ren(ast.NodeTransformer):
        def visit_Name(self, node):
            if node.id in local:
                return ast.copy_location(ast.Name(id=nm(node.id), ctx=node.ctx), node)
            return node

        def visit_Raise(self, node):
            e = node.exc.func if isinstance(node.exc, ast.Call) else node.exc
            if not isinstance(e, ast.Name):
                raise Unsupported(f"raise of a non-name in {fn.name}")
            return ast.copy_location(ast.Raise(exc=ast.Name(id=e.id, ctx=ast.Load()), cause=None), node)

        def visit_Call(self, node):
            self.generic_visit(node)
            if isinstance(node.func, ast.Name) and node.func.id == "cast" and len(node.args) == 2:
                return node.args[1]  # typing.cast is the identity
            if isinstance(node.func, ast.Attribute) and ast.unparse(node.func.value) == "LOGGER":
                return ast.Constant(value=None)
            return node

    out = []
    for st in _norm_stmts(fn.body, msg_names):
        st = ast.fix_missing_locations(Ren().visit(st))
        if isinstance(st, ast.Expr) and isinstance(st.value, ast.Constant) and st.value.value is None:
            continue
        txt = ast.unparse(st)
        txt = "; ".join(l.strip() for l in txt.splitlines() if l.strip() not in ("None",))
        out.append(txt)
    # consecutive keyword overrides `if vK is not None: obj.attr = vK` touch different attributes: their order is free
    import re

    pat = re.compile(r"^if (v\d+) is not None:; v\d+\.\w+ = \1$")
    i = 0
    while i < len(out):
        j = i
        while j < len(out) and pat.match(out[j]):
            j += 1
        if j - i > 1 and len({x.split(" = ")[0].split("; ")[1] for x in out[i:j]}) == j - i:
            out[i:j] = sorted(out[i:j])
        i = max(j, i + 1)
    return out


def check_calls(fn):
    """the `self._check_*(…)` calls of a mutator with their arguments (keyword order irrelevant, the `ctx=` / `kind=`
    texts — they only feed messages — dropped), normalised like the bodies"""
    out = []
    for n in ast.walk(fn):
        name = _self_call(n)
        if name is None or not name.startswith("_check_"):
            continue
        if n.args:
            raise Unsupported(f"positional arguments in {name} call of {fn.name}")
        kws = sorted((kw.arg, ast.unparse(kw.value)) for kw in n.keywords if kw.arg not in ("ctx", "kind"))
        if any(k is None for k, _ in kws):
            raise Unsupported(f"**kwargs in {name} call of {fn.name}")
        out.append((n.lineno, n.col_offset, name + "(" + ", ".join(f"{k}={v}" for k, v in kws) + ")"))
    return [t for _, _, t in sorted(out)]


def cache_reads(cls):
    """the model's own dictionaries `_create_cache` looks at, directly or through calls on `self` (sorted)"""
    meths = {n.name: n for n in cls.body if isinstance(n, ast.FunctionDef)}
    if "_create_cache" not in meths:
        raise Unsupported("_create_cache not found")
    seen, todo, reads = set(), ["_create_cache"], set()
    while todo:
        f = todo.pop()
        if f in seen:
            continue
        seen.add(f)
        for n in ast.walk(meths[f]):
            if _is_self_attr(n):
                if n.attr in CONTAINERS:
                    reads.add(n.attr)
                elif n.attr in meths:
                    todo.append(n.attr)
    return sorted(reads)


def helper_bodies(tree, cls):
    """normalised bodies of the private helpers the model's `insertId`, `removeId`, `checkNewIds`, `checkKnown`,
    `scaledValue` and `inval` are written after (the `@_invalidate_cache` wrapper included)"""
    meths = {n.name: n for n in cls.body if isinstance(n, ast.FunctionDef)}
    out = []
    for h in HELPERS:
        if h not in meths:
            raise Unsupported(f"{h} not found")
        out.append((h, _normalised_body(meths[h])))
    deco = next((n for n in tree.body if isinstance(n, ast.FunctionDef) and n.name == "_invalidate_cache"), None)
    if deco is None:
        raise Unsupported("_invalidate_cache not found")
    inner = [n for n in deco.body if isinstance(n, ast.FunctionDef)]
    rest = [n for n in deco.body if not isinstance(n, ast.FunctionDef)
            and not (isinstance(n, ast.Expr) and isinstance(n.value, ast.Constant))]
    if len(inner) != 1 or len(rest) != 1 or not (isinstance(rest[0], ast.Return) and isinstance(rest[0].value, ast.Name)
                                                 and rest[0].value.id == inner[0].name):
        raise Unsupported("shape of _invalidate_cache")
    if inner[0].decorator_list:
        raise Unsupported("decorated wrapper in _invalidate_cache")
    body = _normalised_body(inner[0])
    body = [b.replace(deco.args.args[0].arg, "METHOD") for b in body]
    out.append(("_invalidate_cache", body))
    return out


def _ev_lean(e):
    k = e[0]
    if k == "I":
        return f'.ins "{e[2:]}"'
    if k == "R":
        return ".rem"
    if k == "C":
        _, c, how = e.split(":")
        return f'.cwrite "{c}" "{how}"'
    if k == "W":
        return ".write"
    if k == "G":
        return f'.guard "{e[2:]}"'
    if k == "K":
        return f'.check "{e[2:]}"'
    if k == "P":
        return f".call .{e[2:]}"
    if k == "L":
        return f'.load "{e[2:]}"'
    raise Unsupported(f"event {e}")


def _strs(l):
    return "[" + ", ".join(f'"{x}"' for x in l) + "]"


def _lstr(x):
    return '"' + x.replace("\\", "\\\\").replace('"', '\\"') + '"'


def render(rows, eqf, arity_body, chain, surf=None, live=(), helpers=(), creads=()) -> str:
    names = [r["name"] for r in rows]
    L = []
    L.append("-- GENERATED by translate/c03.py from src/mxlpy/model.py (class Model); do not edit")
    L.append("namespace Mxl.C03.Gen")
    L.append("")
    L.append("/-- every public mutator found in the source -/")
    L.append("inductive Mut where")
    for n in names:
        L.append(f"  | {n}")
    L.append("deriving DecidableEq, Repr, Inhabited")
    L.append("")
    L.append("def Mut.all : List Mut := [" + ", ".join("." + n for n in names) + "]")
    L.append("")
    L.append("inductive IdOrder where")
    L.append("  | idFirst | containerFirst | idOnly | containerOnly | none")
    L.append("deriving DecidableEq, Repr, Inhabited")
    L.append("")
    L.append("inductive FirstWrite where")
    L.append("  | id | container | component | delegate | none")
    L.append("deriving DecidableEq, Repr, Inhabited")
    L.append("")
    L.append("/-- one statement-level event of a mutator body, in source order: `_insert_id(ctx=…)`, `_remove_id`, a write to")
    L.append("    an own container (`set` = item assignment, `del`, `pop`), a write to a component object, a rejecting")
    L.append("    statement with the classes it raises, a `_check_*` helper, a call of another public mutator, a subscript")
    L.append("    load of an own container (KeyError for an unknown name) -/")
    L.append("inductive Ev where")
    L.append("  | ins (ctx : String) | rem | cwrite (container how : String) | write | guard (raises : String)")
    L.append("  | check (helper : String) | call (m : Mut) | load (container : String)")
    L.append("deriving DecidableEq, Repr, Inhabited")
    L.append("")
    L.append("/-- `@_invalidate_cache` is in the decorator list -/")
    L.append("def invalidates : Mut → Bool")
    for r in rows:
        L.append(f"  | .{r['name']} => {'true' if r['invalidates'] else 'false'}")
    L.append("")
    L.append("/-- first `_insert_id`/`_remove_id` call vs first write to an own container, in source order -/")
    L.append("def idOrder : Mut → IdOrder")
    for r in rows:
        L.append(f"  | .{r['name']} => .{r['order']}")
    L.append("")
    L.append("/-- rejecting statements (`if`/`for` … `raise`, `_check_new_ids`) that precede the first write -/")
    L.append("def checksBeforeWrites : Mut → Nat")
    for r in rows:
        L.append(f"  | .{r['name']} => {r['checks']}")
    L.append("")
    L.append("/-- what the first write of the method touches -/")
    L.append("def firstWrite : Mut → FirstWrite")
    for r in rows:
        L.append(f"  | .{r['name']} => .{r['first']}")
    L.append("")
    L.append("/-- public mutators called on `self`, in source order -/")
    L.append("def delegates : Mut → List Mut")
    for r in rows:
        L.append(f"  | .{r['name']} => [" + ", ".join("." + d for d in r["delegates"]) + "]")
    L.append("")
    L.append("/-- the whole body as an event list, in source order -/")
    L.append("def script : Mut → List Ev")
    for r in rows:
        L.append(f"  | .{r['name']} => [" + ", ".join(_ev_lean(e) for e in r["events"]) + "]")
    L.append("")
    L.append("/-- rejecting statements AFTER the first write (a call rejected there would be half applied) -/")
    L.append("def lateGuards : Mut → Nat")
    for r in rows:
        L.append(f"  | .{r['name']} => {r['late_guards']}")
    L.append("")
    L.append("/-- exception classes raised by the explicit rejecting statements before the first write -/")
    L.append("def raisesBefore : Mut → List String")
    for r in rows:
        L.append(f"  | .{r['name']} => {_strs(r['raises_before'])}")
    L.append("")
    L.append("/-- own containers subscripted with the name (KeyError when unknown) before the first write -/")
    L.append("def loadsBefore : Mut → List String")
    for r in rows:
        L.append(f"  | .{r['name']} => {_strs(r['loads_before'])}")
    L.append("")
    L.append("/-- the `ctx=` literals of the `_insert_id` calls, in source order (the values of `Model.ids`) -/")
    L.append("def ctx : Mut → List String")
    for r in rows:
        L.append(f"  | .{r['name']} => {_strs(r['ctx'])}")
    L.append("")
    L.append("/-- own containers written, in source order -/")
    L.append("def containers : Mut → List String")
    for r in rows:
        L.append(f"  | .{r['name']} => {_strs(r['containers'])}")
    L.append("")
    L.append("/-- every statement of the body that can reject the call, WITH its condition (normalised: messages dropped,")
    L.append("    parameters / locals renamed by first appearance) -/")
    L.append("def guards : Mut → List String")
    for r in rows:
        L.append(f"  | .{r['name']} => [" + ", ".join(_lstr(g) for g in r["guards"]) + "]")
    L.append("")
    L.append("/-- the `self._check_*(…)` calls with their arguments, in source order (`ctx=` / `kind=` only feed messages) -/")
    L.append("def checkArgs : Mut → List String")
    for r in rows:
        L.append(f"  | .{r['name']} => [" + ", ".join(_lstr(g) for g in r["check_args"]) + "]")
    L.append("")
    L.append("/-- the complete normalised bodies of the three surrogate mutators (every statement, in order) -/")
    L.append("def surrogateBodies : List (String × List String) := [")
    L.append(",\n".join(f"  ({_lstr(r['name'])}, [" + ", ".join(_lstr(x) for x in r["body"]) + "])"
                        for r in rows if r["name"].endswith("_surrogate")) + "]")
    L.append("")
    L.append("/-- the model's own dictionaries `_create_cache` reads, directly or through calls on `self` -/")
    L.append(f"def cacheReads : List String := {_strs(creads)}")
    L.append("")
    L.append("/-- dataclass fields of `Model` that the generated `__eq__` compares (no `compare=False`) -/")
    L.append(f"def eqFields : List String := {_strs(eqf)}")
    L.append("")
    L.append("/-- what `inspect.getfullargspec` tells `_check_function_arity` about a function: number of positional")
    L.append("    parameters, length of `defaults` (none = `None`), number of keyword-only parameters, `*args` present -/")
    L.append("structure Sig where")
    L.append("  nargs : Nat")
    L.append("  defaults : Option Nat := none")
    L.append("  kwonly : Nat := 0")
    L.append("  varargs : Bool := false")
    L.append("deriving DecidableEq, Repr, Inhabited")
    L.append("")
    L.append("/-- the module-level `_check_function_arity(function, arity)`, statement by statement -/")
    L.append("def checkFunctionArity (sig : Sig) (arity : Nat) : Bool :=")
    L.append("  " + arity_body)
    L.append("")
    L.append("/-- the dictionaries whose functions `_create_cache` checks, in the order of its `it.chain(...)` -/")
    L.append(f"def arityChecked : List String := {_strs(chain[0])}")
    L.append("")
    L.append("/-- the exception the sanity-check loop raises -/")
    L.append(f'def arityError : String := "{chain[1]}"')
    L.append("")
    L.append("/-- the sanity-check loop precedes the dependency sort (its exception wins over a missing dependency) -/")
    L.append(f"def arityBeforeSort : Bool := {'true' if chain[2] else 'false'}")
    L.append("")
    if surf is not None:
        L.append("/-- every PUBLIC function the body of `class Model` defines that is not one of the mutators above (no")
        L.append("    leading underscore, or a dunder), in source order, with: does it reach `self._cache` / `_create_cache`")
        L.append("    (directly or through calls on `self`).  None of them writes `_ids` or a container (the translator")
        L.append("    refuses the source otherwise). -/")
        L.append("def readers : List (String × Bool) := [")
        pub = [r for r in surf if r["public"] and not r["mutator"]]
        L.append(",\n".join(f"  ({_lstr(r['name'])}, {'true' if r['cache'] else 'false'})" for r in pub) + "]")
        L.append("")
        L.append("/-- the properties among them -/")
        L.append("def properties : List String := " + _strs([r["name"] for r in pub if r["prop"]]))
        L.append("")
        L.append("/-- the private functions of the class, in source order -/")
        L.append("def privates : List String := " + _strs([r["name"] for r in surf if not r["public"]]))
        L.append("")
        L.append("/-- non-mutators that hand out one of the model's own dictionaries itself (`return self._x`, `d = self._x`) -/")
        L.append("def liveRefs : List (String × String) := ["
                 + ", ".join(f"({_lstr(a)}, {_lstr(b)})" for a, b in live) + "]")
        L.append("")
        L.append("/-- normalised statements of the private helpers and of the `@_invalidate_cache` wrapper (docstrings and")
        L.append("    messages dropped, parameters / locals renamed by first appearance) -/")
        L.append("def helperBodies : List (String × List String) := [")
        L.append(",\n".join(f"  ({_lstr(h)}, [" + ", ".join(_lstr(x) for x in b) + "])" for h, b in helpers) + "]")
        L.append("")
    L.append("end Mxl.C03.Gen")
    return "\n".join(L) + "\n"


def generate(repo: Path, outdir: Path) -> None:
    src = Path(repo) / "src" / "mxlpy" / "model.py"
    rows = extract(src)
    tree, cls = _model_class(src)
    surf, live = surface(cls, {r["name"] for r in rows})
    text = render(rows, eq_fields(cls), check_function_arity(tree), arity_checked(cls), surf, live,
                  helper_bodies(tree, cls), cache_reads(cls))
    outdir.mkdir(parents=True, exist_ok=True)
    out = outdir / "C03Mutators.lean"
    if not out.exists() or hashlib.sha1(out.read_bytes()).hexdigest() != hashlib.sha1(text.encode()).hexdigest():
        out.write_text(text)


if __name__ == "__main__":
    import sys

    for r in extract(Path(sys.argv[1]) / "src" / "mxlpy" / "model.py"):
        print(r)
