"""C05 — isotopomer expansion preserves base structure, totals and dynamics (DESIGN §6/C05).

R = real `LabelMapper(...).build_model(...)` (reaction names / arguments / stoichiometries, initial
    conditions, derived arguments, RHS at integer isotopomer states, RHS summed per base compound)
M = the Lean model `Mxl.C05.buildModel` through the driver (op "c05")
S = (structure) a declarative per-pattern restatement written without string slicing;
    (dynamics) the *base* model's own RHS at the isotopomer totals; (initial state) totals + placement.
"""
from __future__ import annotations

import itertools as it
import multiprocessing as mp
import os
from fractions import Fraction

from vlib import driver, fexpr
from vlib.content import num

PROPS = ["MxlVerif.Props.C05"]
F_HOMODIMER = "F-C05-1"
F_ZEROLABEL = "F-C05-2"
F_DANGLING = "F-C05-4"
F_UNCOVERED = "F-C05-5"

# --------------------------------------------------------------------------- wire helpers


def prod_expr(n):
    """a0 * a1 * ... * a(n-1)"""
    e = ["a", 0]
    for i in range(1, n):
        e = ["*", e, ["a", i]]
    return e


def lv_of(case):
    return dict((k, n) for k, n in case["lv"])


def unpack(st):
    subs, prods = [], []
    for k, v in st:
        if v < 0:
            subs += [k] * (-v)
        else:
            prods += [k] * v
    return subs, prods


# --------------------------------------------------------------------------- real code


def build_base(case):
    from mxlpy import Model

    b = case["base"]
    m = Model()
    m.add_parameters({k: fexpr.to_float(Fraction(v)) for k, v in b["pars"]})
    m.add_variables({k: fexpr.to_float(Fraction(v)) for k, v in b["vars"]})
    for k, d in b.get("derived", []):
        m.add_derived(k, fn=fexpr.compile_fn(d["e"], len(d["args"])), args=list(d["args"]))
    raw = dict((k, v) for k, v in b.get("raw", []))
    for k, r in b["rxns"]:
        st = {c: int(v) for c, v in r["st"]}
        if k in raw:
            st = {c: py_coef(spec) for c, spec in raw[k]}  # the coefficients as the user wrote them: int | float | Derived
        m.add_reaction(k, fn=fexpr.compile_fn(r["e"], len(r["args"])), args=list(r["args"]), stoichiometry=st)
    return m


def _two():
    return 2.0


def py_coef(spec):
    """{"int": n} | {"float": "n/d"} | "derived" -> the Python object"""
    from mxlpy.model import Derived

    if spec == "derived":
        return Derived(fn=_two, args=[])
    if "int" in spec:
        return int(spec["int"])
    return fexpr.to_float(Fraction(spec["float"]))


def raw_of(case):
    return dict((k, v) for k, v in case["base"].get("raw", []))


def first_bad(coefs):
    """the exception `_unpack_stoichiometries` raises on these coefficients, read entry by entry: a Derived is no
    number (TypeError), a float that is not a whole number cannot be labelled (ValueError); None when all pass"""
    for _, spec in coefs:
        if spec == "derived":
            return "TypeError"
        if "float" in spec and Fraction(spec["float"]).denominator != 1:
            return "ValueError"
    return None


def nonint(coefs):
    return first_bad(coefs) is not None


def init_arg(case):
    """initial_labels as the user would write it: `int` for a singleton marked so, else list"""
    out = {}
    for k, pos in case.get("init", []):
        out[k] = pos[0] if (len(pos) == 1 and k in case.get("init_as_int", [])) else list(pos)
    return out or None


def canon_rxns(rxns):
    out = []
    for name, args, st in rxns:
        out.append([name, list(args), sorted([c, str(int(v))] for c, v in st if int(v) != 0)])
    return sorted(out)


def _exc(e):
    return {"err": [type(e).__name__]}


def real_worker(case):
    """never raises: an exception crossing the process boundary may not unpickle (mxlpy's
    MissingDependenciesError does not) and would stall the pool"""
    try:
        return _real_worker(case)
    except Exception:  # noqa: BLE001  every call into mxlpy is guarded inside: this is the environment; retry once
        pass
    try:
        return _real_worker(case)
    except BaseException as e:  # noqa: BLE001
        import traceback

        return {"build": {"err": ["worker:" + type(e).__name__, traceback.format_exc()[-600:]]}}


def edit_mapper(mapper, setting, base, how):
    """Bring an existing mapper to `setting` the way a user would: by editing its public
    attributes (`label_variables`, `label_maps`, `model`), in place or by assignment."""
    lv = lv_of(setting)
    maps = {k: list(v) for k, v in setting["maps"]}
    if how == "assign":
        mapper.label_variables = lv
        mapper.label_maps = maps
    else:
        for d, new in ((mapper.label_variables, lv), (mapper.label_maps, maps)):
            if list(d) == list(new):
                for k, v in new.items():  # item assignment on the caller-visible dict
                    d[k] = v
            else:  # keys added / removed / reordered: same dict object, new contents
                d.clear()
                d.update(new)
    if base is not None:
        mapper.model = base


def mapper_session(cls, case, build):
    """One mapper object that has already been used: it is constructed for the first entry of
    case['history'] and `build(mapper, setting)` is called for every history entry (failures are
    ignored, as a user correcting a bad map would), the mapper being edited in between; finally it
    is edited to hold `case` itself.  Without history: a fresh mapper.  Returns (mapper, base)."""
    hist = case.get("history") or []
    seq = [*hist, case]
    base = build_base(seq[0])
    mapper = cls(base, label_variables=lv_of(seq[0]), label_maps={k: list(v) for k, v in seq[0]["maps"]})
    for prev, cur in zip(seq, seq[1:]):
        try:
            build(mapper, prev)
        except Exception:  # noqa: BLE001, S110
            pass
        nb = None
        if canon_base(prev) != canon_base(cur):
            base = nb = build_base(cur)
        edit_mapper(mapper, cur, nb, cur.get("edit", "inplace"))
    return mapper, base


def canon_base(case):
    import json

    return json.dumps(case["base"], sort_keys=True)


def attrs_of(mapper):
    return {"lv": [[k, v] for k, v in mapper.label_variables.items()],
            "maps": [[k, list(v)] for k, v in mapper.label_maps.items()]}


def run_queries(mapper, case):
    """the public queries of LabelMapper; returns (canonical results, canonical get_isotopomers(), the
    container objects that were handed out)"""
    handed, res = [], []
    for q in case.get("queries") or []:
        try:
            if q[0] == "of":
                r = mapper.get_isotopomer_of(q[1])
            elif q[0] == "at":
                ps = q[2]
                r = mapper.get_isotopomers_of_at_position(q[1], ps[0] if (len(ps) == 1 and q[3:] == ["int"]) else list(ps))
            else:
                r = mapper.get_isotopomers_of_with_n_labels(q[1], q[2])
            handed.append(r)
            res.append({"ok": list(r)})
        except Exception as e:  # noqa: BLE001
            res.append(_exc(e))
    try:
        d = mapper.get_isotopomers()
        isos = {"ok": [[k, list(v)] for k, v in d.items()]}
        handed += list(d.values())
        handed.append(d)
    except Exception as e:  # noqa: BLE001
        isos = _exc(e)
    return res, isos, handed


def edit_in_place(obj, how):
    if isinstance(obj, dict):
        if how in ("clear", "pop") and obj:
            obj.pop(next(iter(obj)))
        return
    if how == "reverse":
        obj.reverse()
    elif how == "sort_desc":
        obj.sort(reverse=True)
    elif how == "clear":
        obj.clear()
    elif how == "pop" and obj:
        obj.pop(0)
    elif how == "append":
        obj.append("junk")


def _real_worker(case):
    import warnings

    warnings.filterwarnings("ignore")
    from mxlpy.label_map import LabelMapper

    out = {}
    try:
        mapper, base = mapper_session(LabelMapper, case, lambda mp, c: mp.build_model(initial_labels=init_arg(c)))
    except Exception as e:  # noqa: BLE001
        return {"build": {"err": ["base:" + type(e).__name__]}}
    import copy

    if case.get("queries") is not None:
        out["queries"], out["isos"], handed = run_queries(mapper, case)
        if case.get("mutate"):
            # the caller does what it likes with the containers the public queries handed out ...
            for obj in handed:
                edit_in_place(obj, case["mutate"])
            # ... the mapper's answers and the model it builds are still those of its label counts and maps
            out["queries_after"], out["isos_after"], _ = run_queries(mapper, case)
    il = init_arg(case)
    il_keep = copy.deepcopy(il)
    try:
        lm = mapper.build_model(initial_labels=il)
    except Exception as e:  # noqa: BLE001
        return dict(out, build=_exc(e), attrs=attrs_of(mapper), dims=real_dims(case, base))
    if il != il_keep:
        # the caller's labelling request is not the library's to change (it is typically reused for the next build)
        return dict(out, build={"err": ["caller's initial_labels dict was modified by build_model"]}, attrs=attrs_of(mapper))
    out["build"] = {"ok": True}
    out["attrs"] = attrs_of(mapper)
    out["dims"] = real_dims(case, base)
    out["uraw"] = real_unmapped(case, lm)
    try:
        lm.get_right_hand_side(dict(lm.get_initial_conditions()), 0.0)
        out["evaluates"] = {"ok": True}
    except Exception as e:  # noqa: BLE001
        out["evaluates"] = _exc(e)
    ru_ = raw_unmapped(case)  # compared as written (`uraw`), not through the integer reaction list
    out["rxns"] = canon_rxns([[k, r.args, list(r.stoichiometry.items())] for k, r in lm.get_raw_reactions().items() if k not in ru_])
    try:
        out["vars"] = {"ok": sorted([k, num(v)] for k, v in lm.get_initial_conditions().items())}
    except Exception as e:  # noqa: BLE001
        out["vars"] = _exc(e)
    try:
        out["derived"] = sorted([k, list(d.args)] for k, d in lm.get_raw_derived().items())
    except Exception as e:  # noqa: BLE001
        out["derived"] = _exc(e)
    try:
        out["pars"] = sorted([k, num(v)] for k, v in lm.get_parameter_values().items())
    except Exception as e:  # noqa: BLE001
        out["pars"] = _exc(e)
    rhs, sums, base_rhs, prod, fluxes, posflux = [], [], [], [], [], []
    maps_ = dict((k, v) for k, v in case["maps"])
    lv = lv_of(case)
    for st in case.get("states", []):
        state = {k: fexpr.to_float(Fraction(v)) for k, v in st}
        try:
            r = lm.get_right_hand_side(state, 0.0)
            rhs.append({"ok": sorted([k, num(v)] for k, v in r.items())})
            s = []
            for x, _ in case["base"]["vars"]:
                names = iso_names(x, lv.get(x))
                s.append([x, num(sum(Fraction(float(r[n])) for n in names))])
            sums.append({"ok": s})
        except Exception as e:  # noqa: BLE001
            rhs.append(_exc(e))
            sums.append(_exc(e))
        # the base model's own derivative at the isotopomer totals
        try:
            tot = {}
            for x, _ in case["base"]["vars"]:
                tot[x] = float(sum(Fraction(state[n]) for n in iso_names(x, lv.get(x))))
            br = base.get_right_hand_side(tot, 0.0)
            base_rhs.append({"ok": [[x, num(br[x])] for x, _ in case["base"]["vars"]]})
        except Exception as e:  # noqa: BLE001
            base_rhs.append(_exc(e))
        # base fluxes at the totals; label flux per position from the real labelled model's fluxes
        try:
            bf = base.get_fluxes(tot, 0.0)
            fluxes.append({"ok": [[k, num(bf[k])] for k, _ in case["base"]["rxns"]]})
        except Exception as e:  # noqa: BLE001
            fluxes.append(_exc(e))
        try:
            lf = lm.get_fluxes(state, 0.0)
            pf = []
            for k, r0 in case["base"]["rxns"]:
                if k not in maps_:
                    continue
                grp = [(n, Fraction(float(lf[n]))) for n in lf.index if n.startswith(k + "__")]
                s_, p_ = unpack(r0["st"])
                N = max(sum(lv.get(c, 0) for c in s_), sum(lv.get(c, 0) for c in p_))
                for pos in range(N):
                    pf.append([k, pos, num(fexpr.to_float(sum((v for n, v in grp if n[len(k) + 2:][pos:pos + 1] == "1"), Fraction(0))))])
            posflux.append({"ok": pf})
        except Exception as e:  # noqa: BLE001
            posflux.append(_exc(e))
        # is the base rate law the product of its arguments at the totals (the `MassAction` premise)
        try:
            import math

            env = base.get_args(tot, 0.0)
            prod.append({"ok": [[k, bool(Fraction(float(r.fn(*[env[a] for a in r.args])))
                                     == math.prod([Fraction(float(env[a])) for a in r.args], start=Fraction(1)))]
                                for k, r in base.get_raw_reactions().items()]})
        except Exception as e:  # noqa: BLE001
            prod.append(_exc(e))
    out["rhs"], out["sums"], out["base_rhs"], out["prod"] = rhs, sums, base_rhs, prod
    out["fluxes"], out["posflux"] = fluxes, posflux
    return out


def coef_spec(v):
    from mxlpy.model import Derived

    if isinstance(v, Derived):
        return "derived"
    if isinstance(v, int):
        return {"int": str(v)}
    return {"float": num(v)}


def real_unmapped(case, lm):
    """the reactions without a label map as they arrived in the labelled model: name, arguments, raw stoichiometry"""
    maps = dict((k, v) for k, v in case["maps"])
    rx = lm.get_raw_reactions()
    out = []
    for name, _ in case["base"]["rxns"]:
        if name in maps:
            continue
        r = rx.get(name)
        if r is None:
            out.append([name, "missing"])
        else:
            out.append([name, list(r.args), [[c, coef_spec(v)] for c, v in r.stoichiometry.items()]])
    return out


def spec_unmapped(case):
    """declaratively: own name, labelled arguments read `<compound>__total`, stoichiometry exactly as in the base model"""
    lv = lv_of(case)
    maps = dict((k, v) for k, v in case["maps"])
    raw = raw_of(case)
    out = []
    for name, r in case["base"]["rxns"]:
        if name in maps:
            continue
        st = raw[name] if name in raw else [[c, {"int": v}] for c, v in r["st"]]
        out.append([name, [a + "__total" if a in lv else a for a in r["args"]],
                    [[c, (spec if spec == "derived" else {k: (str(v) if k == "int" else num(Fraction(v))) for k, v in spec.items()})]
                     for c, spec in st]])
    return out


def spec_dangling(case):
    """compounds with label positions that a reaction without a label map changes: the labelled model names them in a
    stoichiometry but has only their isotopomers as variables"""
    lv = lv_of(case)
    maps = dict((k, v) for k, v in case["maps"])
    raw = raw_of(case)
    out = []
    for name, r in case["base"]["rxns"]:
        if name not in maps:
            st = raw[name] if name in raw else r["st"]
            out += [c for c, _ in st if lv.get(c, 0) > 0]
    return out


def raw_unmapped(case):
    maps = dict((k, v) for k, v in case["maps"])
    return {k for k in raw_of(case) if k not in maps}


def real_dims(case, base):
    """per mapped reaction: substrate / product label positions and the external label string, from the real helpers"""
    from mxlpy import label_map as L

    lv = lv_of(case)
    maps = dict((k, v) for k, v in case["maps"])
    out = []
    try:
        for name, rxn in base.get_raw_reactions().items():
            if name not in maps:
                continue
            bs, bp = L._unpack_stoichiometries(stoichiometries=rxn.stoichiometry)
            ns = sum(L._get_labels_per_variable(label_variables=lv, compounds=bs))
            np_ = sum(L._get_labels_per_variable(label_variables=lv, compounds=bp))
            # the map counted from the front, by Python's own index rule on a sequence as long as the rate suffix
            try:
                front = [list(range(max(ns, np_)))[i] for i in maps[name]]
            except IndexError:
                front = ["IndexError"]
            out.append([name, ns, np_, L._get_external_labels(total_product_labels=np_, total_substrate_labels=ns), front])
        # net coefficient of every base variable in every base reaction
        net = [[name, x, str(int(rxn.stoichiometry.get(x, 0)))]
               for name, rxn in base.get_raw_reactions().items() for x, _ in case["base"]["vars"]]
    except Exception as e:  # noqa: BLE001
        return _exc(e)
    # the label string of every initial_labels entry of a listed compound, by Python's own `idx in positions`
    suf = [[k, "".join("1" if idx in pos else "0" for idx in range(lv[k]))] for k, pos in case.get("init", []) if k in lv]
    return {"ok": out, "net": net, "initsuf": suf}


# --------------------------------------------------------------------------- oracle (declarative)


def iso_names(x, n):
    """names of the isotopomers of x (n = None: unlabelled)"""
    if not n:
        return [x]
    return [x + "__" + "".join(b) for b in it.product("01", repeat=n)]


def spec_structure(case):
    """Expected build outcome and reactions, stated per substrate-occurrence pattern:
    one reaction per assignment of a bit-tuple to every substrate occurrence; product atom i
    (global numbering over product occurrences) carries substrate atom map[i] (global numbering
    over substrate occurrences) or is labelled when map[i] lies beyond the substrate atoms;
    every rate argument naming a substrate occurrence reads that occurrence's isotopomer."""
    lv = lv_of(case)
    maps = dict((k, v) for k, v in case["maps"])
    # build error: first offending mapped reaction in declaration order
    raw = raw_of(case)
    for name, r in case["base"]["rxns"]:
        if name not in maps:
            continue
        if name in raw and first_bad(raw[name]):
            # a mapped reaction is unpacked first: whole numbers pass however they are written, before the map is looked at
            return {"err": [first_bad(raw[name])]}, None
        subs, prods = unpack(r["st"])
        ns = sum(lv.get(c, 0) for c in subs)
        np_ = sum(lv.get(c, 0) for c in prods)
        m = maps[name]
        if len(m) < ns:
            return {"err": ["ValueError"]}, None
        if any(i >= max(ns, np_) or i < -max(ns, np_) for i in m):
            return {"err": ["IndexError"]}, None  # `rate_suffix[i]`: -N <= i < N, a negative index counts from the end
    out = []
    for name, r in case["base"]["rxns"]:
        if name not in maps:
            out.append([name, [a + "__total" if a in lv else a for a in r["args"]],
                        sorted([c, str(v)] for c, v in r["st"] if v != 0)])
            continue
        m = maps[name]
        subs, prods = unpack(r["st"])
        nsub = [lv.get(c, 0) for c in subs]
        nprod = [lv.get(c, 0) for c in prods]
        ns, np_ = sum(nsub), sum(nprod)
        for blocks in it.product(*[list(it.product((0, 1), repeat=k)) for k in nsub]):
            atoms = [b for blk in blocks for b in blk]  # substrate atoms, global numbering
            ext = max(0, np_ - ns)
            src = atoms + [1] * ext
            rname = name + "__" + "".join(map(str, src))
            coef = {}

            def nm(c, bits):
                return c + "__" + "".join(map(str, bits)) if bits else c

            sub_names = [nm(c, blk) for c, blk in zip(subs, blocks)]
            for s in sub_names:
                coef[s] = coef.get(s, 0) - 1
            pos = 0
            prod_names = []
            for c, k in zip(prods, nprod):
                bits = [src[m[i] if m[i] >= 0 else len(src) + m[i]] for i in range(pos, min(pos + k, len(m)))]
                pos += k
                prod_names.append(nm(c, bits))
            for p in prod_names:
                coef[p] = coef.get(p, 0) + 1
            # arguments: j-th mention of a substrate compound reads its j-th occurrence
            seen = {}
            args = []
            for a in r["args"]:
                occ = [i for i, c in enumerate(subs) if c == a]
                if occ:
                    j = min(seen.get(a, 0), len(occ) - 1)
                    seen[a] = seen.get(a, 0) + 1
                    args.append(sub_names[occ[j]])
                elif a in prods:
                    args.append(prod_names[len(prods) - 1 - prods[::-1].index(a)])
                else:
                    args.append(a)
            out.append([rname, args, sorted([c, str(v)] for c, v in coef.items() if v != 0)])
    return {"ok": True}, sorted(out)


def spec_vars(case):
    """totals preserved, label placed at the requested positions"""
    lv = lv_of(case)
    init = dict((k, v) for k, v in case.get("init", []))
    out = []
    for x, v in case["base"]["vars"]:
        n = lv.get(x)
        if x not in lv:
            out.append([x, num(Fraction(v))])
            continue
        want = tuple(1 if i in init.get(x, []) else 0 for i in range(n))
        for b in it.product((0, 1), repeat=n):
            nm = x + "__" + "".join(map(str, b)) if n else x
            out.append([nm, num(Fraction(v)) if b == want else "0"])
    return {"ok": sorted(out)}


def spec_derived(case):
    lv = lv_of(case)
    out = [[x + "__total", iso_names(x, n)] for x, n in case["lv"]]
    for k, d in case["base"].get("derived", []):
        out.append([k, [a + "__total" if a in lv else a for a in d["args"]]])
    return sorted(out)


def spec_queries(case):
    """the public queries, declaratively: the isotopomers of x / those labelled at every requested position /
    those with exactly k labels (most significant position first: descending bit strings).  A compound listed
    with 0 label positions is outside this oracle (entry None: there the Lean model alone is compared) -- the
    code formats `x__` + empty pattern for it, which names no variable of the labelled model."""
    lv = lv_of(case)
    out = []
    for q in case.get("queries") or []:
        x = q[1]
        if x not in lv:
            out.append({"err": ["KeyError"]})
            continue
        n = lv[x]
        allbits = ["".join(b) for b in it.product("01", repeat=n)]
        if q[0] == "of":
            out.append({"ok": iso_names(x, n)})
        elif q[0] == "at":
            if any(p >= n or p < -n for p in q[2]):
                out.append({"err": ["IndexError"]})  # `label_positions[p] = "1"`: -n <= p < n, a negative p counts from the end
            elif n == 0:
                out.append(None)
            else:
                out.append({"ok": [x + "__" + b for b in allbits if all(b[p % n] == "1" for p in q[2])]})
        elif q[2] < 0:
            out.append({"err": ["ValueError"]})  # it.combinations(range(n), k) refuses a negative k
        elif n == 0:
            out.append(None)
        else:
            out.append({"ok": [x + "__" + b for b in sorted(allbits, reverse=True) if b.count("1") == q[2]]})
    return out


def spec_isos(case):
    return {"ok": [[x, iso_names(x, n)] for x, n in case["lv"]]}


def gen_queries(rng, case):
    lv = lv_of(case)
    names = [x for x, _ in case["base"]["vars"]]
    qs = []
    for x in rng.sample(names, min(len(names), rng.randint(1, 3))):
        n = lv.get(x) or 0
        qs.append(["of", x])
        r = rng.random()
        if r < 0.5:
            ps = sorted(rng.sample(range(n), rng.randint(0, min(n, 2)))) if n else []
            if rng.random() < 0.1:
                ps = ps + [n + rng.randint(0, 1)]
            if n and rng.random() < 0.2:
                ps = [p - n if (p < n and rng.random() < 0.6) else p for p in ps]  # written from the end
                if rng.random() < 0.2:
                    ps = ps + [-n - 1]
            q = ["at", x, ps]
            if len(ps) == 1 and rng.random() < 0.5:
                q.append("int")
            qs.append(q)
        else:
            qs.append(["n", x, rng.randint(0, n + 1) if rng.random() < 0.9 else -rng.randint(1, 2)])
    return qs


# --------------------------------------------------------------------------- classification


def nondistinct_rxns(case):
    """mapped reactions in finding class F-C05-1: a labelled compound named by the rate law occurs
    more than once among the substrate and product occurrences"""
    lv = lv_of(case)
    maps = dict((k, v) for k, v in case["maps"])
    out = []
    for name, r in case["base"]["rxns"]:
        if name not in maps:
            continue
        subs, prods = unpack(r["st"])
        if any(lv.get(a, 0) > 0 and (subs + prods).count(a) > 1 for a in r["args"]):
            out.append(name)
    return out


def dynamics_in_scope(case):
    """the summed-derivative claim is made for: every mapped reaction mass action (case['ma'] lists
    them), map covering the product atoms; unmapped reactions touching no labelled compound"""
    lv = lv_of(case)
    maps = dict((k, v) for k, v in case["maps"])
    for name, r in case["base"]["rxns"]:
        subs, prods = unpack(r["st"])
        if name in maps:
            if name not in case.get("ma", []):
                return False
            if len(maps[name]) < sum(lv.get(c, 0) for c in prods):
                return False
        elif any(c in lv for c, _ in r["st"]):
            return False
    return True


def covers_products(case):
    lv = lv_of(case)
    maps = dict((k, v) for k, v in case["maps"])
    for name, r in case["base"]["rxns"]:
        if name in maps:
            _, prods = unpack(r["st"])
            if len(maps[name]) < sum(lv.get(c, 0) for c in prods):
                return False
    return True


def zero_label_init(case):
    lv = lv_of(case)
    return any(lv.get(k) == 0 for k, _ in case.get("init", []))


# --------------------------------------------------------------------------- evaluation

_pool = None


def pool():
    global _pool
    if _pool is None:
        import warnings

        warnings.filterwarnings("ignore")
        import pandas  # noqa: F401  imported before the fork so that the workers inherit the modules
        import mxlpy.label_map  # noqa: F401
        import mxlpy.linear_label_map  # noqa: F401

        _pool = mp.get_context("fork").Pool(min(16, os.cpu_count() or 4))
    return _pool


def model_request(case):
    return {"op": "c05", "lv": case["lv"], "maps": case["maps"], "init": case.get("init", []),
            "base": {"pars": case["base"]["pars"], "vars": case["base"]["vars"],
                     "derived": case["base"].get("derived", []),
                     "rxns": [[k, {"args": r["args"], "e": r["e"], "st": r["st"]}] for k, r in case["base"]["rxns"]]},
            "states": case.get("states", []),
            "raw": case["base"].get("raw", []),
            "queries": [q[:3] for q in case.get("queries") or []]}


def canon_Q(m):
    return {"queries": [({"ok": q["ok"]} if "ok" in q else {"err": [q["err"][0]]}) for q in m.get("queries", [])],
            "isos": {"ok": m.get("isos", [])},
            "dims": {"ok": [list(d) for d in m.get("dims", [])], "net": [list(d) for d in m.get("net", [])],
                     "initsuf": [list(d) for d in m.get("initsuf", [])]},
            "uraw": [[n, list(a), [[c, (sp if sp == "derived" else dict(sp))] for c, sp in st]] for n, a, st in m.get("uraw", [])],
            "evaluates": {"ok": True} if not m.get("dangling") else {"err": ["KeyError"]}}


def canon_M(m):
    if m.get("nat") == "differs":
        # the natural-number entry point (the one the theorems are stated for) and the integer one disagree
        return dict(canon_Q(m), build={"err": ["model: buildModel and buildModelI differ on a map without negative indices"]})
    if "err" in m:
        return dict(canon_Q(m), build={"err": [m["err"][0]]})
    o = m["ok"]
    return {
        **canon_Q(m),
        "build": {"ok": True},
        "rxns": canon_rxns([[n, a, [[c, int(v)] for c, v in st]] for n, a, st in o["rxns"]]),
        "vars": {"ok": sorted(o["vars"])},
        "derived": sorted(o["derived"]),
        "pars": sorted(o["pars"]),
        "rhs": [({"ok": sorted(r)} if isinstance(r, list) else r) for r in o["rhs"]],
        "sums": [({"ok": s} if isinstance(s, list) else s) for s in o["sums"]],
        "base_rhs": [{"ok": s} for s in o["base_rhs"]],
        "fluxes": [{"ok": s} for s in o["fluxes"]],
        "posflux": [{"ok": [list(x) for x in s]} for s in o["posflux"]],
        "prod": [{"ok": [list(x) for x in s]} for s in o["prod"]],
    }


def evaluate_fresh(cases, use_driver=True):
    """one forked process per case"""
    with mp.get_context("fork").Pool(min(16, os.cpu_count() or 4), maxtasksperchild=1) as p:
        Rs = p.map(real_worker, cases, chunksize=1)
    Ms = [canon_M(m) for m in driver.call_batch([model_request(c) for c in cases])] if use_driver else [None] * len(cases)
    return list(zip(Rs, Ms))


def evaluate(cases, use_driver=True):
    if cases and all(c.get("mutate") for c in cases):
        return evaluate_fresh(cases, use_driver)
    p = pool()  # (created before the thread below: the workers are forked from a single-threaded process)
    box = {}
    th = None
    if use_driver:
        # the Lean driver works on the batch while the workers run the real code
        import threading

        def run_driver():
            try:
                box["M"] = driver.call_batch([model_request(c) for c in cases])
            except BaseException as e:  # noqa: BLE001
                box["err"] = e

        th = threading.Thread(target=run_driver)
        th.start()
    Rs = p.map(real_worker, cases, chunksize=4)
    if th is not None:
        th.join()
        if "err" in box:
            raise box["err"]
        Ms = [canon_M(m) for m in box["M"]]
    else:
        Ms = [None] * len(cases)
    return list(zip(Rs, Ms))


def shape_of(case):
    lv = lv_of(case)
    parts = [f"reused{len(case['history'])}"] if case.get("history") else []
    for name, r in case["base"]["rxns"]:
        subs, prods = unpack(r["st"])
        tag = "m" if name in dict(case["maps"]) else "u"
        parts.append(f"{tag}{''.join(str(lv.get(c, 'x')) for c in subs)}>{''.join(str(lv.get(c, 'x')) for c in prods)}")
    return " ".join(parts) + (" d" if case["base"].get("derived") else "") + (" i" if case.get("init") else "")


def judge_case(ctx, case, R, M):
    ctx.count(case, shape_of(case), nontrivial=bool(case["maps"]))
    sub = {k: v for k, v in case.items() if k != "states"}
    sb, srx = spec_structure(case)
    Mb = None if M is None else M["build"]
    if "attrs" in R:
        # building must not edit the mapper's (caller-visible) label counts and maps
        ctx.judge(sub, R["attrs"], {"lv": case["lv"], "maps": case["maps"]}, None,
                  what="mapper attributes after build_model")
    # 0. the public queries (before and after the caller edited what they returned)
    for key in ("", "_after"):
        if "queries" + key in R:
            what = "public isotopomer queries" + (" after the caller edited the returned containers" if key else "")
            for q, r, sq, mq in zip(case["queries"], R["queries" + key], spec_queries(case),
                                    [None] * len(case["queries"]) if M is None else M["queries"]):
                ctx.judge(dict(sub, queries=[q]), r, r if sq is None else sq, mq, what=what)
            ctx.judge(sub, R["isos" + key], spec_isos(case), None if M is None else M["isos"], what="get_isotopomers()" + key)
    # 0b. the vocabulary of the theorems (nSub, nProd, extOf) against the real helpers
    if "dims" in R and not any(nonint(v) for v in raw_of(case).values()):
        ctx.judge(sub, R["dims"], R["dims"], None if M is None else M["dims"],
                  what="substrate / product label positions and external label string (real helpers vs model)")
    # 1. accepted / rejected with the right exception class
    if ctx.judge(sub, R["build"], sb, Mb, what="build outcome (short map -> ValueError, index outside -N..N-1 -> IndexError)") != "ok":
        return
    if "err" in R["build"]:
        return
    nd = nondistinct_rxns(case)
    cov = covers_products(case)
    # 1b. reactions without a label map: passed through untouched; labelled compounds they change dangle
    ctx.judge(sub, R["uraw"], spec_unmapped(case), None if M is None else M["uraw"],
              what="reactions without a label map: own name, totals as arguments, stoichiometry untouched")
    # a labelled model that was built can be evaluated - except two finding classes (R = M = KeyError):
    # F-C05-4 an unmapped reaction changes a compound with label positions (class = spec_dangling);
    # F-C05-5 a map covers the substrates but not the product atoms (class = not covers_products): the product names
    #         cut from the too short product string are no variables of the labelled model
    ctx.judge(sub, R["evaluates"], {"ok": True}, None if M is None else M["evaluates"],
              finding=(F_UNCOVERED if not cov else (F_DANGLING if spec_dangling(case) else None)),
              what="the labelled model that build_model returned evaluates at its initial state")
    ru = raw_unmapped(case)
    if ru:
        # their coefficients are compared above as written; the integer reaction lists below leave them out
        drop = lambda rx: [r for r in rx if r[0] not in ru]  # noqa: E731
        R = dict(R, rxns=drop(R["rxns"]))
        srx = drop(srx)
        if M is not None:
            M = dict(M, rxns=drop(M["rxns"]))
    # 2. structure: names and stoichiometries always; arguments outside the finding class
    strip = lambda rx: [[n, st] for n, _, st in rx]  # noqa: E731
    if cov:
        ctx.judge(sub, strip(R["rxns"]), strip(srx), None if M is None else strip(M["rxns"]),
                  what="reaction names and stoichiometries")
        only = lambda rx, keep: [[n, a] for n, a, _ in rx if (n.split("__")[0] in nd) == keep]  # noqa: E731
        ctx.judge(sub, only(R["rxns"], False), only(srx, False), None if M is None else only(M["rxns"], False),
                  what="rate arguments")
        if nd:
            ctx.judge(sub, only(R["rxns"], True), only(srx, True), None if M is None else only(M["rxns"], True),
                      finding=F_HOMODIMER, what="rate arguments of a reaction with a repeated labelled compound")
    else:
        # map does not cover the product atoms: outside the property's domain, model must still agree
        ctx.judge(sub, R["rxns"], R["rxns"], None if M is None else M["rxns"], what="structure (map shorter than product atoms)")
    # 3. initial state
    ctx.judge(sub, R["vars"], spec_vars(case), None if M is None else M["vars"],
              finding=F_ZEROLABEL if zero_label_init(case) else None, what="initial conditions: totals and label placement")
    ctx.judge(sub, R["derived"], spec_derived(case), None if M is None else M["derived"], what="totals / derived arguments")
    ctx.judge(sub, R["pars"], sorted([k, num(Fraction(v))] for k, v in case["base"]["pars"]),
              None if M is None else M["pars"], what="parameters")
    # 4. numbers
    scope = dynamics_in_scope(case)
    for i, st in enumerate(case.get("states", [])):
        one = dict(sub, states=[st])
        if cov:
            # RHS of the labelled model: real vs Lean model (drift check only)
            ctx.judge(one, R["rhs"][i], R["rhs"][i], None if M is None else M["rhs"][i], what="labelled RHS real vs model")
        if cov and "ok" in R["base_rhs"][i] and "ok" in R["rhs"][i]:
            # the right-hand side of the dynamics theorems (`baseRhsOf` at `totalsEnv`) is the real base model's RHS
            ctx.judge(one, R["base_rhs"][i], R["base_rhs"][i], None if M is None else M["base_rhs"][i],
                      what="base derivative at the totals: real base model vs the model's baseRhsOf")
            ctx.judge(one, R["fluxes"][i], R["fluxes"][i], None if M is None else M["fluxes"][i],
                      what="base fluxes at the totals: real base model vs the model's fluxAtTotals")
            ctx.judge(one, R["posflux"][i], R["posflux"][i], None if M is None else M["posflux"][i],
                      what="label flux per padded position (sum of isotopomer rates labelled there): real labelled model vs model")
            ctx.judge(one, R["prod"][i], R["prod"][i], None if M is None else M["prod"][i],
                      what="rate law = product of its arguments at the totals (MassAction premise): real vs model")
            ma = set(case.get("ma", []))
            bad = [k for k, ok in (R["prod"][i].get("ok") or []) if k in ma and not ok]
            if bad:
                ctx.violation(one, bad, "a reaction generated as mass action is not the product of its arguments")
        if scope and "ok" in R["rhs"][i]:
            ctx.judge(one, R["sums"][i], R["base_rhs"][i], None if M is None else M["sums"][i],
                      finding=F_HOMODIMER if nd else None, what="summed isotopomer derivatives vs base derivative at totals")


# --------------------------------------------------------------------------- generators

STATE_VALS = (0, 1, 2, 3, 5)


def gen_states(rng, case, n=2):
    lv = lv_of(case)
    names = [nm for x, _ in case["base"]["vars"] for nm in iso_names(x, lv.get(x))]
    return [[[nm, str(rng.choice(STATE_VALS))] for nm in names] for _ in range(n)]


def single_rxn_case(subs, prods, labels, m, *, init=None):
    """one mapped mass-action reaction `v` over the given occurrences"""
    st = {}
    for c in subs:
        st[c] = st.get(c, 0) - 1
    for c in prods:
        st[c] = st.get(c, 0) + 1
    cpds = list(dict.fromkeys(subs + prods))
    args = ["k"] + list(subs)
    return {
        "lv": [[c, labels[c]] for c in cpds if labels[c] is not None],
        "maps": [["v", list(m)]],
        "init": init or [],
        "ma": ["v"],
        "base": {"pars": [["k", "2"]], "vars": [[c, str(i + 1)] for i, c in enumerate(cpds)], "derived": [],
                 "rxns": [["v", {"args": args, "e": prod_expr(len(args)), "st": [[c, v] for c, v in st.items()]}]]},
    }


def exhaustive_cases(tier):
    """all maps for <=2 substrates / <=2 products with <=2 labels each (seed-independent)"""
    out = []
    sub_shapes = [[]] + [[a] for a in (0, 1, 2)] + [[a, b] for a in (0, 1, 2) for b in (0, 1, 2)]
    for ss in sub_shapes:
        for ps in sub_shapes:
            ns, np_ = sum(ss), sum(ps)
            N = max(ns, np_)
            if N == 0 or (not ss and not ps):
                continue
            subs = [f"S{i}" for i in range(len(ss))]
            prods = [f"P{i}" for i in range(len(ps))]
            labels = {**dict(zip(subs, ss)), **dict(zip(prods, ps))}
            if N <= 3 or tier == "thorough":
                ms = list(it.product(range(N), repeat=N))
            else:
                ms = list(it.permutations(range(N)))
            for m in ms:
                out.append(single_rxn_case(subs, prods, labels, m))
            # wrong lengths / out-of-range index
            ident = list(range(N))
            if ns > 0:
                out.append(single_rxn_case(subs, prods, labels, ident[: ns - 1]))
            out.append(single_rxn_case(subs, prods, labels, ident + [0]))
            out.append(single_rxn_case(subs, prods, labels, ident[:-1] + [N]))
    out += wide_cases(tier)
    out += negative_index_cases(tier)
    out += raw_coefficient_cases()
    return out


def raw_coefficient_cases():
    """coefficients that are not Python ints on a mapped reaction (every kind x maps that are fine / short / out of
    range: the TypeError comes before the map is looked at), explicit ints (nothing changes), and the order of errors
    when an earlier reaction is rejected first; seed-independent"""
    out = []
    kinds = {
        "ints": lambda c, v, first: {"int": v},
        "floats": lambda c, v, first: {"float": str(v)},
        "one_float": lambda c, v, first: {"float": str(v)} if first else {"int": v},
        "half": lambda c, v, first: {"float": f"{2 * v + 1}/2"} if first else {"int": v},
        "derived": lambda c, v, first: "derived" if first else {"int": v},
        "derived_last": lambda c, v, first: {"int": v} if first else "derived",
    }
    shapes = [(["A"], ["B"], {"A": 1, "B": 1}), (["A", "A"], ["B"], {"A": 1, "B": 2}), (["A"], ["B", "C"], {"A": 2, "B": 1, "C": 1}),
              ([], ["B"], {"B": 2})]
    for subs, prods, labels in shapes:
        N = max(sum(labels[c] for c in subs), sum(labels[c] for c in prods))
        ident = list(range(N))
        for m in (ident, ident[::-1], ident[:-1], ident + [N], [-1] * N):
            for kind, f in kinds.items():
                case = single_rxn_case(subs, prods, labels, m)
                st = case["base"]["rxns"][0][1]["st"]
                case["base"]["raw"] = [["v", [[c, f(c, v, i == 0)] for i, (c, v) in enumerate(st)]]]
                out.append(case)
                # a second mapped reaction declared first and rejected for its own reason: its error wins
                two = single_rxn_case(subs, prods, labels, m)
                two["base"]["raw"] = case["base"]["raw"]
                two["base"]["pars"].append(["q", "1"])
                two["base"]["rxns"].insert(0, ["u", {"args": ["q"] + [c for c in list(labels)[:1]], "e": prod_expr(2),
                                                      "st": [[list(labels)[0], -1]]}])
                two["maps"].insert(0, ["u", []])
                two["ma"].append("u")
                out.append(two)
    return out


def negative_index_cases(tier):
    """maps with Python's negative indices (`rate_suffix[-1]` is the last position of the rate suffix, external 1s
    included) and indices below -N (IndexError): every map over -N-1 .. N-1 with a negative entry for N <= 2 padded
    positions; for N = 3 every permutation with every non-empty subset of entries written from the end, plus one
    index below -N per position (all 7^3 maps in thorough); seed-independent"""
    out = []
    shapes = [[], [1], [2], [3], [1, 1], [1, 2], [2, 1], [0, 1]]
    for ss in shapes:
        for ps in shapes:
            ns, np_ = sum(ss), sum(ps)
            N = max(ns, np_)
            if N == 0 or N > 3:
                continue
            subs = [f"S{i}" for i in range(len(ss))]
            prods = [f"P{i}" for i in range(len(ps))]
            labels = {**dict(zip(subs, ss)), **dict(zip(prods, ps))}
            if N <= 2 or tier == "thorough":
                ms = [m for m in it.product(range(-N - 1, N), repeat=N) if min(m) < 0]
            else:
                ms = []
                for perm in it.permutations(range(N)):
                    for k in range(1, 2 ** N):
                        ms.append(tuple(perm[i] - N if (k >> i) & 1 else perm[i] for i in range(N)))
                    for i in range(N):
                        ms.append(tuple(-N - 1 if j == i else perm[j] for j in range(N)))
            for m in ms:
                out.append(single_rxn_case(subs, prods, labels, m))
            # a short map is rejected before any index is read; a long one may carry negative entries beyond the products
            if ns > 0:
                out.append(single_rxn_case(subs, prods, labels, [-1] * (ns - 1)))
            out.append(single_rxn_case(subs, prods, labels, [-1] * N + [-N - 1]))
    return out


def wide_cases(tier):
    """three or more entries on a reaction side (three-way merges / splits, coefficients 2 and 3 mixed
    with other compounds, e.g. A -> 2 B + C): every permutation map for N <= 3 padded positions, a fixed
    spread of permutations (incl. rotations and the reversal) for larger N; seed-independent"""
    out = []
    sides3 = [  # (compound names in occurrence order, labels)
        (["X0", "X1", "X2"], {"X0": 1, "X1": 1, "X2": 1}),
        (["X0", "X1", "X2"], {"X0": 1, "X1": 0, "X2": 1}),
        (["X0", "X1", "X2"], {"X0": 2, "X1": 1, "X2": 1}),
        (["X0", "X1", "X2"], {"X0": 1, "X1": 1, "X2": 2}),
        (["X0", "X0", "X1"], {"X0": 1, "X1": 1}),
        (["X0", "X1", "X1"], {"X0": 1, "X1": 2}),
        (["X0", "X0", "X0"], {"X0": 1}),
        (["X0", "X1", "X2", "X3"], {"X0": 1, "X1": 1, "X2": 1, "X3": 1}),
    ]
    others = [([], {}), (["Y0"], {"Y0": 1}), (["Y0"], {"Y0": 3}), (["Y0", "Y1"], {"Y0": 2, "Y1": 1}),
              (["Y0", "Y1", "Y2"], {"Y0": 1, "Y1": 1, "Y2": 1})]
    for big, bl in sides3:
        for oth, ol in others:
            for wide_is_product in (True, False):
                subs, prods = (oth, big) if wide_is_product else (big, oth)
                labels = {**bl, **ol}
                N = max(sum(labels[c] for c in subs), sum(labels[c] for c in prods))
                if N == 0 or N > 5:
                    continue
                perms = list(it.permutations(range(N)))
                if N > 3 and tier != "thorough":
                    ident = list(range(N))
                    perms = [tuple(ident), tuple(reversed(ident)), tuple(ident[1:] + ident[:1]),
                             tuple(ident[-1:] + ident[:-1]), tuple(ident[2:] + ident[:2]),
                             tuple([ident[1], ident[0]] + ident[2:])]
                for m in perms:
                    out.append(single_rxn_case(subs, prods, labels, m))
                # every length below the substrates' label positions (counted per occurrence: a coefficient 2 counts
                # twice) is rejected; the first sufficient length is accepted
                ns = sum(labels[c] for c in subs)
                for k in range(ns + 1):
                    out.append(single_rxn_case(subs, prods, labels, list(range(N))[:k]))
    return out


def random_case(rng):
    """random small network: labelled / unlabelled compounds, uni- and bimolecular reactions incl.
    homodimers and compounds on both sides, influx / efflux, derived quantities on totals,
    unmapped bystander reactions, random maps (permutations, arbitrary, short, long, out of range)"""
    ncp = rng.randint(2, 5)
    cpds = [f"X{i}" for i in range(ncp)]
    labels = {c: rng.choice([None, 0, 1, 1, 2, 2, 3]) for c in cpds}
    if all(v is None for v in labels.values()):
        labels[cpds[0]] = 1
    unl = [c for c in cpds if labels[c] is None]
    pars = [["k", "2"], ["q", str(rng.choice([1, 3]))]]
    derived = []
    if rng.random() < 0.4:
        a = rng.choice(cpds)
        derived.append(["dq", {"args": ["q", a], "e": prod_expr(2)}])
    if rng.random() < 0.2:
        derived.append(["dp", {"args": ["q", "k"], "e": ["+", ["a", 0], ["a", 1]]}])
    rxns, maps, ma = [], [], []
    for ri in range(rng.randint(1, 3)):
        name = f"v{ri}"
        kind = rng.random()
        if kind < 0.2 and unl:
            # unmapped bystander on unlabelled compounds; may read labelled totals
            c = rng.choice(unl)
            extra = rng.choice(cpds + ["dq"] if derived and derived[0][0] == "dq" else cpds)
            args = ["k", c, extra]
            rxns.append([name, {"args": args, "e": prod_expr(3), "st": [[c, -1]]}])
            continue
        nsub = rng.choice([0, 1, 1, 2, 2, 3])
        nprod = rng.choice([0, 1, 1, 2, 3, 4])
        if nsub == 0 and nprod == 0:
            nprod = 1
        if rng.random() < 0.25 and nsub == 2:
            c = rng.choice(cpds)
            subs = [c, c]  # homodimer (finding class when c is labelled)
        else:
            subs = [rng.choice(cpds) for _ in range(nsub)]
        if rng.random() < 0.85:
            pool_p = [c for c in cpds if c not in subs] or cpds
        else:
            pool_p = cpds  # compound on both sides
        prods = [rng.choice(pool_p) for _ in range(nprod)]
        while sum(labels[c] or 0 for c in subs) > 5:  # keep 2^(substrate labels) reactions tractable
            subs = subs[:-1]
        while sum(labels[c] or 0 for c in prods) > 6:
            prods = prods[:-1]
        st = {}
        for c in subs:
            st[c] = st.get(c, 0) - 1
        for c in prods:
            st[c] = st.get(c, 0) + 1
        st = {c: v for c, v in st.items() if v != 0} or {cpds[0]: 1}
        stl = list(st.items())
        rng.shuffle(stl)
        s2, p2 = unpack(stl)
        ns = sum(labels[c] or 0 for c in s2)
        np_ = sum(labels[c] or 0 for c in p2)
        N = max(ns, np_)
        args = ["k"] + list(s2)
        if derived and rng.random() < 0.3:
            args.append(derived[-1][0])
        rng.shuffle(args)
        mass = rng.random() < 0.85
        if mass:
            e = prod_expr(len(args))
            ma.append(name)
        else:
            e = fexpr.gen_expr(rng, len(args), 2)
        rxns.append([name, {"args": args, "e": e, "st": [[c, v] for c, v in stl]}])
        mk = rng.random()
        ident = list(range(N))
        if mk < 0.45:
            m = ident[:]
            rng.shuffle(m)
        elif mk < 0.75:
            m = [rng.randrange(N) for _ in range(N)] if N else []
        elif mk < 0.82 and ns > 0:
            m = ident[: rng.randrange(ns)]
        elif mk < 0.9:
            m = ident + [rng.randrange(max(N, 1)) for _ in range(rng.randint(1, 2))]
        elif mk < 0.95 and N:
            m = ident[:]
            m[rng.randrange(N)] = N + rng.randint(0, 2)
        elif np_ > ns:
            m = ident[: rng.randint(ns, np_ - 1)]  # covers the substrates but not the products
        else:
            m = ident
        if N and m and rng.random() < 0.15:
            # the same positions written from the end (Python's negative indices); sometimes one below -N
            m = [i - N if (0 <= i < N and rng.random() < 0.5) else i for i in m]
            if rng.random() < 0.15:
                m[rng.randrange(len(m))] = -N - rng.randint(1, 2)
        maps.append([name, m])
    init, init_as_int = [], []
    for c in cpds:
        if labels[c] is not None and rng.random() < 0.4:
            n = labels[c]
            if n == 0:
                if rng.random() < 0.5:
                    continue
                pos = []
            else:
                pos = sorted(rng.sample(range(n), rng.randint(0, n)))
            if rng.random() < 0.15:
                # positions that match nothing: beyond the compound, negative; they are ignored, not rejected
                pos = pos + [rng.choice([n, n + 1, -1, -n - 1])]
                rng.shuffle(pos)
            init.append([c, pos])
            if len(pos) == 1 and rng.random() < 0.5:
                init_as_int.append(c)
    if rng.random() < 0.06:
        # an entry for a compound that is not listed in label_variables / not in the model at all: never read
        init.append([rng.choice(unl + ["Q9"]), [rng.randint(0, 2)]])
    case = {
        "lv": [[c, labels[c]] for c in cpds if labels[c] is not None],
        "maps": maps, "init": init, "init_as_int": init_as_int, "ma": ma,
        "base": {"pars": pars, "vars": [[c, str(rng.choice([1, 2, 4]))] for c in cpds], "derived": derived, "rxns": rxns},
    }
    if rng.random() < 0.3:
        case["queries"] = gen_queries(rng, case)
    if maps and rng.random() < 0.05:
        # coefficients as a user may write them: floats (-1.0), a Derived, or plain ints listed explicitly
        name = rng.choice(maps)[0]
        st = dict(rxns)[name]["st"]
        kind = rng.choice(["float", "float1", "derived", "int"])
        coefs = []
        hit = rng.randrange(len(st))
        for i, (c, v) in enumerate(st):
            if kind == "int":
                coefs.append([c, {"int": v}])
            elif kind == "float":
                coefs.append([c, {"float": str(v)}])
            elif i == hit:
                coefs.append([c, "derived" if kind == "derived" else {"float": f"{2 * v + 1}/2"}])
            else:
                coefs.append([c, {"int": v}])
        case["base"]["raw"] = [[name, coefs]]
    unm = [k for k, _ in rxns if k not in dict(maps)]
    if unm and rng.random() < 0.25 and not case["base"].get("raw"):
        # a reaction without a label map written with floats / halves / a Derived: passed through untouched
        name = rng.choice(unm)
        kind = rng.choice(["float", "half", "derived"])
        st = dict(rxns)[name]["st"]
        case["base"]["raw"] = [[name, [[c, {"float": str(v)} if kind == "float" else
                                        ({"float": f"{2 * v + 1}/2"} if kind == "half" else "derived")] for c, v in st]]]
        if kind != "float":
            case["states"] = []  # the integer reaction list of the model does not carry these coefficients: structure only
    if maps and rng.random() < 0.03 and not case["base"].get("raw"):
        # the user forgot the map of a reaction that changes labelled compounds: the model builds, evaluation fails
        case["maps"] = [m_ for m_ in maps if m_[0] != maps[-1][0]]
        case["ma"] = [k for k in ma if k != maps[-1][0]]
    return case


def query_edit_case(rng):
    """a caller that edits the lists / dict the public queries returned, then builds (possibly on a mapper with
    history); evaluated in a process of its own, so that state kept anywhere in the library is this case's"""
    case = random_case(rng)
    lv = lv_of(case)
    case["queries"] = [["of", x] for x, _ in case["lv"]] + gen_queries(rng, case)
    case["mutate"] = rng.choice(["reverse", "sort_desc", "clear", "pop", "append"])
    if rng.random() < 0.3:
        case = dict(with_history(rng, case), queries=case["queries"], mutate=case["mutate"])
    return case


def perturbed(rng, case):
    """an earlier setting of the same mapper: other maps / a map missing / other label counts /
    other initial labels / another base model object"""
    import copy

    prev = copy.deepcopy({k: v for k, v in case.items() if k not in ("states", "evals", "history", "edit")})
    changed = False
    for km in prev["maps"]:
        if rng.random() < 0.6 and len(km[1]) > 1:
            old = list(km[1])
            rng.shuffle(km[1])
            if km[1] == old:
                km[1].reverse()
            changed = changed or km[1] != old
    r = rng.random()
    if r < 0.15 and prev["maps"]:
        prev["maps"].pop(rng.randrange(len(prev["maps"])))
        changed = True
    elif r < 0.3 and prev["lv"]:
        kn = rng.choice(prev["lv"])
        kn[1] = max(0, kn[1] + rng.choice([-1, 1]))
        changed = True
    elif r < 0.4 and len(prev["lv"]) > 1:
        rng.shuffle(prev["lv"])
        rng.shuffle(prev["maps"])
        changed = True
    if rng.random() < 0.3:
        prev["init"] = []
        prev["init_as_int"] = []
    if rng.random() < 0.2 and prev["base"]["pars"]:
        prev["base"]["pars"][0][1] = str(Fraction(prev["base"]["pars"][0][1]) * 2)
    if not changed and prev["maps"]:
        prev["maps"][0][1] = list(reversed(prev["maps"][0][1])) + [0]
    return prev


def with_history(rng, case, depth=None):
    """the same inputs reached on a mapper object that was built before with other settings"""
    depth = depth or rng.choice([1, 1, 2])
    hist, cur = [], case
    for _ in range(depth):
        cur = perturbed(rng, cur)
        hist.insert(0, cur)
    out = dict(case, history=hist, edit=rng.choice(["inplace", "inplace", "assign"]))
    out.pop("states", None)
    return out


def reuse_cases(rng, tier):
    """mapper reuse: deterministic part (single reaction, every permutation map of N<=3 positions
    after a build with a different map, edited in place) + random part"""
    out = []
    for ss, ps in (([1], [1]), ([2], [2]), ([1, 1], [2]), ([2], [1, 1]), ([3], [3]), ([1], [2]), ([2, 1], [1, 2])):
        N = max(sum(ss), sum(ps))
        subs = [f"S{i}" for i in range(len(ss))]
        prods = [f"P{i}" for i in range(len(ps))]
        labels = {**dict(zip(subs, ss)), **dict(zip(prods, ps))}
        perms = list(it.permutations(range(N)))
        for m in perms:
            other = perms[(perms.index(m) + 1) % len(perms)] if len(perms) > 1 else tuple(m) + (0,)
            out.append(dict(single_rxn_case(subs, prods, labels, m),
                            history=[single_rxn_case(subs, prods, labels, other)], edit="inplace"))
    return out


def shrink(ctx, judge, evaluate_fn, limit=40):
    """Greedy reduction of the smallest failing inputs: drop history entries, reactions, maps, initial
    labels, derived quantities, states; a candidate is kept when the real code still violates the
    same check on it (R and S are recomputed)."""
    from vlib.framework import Ctx, canon

    def fails(cand, what):
        try:
            (R, M), = evaluate_fn([cand], ctx.driver_ok)
        except Exception:  # noqa: BLE001
            return None
        probe = Ctx(ctx.prop, ctx.tier, ctx.seed)
        judge(probe, cand, R, M)
        hit = [v for v in probe.violations if v.get("what") == what]
        return min(hit, key=lambda v: len(canon(v))) if hit else None

    def candidates(c):
        for i in range(len(c.get("history") or [])):
            yield dict(c, history=c["history"][:i] + c["history"][i + 1:])
        if c.get("history"):
            yield {k: v for k, v in c.items() if k not in ("history", "edit")}
        rx = c["base"]["rxns"]
        for i in range(len(rx)):
            if len(rx) > 1:
                name = rx[i][0]
                yield dict(c, base=dict(c["base"], rxns=rx[:i] + rx[i + 1:]),
                           maps=[m for m in c["maps"] if m[0] != name], ma=[m for m in c.get("ma", []) if m != name])
        if c.get("init"):
            yield dict(c, init=[], init_as_int=[])
        if c["base"].get("derived") and not any(d in r["args"] for d, _ in c["base"]["derived"] for _, r in rx):
            yield dict(c, base=dict(c["base"], derived=[]))
        if c.get("queries") and not c.get("mutate"):
            yield {k: v for k, v in c.items() if k != "queries"}
        for key in ("states", "evals"):
            if len(c.get(key) or []) > 1:
                for i in range(len(c[key])):
                    yield dict(c, **{key: [c[key][i]]})

    done = 0
    for v in sorted((v for v in ctx.violations if "case" in v and "what" in v), key=lambda v: len(canon(v)))[:3]:
        cur, best = v["case"], None
        progress = True
        while progress and done < limit:
            progress = False
            for cand in candidates(cur):
                done += 1
                hit = fails(cand, v["what"])
                if hit is not None:
                    cur, best, progress = hit["case"], hit, True
                    break
                if done >= limit:
                    break
        if best is not None:
            best["shrunk_from"] = len(canon(v["case"]))
            ctx.violations.append(best)


# --------------------------------------------------------------------------- entry points


def setup(ctx):
    ctx.build(PROPS)
    ctx.rule = (
        "exhaustive: one mapped mass-action reaction over <=2 substrate / <=2 product occurrences with 0-2 labels "
        "each x every map of the padded length (all N^N maps for N<=3, all permutations for N=4 in quick; all 4^4 in "
        "thorough) plus too-short / too-long / out-of-range maps; random: 2-4 compounds (unlabelled, 0-3 labels), 1-3 "
        "reactions incl. homodimers, compounds on both sides, influx/efflux, derived quantities on totals, unmapped "
        "bystanders, non-mass-action rates, random maps and initial labels; each at 2 integer isotopomer states. "
        "round 3: public queries (get_isotopomers / get_isotopomer_of / ..._of_at_position / ..._of_with_n_labels) on 30% of the "
        "random cases; query-edit stratum: a caller edits the containers the queries returned, then asks again and builds, one process per case. "
        "distinct = distinct (lv, maps, init, base, queries); non-trivial = has a mapped reaction"
    )
    ctx.assumptions += [
        "base names contain no '__' (structural names render injectively)",
        "rate functions are pure functions of their arguments; an unmapped reaction written with fractional / Derived coefficients is compared as written, not numerically",
        "compound names are identifiers (no regular-expression metacharacters: get_isotopomers_of_at_position matches by regex)",
        "float rounding not modelled: integer states and + - * rate laws, compared exactly",
    ]
    ctx.trusted_base += ["Model.get_right_hand_side sums stoichiometry x rate (property C01)"]


def numeric_ok(case):
    """the model's integer reaction list carries every coefficient (an unmapped reaction written with fractional or
    Derived coefficients is compared as written only)"""
    raw = raw_of(case)
    return all(first_bad(raw[k]) is None for k in raw_unmapped(case))


def run_cases(ctx, cases, rng):
    for c in cases:
        if "states" not in c:
            c["states"] = gen_states(rng, c)
        if not numeric_ok(c):
            c["states"] = []
    B = 400
    for i in range(0, len(cases), B):
        chunk = cases[i:i + B]
        for case, (R, M) in zip(chunk, evaluate(chunk, ctx.driver_ok)):
            judge_case(ctx, case, R, M)
        if len(ctx.violations) > 20:
            break


def run(ctx):
    setup(ctx)
    rng = ctx.rng
    ex = exhaustive_cases(ctx.tier)
    ctx.exhaustive = True
    ctx.extra_cov["exhaustive_stratum"] = len(ex)
    if ctx.tier == "quick":
        for c in ex:
            c.setdefault("states", gen_states(rng, c, n=1))  # one state per structural case in quick, two in thorough
    run_cases(ctx, ex, rng)
    n = ctx.n(4000, 120000)
    if not ctx.proof_ok or ctx.drift:
        n = max(n, 10000)
        ctx.notes.append("proof/correspondence broken: widened random search for a failing input")
    run_cases(ctx, [random_case(rng) for _ in range(n)], rng)
    # the same inputs on a mapper object that has been built before with other settings
    reuse = reuse_cases(rng, ctx.tier) + [with_history(rng, random_case(rng)) for _ in range(ctx.n(1000, 30000))]
    ctx.extra_cov["mapper_reuse_stratum"] = len(reuse)
    run_cases(ctx, reuse, rng)
    # last (state kept by the library would leak into later cases of the shared workers): callers that edit
    # the containers handed out by the public queries
    qe = [query_edit_case(rng) for _ in range(ctx.n(300, 8000))]
    ctx.extra_cov["query_edit_stratum"] = len(qe)
    pool()  # imports before the fork
    run_cases(ctx, qe, rng)
    if ctx.violations:
        shrink(ctx, judge_case, evaluate)


def replay(ctx, rp):
    case = rp["case"]
    case.setdefault("states", gen_states(ctx.rng, case))
    (R, M), = evaluate([case], ctx.driver_ok)
    sb, srx = spec_structure(case)
    print("R =", R, "\nM =", M, "\nS.build =", sb, "\nS.rxns =", srx, "\nS.vars =", spec_vars(case))
    judge_case(ctx, case, R, M)
