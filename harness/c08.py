"""C08 — SBML export then import reproduces the model, or export fails (DESIGN §6/C08, design.d/C08.md).

Per generated model (JSON description -> real Python source -> real `Model`):
  R  real code: `sbml.write`, the written document parsed with libsbml (structure), `sbml.read`, numbers of the
     re-imported model at integer/dyadic states
  M  Lean driver op "c08": `exportModel` (document structure), `docInit/docValue/docRhs` of the exported document
     under pysbml's identifier mapping, and the declarative `hasUnsupported`
  S  the original model: its own numbers (real `Model`, cross-checked against the Lean spec `pyValue/pyRhs`), and
     "export must raise" for constructs without MathML counterpart
"""
from __future__ import annotations

import ast
import atexit
import itertools
import json
import keyword
import re
import math
import multiprocessing as mp
import os
import shutil
import sys
from fractions import Fraction
from pathlib import Path

from vlib import driver
from vlib.framework import REPO, WORK

PROPS = ["MxlVerif.Props.C08"]
SCRATCH = WORK / f"c08-{os.getpid()}"  # per run: two checks of this property may run at the same time (seed matrix)
# IPython (pulled in by a dependency) keeps a history database in $IPYTHONDIR: parallel checks must not share it
os.environ.setdefault("IPYTHONDIR", str(WORK / f"ipython-{os.getpid()}"))
atexit.register(shutil.rmtree, WORK / f"ipython-{os.getpid()}", ignore_errors=True)  # runs after IPython's own hook
TOL = 1e-9

UOPS = {"USub": "-", "Not": "not ", "UAdd": "+", "Invert": "~"}
BOPS = {"Add": "+", "Sub": "-", "Mult": "*", "Div": "/", "Pow": "**", "FloorDiv": "//", "Mod": "%", "MatMult": "@",
        "LShift": "<<", "RShift": ">>", "BitOr": "|", "BitXor": "^", "BitAnd": "&"}
COPS = {"Eq": "==", "NotEq": "!=", "Lt": "<", "LtE": "<=", "Gt": ">", "GtE": ">=", "Is": "is", "IsNot": "is not",
        "In": "in", "NotIn": "not in"}

# ---------------------------------------------------------------------------------------------- expressions


def fnum(q) -> str:
    q = Fraction(q)
    f = float(q)
    assert Fraction(f) == q, q
    return repr(f)


def render(e) -> str:
    """wire expression -> fully parenthesised Python source"""
    t = e[0]
    if t == "name":
        return e[1]
    if t == "num":
        q = Fraction(e[1])
        assert q >= 0
        if len(e) > 2 and e[2] == "i":
            assert q.denominator == 1
            return str(q.numerator)
        return fnum(q)
    if t == "bool":
        return "True" if e[1] else "False"
    if t == "constother":
        return "'s'"
    if t == "unary":
        return f"({UOPS[e[1]]}{render(e[2])})"
    if t == "binop":
        return f"({render(e[2])} {BOPS[e[1]]} {render(e[3])})"
    if t == "compare":
        return "(" + render(e[1]) + "".join(f" {COPS[op]} {render(r)}" for op, r in e[2]) + ")"
    if t == "ifexp":
        return f"({render(e[2])} if {render(e[1])} else {render(e[3])})"
    if t == "call":
        args = ", ".join(render(a) for a in e[2])
        c = e[1]
        if c[0] == "direct":
            return f"{c[1]}({args})"
        if c[0] == "lib":
            return f"{c[1]}.{c[2]}({args})"
        if c[0] == "libdeep":
            return f"np.linalg.norm({args})"
        return f"(lambda z: z)({args})"
    if t == "callkw":  # ["callkw", callee, positional args, "key=abs"]
        args = ", ".join([render(a) for a in e[2]] + [e[3]])
        c = e[1]
        return f"{c[1]}({args})" if c[0] == "direct" else f"{c[1]}.{c[2]}({args})"
    if t == "attr":
        return f"{e[1]}.{e[2]}"
    if t == "attrdeep":
        return "np.pi.real"
    if t == "boolop":
        return "(" + f" {e[1]} ".join(render(v) for v in e[2]) + ")"
    if t == "other":
        return "[1.0][0]"
    raise ValueError(e)


def wire(e):
    """strip harness-only annotations (int/float rendering of a constant)"""
    t = e[0]
    if t == "num":
        return ["num", e[1]]
    if t == "unary":
        return [t, e[1], wire(e[2])]
    if t == "binop":
        return [t, e[1], wire(e[2]), wire(e[3])]
    if t == "compare":
        return [t, wire(e[1]), [[op, wire(r)] for op, r in e[2]]]
    if t == "ifexp":
        return [t, wire(e[1]), wire(e[2]), wire(e[3])]
    if t == "call":
        return [t, e[1], [wire(a) for a in e[2]]]
    if t == "boolop":
        return [t, e[1], [wire(v) for v in e[2]]]
    if t == "callkw":
        return ["callkw"]
    return e


def py_to_wire(node: ast.AST):
    """Python `ast` -> wire expression (independent of `render`; run on the source the real code sees)"""
    if isinstance(node, ast.Name):
        return ["name", node.id]
    if isinstance(node, ast.Constant):
        v = node.value
        if isinstance(v, bool):
            return ["bool", v]
        if isinstance(v, (int, float)):
            q = Fraction(v)
            return ["num", str(q.numerator) if q.denominator == 1 else f"{q.numerator}/{q.denominator}"]
        return ["constother"]
    if isinstance(node, ast.UnaryOp):
        return ["unary", type(node.op).__name__, py_to_wire(node.operand)]
    if isinstance(node, ast.BinOp):
        return ["binop", type(node.op).__name__, py_to_wire(node.left), py_to_wire(node.right)]
    if isinstance(node, ast.Compare):
        return ["compare", py_to_wire(node.left),
                [[type(op).__name__, py_to_wire(r)] for op, r in zip(node.ops, node.comparators)]]
    if isinstance(node, ast.IfExp):
        return ["ifexp", py_to_wire(node.test), py_to_wire(node.body), py_to_wire(node.orelse)]
    if isinstance(node, ast.Call):
        if node.keywords:
            return ["callkw"]
        f = node.func
        if isinstance(f, ast.Name):
            c = ["direct", f.id]
        elif isinstance(f, ast.Attribute):
            c = ["lib", f.value.id, f.attr] if isinstance(f.value, ast.Name) else ["libdeep"]
        else:
            c = ["other"]
        return ["call", c, [py_to_wire(a) for a in node.args]]
    if isinstance(node, ast.Attribute):
        return ["attr", node.value.id, node.attr] if isinstance(node.value, ast.Name) else ["attrdeep"]
    if isinstance(node, ast.BoolOp):
        return ["boolop", "and" if isinstance(node.op, ast.And) else "or", [py_to_wire(v) for v in node.values]]
    return ["other"]


def body_to_wire(fn_def: ast.FunctionDef):
    out = []
    for st in fn_def.body:
        if isinstance(st, ast.Expr) and isinstance(st.value, ast.Constant) and isinstance(st.value.value, str):
            continue  # DocstringRemover
        if isinstance(st, ast.Return):
            out.append(["ret"] if st.value is None else ["ret", py_to_wire(st.value)])
        else:
            out.append(["other"])
    return out


# ---------------------------------------------------------------------------------------------- generator

NUM_CONSTS = ["0", "1", "2", "3", "1/2", "5/2", "1/4", "10", "4"]
OPAQUE_UNARY = ["sqrt", "log", "log10", "sin", "cos", "tan", "arctan", "sinh", "cosh", "tanh", "arcsinh"]
OPAQUE_DOMAIN = ["arcsin", "arccos", "arctanh", "arccosh"]


class G:
    """typed random expressions over the given argument names"""

    def __init__(self, rng, names, *, floaty: bool, lib_mods=("np", "numpy", "math")):
        self.rng, self.names, self.floaty, self.mods = rng, list(names), floaty, lib_mods
        self.used_float = False

    def const(self):
        c = self.rng.choice(NUM_CONSTS)
        if Fraction(c).denominator == 1 and self.rng.random() < 0.5:
            return ["num", c, "i"]
        return ["num", c]

    def leaf(self):
        if self.names and self.rng.random() < 0.75:
            return ["name", self.rng.choice(self.names)]
        return self.const()

    def num(self, d):
        r = self.rng
        if d <= 0 or r.random() < 0.2:
            return self.leaf()
        k = r.choice(["add", "sub", "mul", "mul", "add", "neg", "if", "pow", "abs", "maxmin", "divc", "fdiv", "rem",
                      "ceil", "float", "float"])
        if k == "add":
            return ["binop", "Add", self.num(d - 1), self.num(d - 1)]
        if k == "sub":
            return ["binop", "Sub", self.num(d - 1), self.num(d - 1)]
        if k == "mul":
            return ["binop", "Mult", self.num(d - 1), self.num(d - 1)]
        if k == "neg":
            return ["unary", "USub", self.num(d - 1)]
        if k == "if":
            return ["ifexp", self.boolean(d - 1), self.num(d - 1), self.num(d - 1)]
        if k == "pow":
            ex = ["num", r.choice(["0", "1", "2", "3"]), "i"]
            if r.random() < 0.5:
                return ["binop", "Pow", self.num(d - 1), ex]
            if r.random() < 0.25:
                return ["call", ["direct", "power"], [self.num(d - 1), ex]]
            return ["call", ["lib", r.choice(["np", "numpy"]), "power"], [self.num(d - 1), ex]]
        if k == "abs":
            return ["call", ["direct", "abs"], [self.num(d - 1)]]
        if k == "maxmin":
            n = r.choice([2, 2, 3])
            return ["call", ["direct", r.choice(["max", "min"])], [self.num(d - 1) for _ in range(n)]]
        if k == "divc":
            return ["binop", "Div", self.num(d - 1), ["num", r.choice(["2", "4", "1/2"])]]
        if k == "fdiv":
            return ["binop", "FloorDiv", self.num(d - 1), self.posden(d - 1)]
        if k == "rem":
            if r.random() < 0.25:
                return ["call", ["direct", "remainder"], [self.num(d - 1), self.posden(d - 1)]]
            return ["call", ["lib", r.choice(["np", "numpy"]), "remainder"], [self.num(d - 1), self.posden(d - 1)]]
        if k == "ceil":
            return ["call", self.callee("ceil"), [self.num(d - 1)]]
        if not self.floaty:
            return self.leaf()
        self.used_float = True
        k = r.choice(["div", "div", "unary", "unary", "const", "dom", "inf"])
        if k == "inf":
            inf = ["attr", r.choice(self.mods), "inf"]
            if r.random() < 0.5:
                return ["call", ["direct", "min"], [self.num(d - 1), inf]]
            return ["call", ["direct", "max"], [self.num(d - 1), ["unary", "USub", inf]]]
        if k == "div":
            return ["binop", "Div", self.num(d - 1), self.posden(d - 1)]
        if k == "unary":
            f = r.choice(OPAQUE_UNARY)
            arg = self.num(d - 1)
            if f in ("sqrt", "log", "log10"):
                arg = ["binop", "Add", ["call", ["direct", "abs"], [arg]], ["num", "1"]]
            elif f in ("sinh", "cosh", "tan"):
                arg = ["call", ["direct", "min"], [["call", ["direct", "abs"], [arg]], ["num", "1"]]]
            return ["call", self.callee(f), [arg]]
        if k == "dom":
            f = r.choice(OPAQUE_DOMAIN)
            inner = ["call", ["direct", "min"], [["call", ["direct", "abs"], [self.num(d - 1)]], ["num", "1"]]]
            arg = ["binop", "Div", inner, ["num", "2"]]
            if f == "arccosh":
                arg = ["binop", "Add", arg, ["num", "1"]]
            return ["call", ["lib", r.choice(["np", "numpy"]), f], [arg]]
        return ["attr", r.choice(self.mods), r.choice(["pi", "e"])]

    def callee(self, f):
        """np.f / numpy.f, or the directly imported name"""
        r = self.rng
        if f in ("sqrt", "ceil", "log", "log10", "sin", "cos", "tan") and r.random() < 0.3:
            return ["direct", f]
        if f in ("sqrt", "ceil", "log", "log10", "sin", "cos", "tan", "sinh", "cosh", "tanh") and r.random() < 0.3:
            if f != "ceil":  # math.ceil returns an int; same value
                return ["lib", "math", f]
        return ["lib", r.choice(["np", "numpy"]), f]

    def posden(self, d):
        """a denominator that is never 0 and that sympy cannot fold into a rounded reciprocal on import:
        |name| + c, or a power of two"""
        if not self.names:
            return ["num", self.rng.choice(["1", "2", "4", "1/2"])]
        return ["binop", "Add", ["call", ["direct", "abs"], [["name", self.rng.choice(self.names)]]],
                ["num", self.rng.choice(["1", "2", "1/2"])]]

    def boolean(self, d):
        r = self.rng
        k = (r.choice(["cmp", "cmp", "cmp", "chain", "not", "const", "window", "notwindow", "notwindow"]) if d > 0
             else r.choice(["cmp", "cmp", "const", "window", "notwindow"]))
        if k == "const":
            return ["bool", r.random() < 0.5]
        if k == "not":
            return ["unary", "Not", self.boolean(d - 1)]
        if k in ("window", "notwindow"):
            # lo < x <= hi (possibly negated): the bounds are values the states / parameters actually take, so
            # inputs lie inside, outside and on the edge of the window
            lo, hi = sorted(r.sample(["0", "1", "2", "3", "4", "1/2", "3/2"], 2), key=Fraction)
            x = ["name", r.choice(self.names)] if self.names else self.const()
            w = ["compare", ["num", lo], [[r.choice(["Lt", "LtE"]), x], [r.choice(["Lt", "LtE"]), ["num", hi]]]]
            if r.random() < 0.3:
                w = ["compare", ["num", hi], [[r.choice(["Gt", "GtE"]), x], [r.choice(["Gt", "GtE", "NotEq"]), ["num", lo]]]]
            return ["unary", "Not", w] if k == "notwindow" else w
        ops = ["Lt", "LtE", "Gt", "GtE", "Eq", "NotEq"]
        if k == "cmp":
            return ["compare", self.num(d - 1), [[r.choice(ops), self.num(d - 1)]]]
        n = r.choice([2, 2, 3])
        return ["compare", self.num(d - 1), [[r.choice(ops), self.num(d - 1)] for _ in range(n)]]


#: constructs the exporter has to refuse (kind, must_raise)
UNSUPPORTED = [
    ("helper", True), ("boolop", True), ("invert", True), ("bitand", True), ("is", True),
    ("log2args", True), ("remainder1", True), ("libdeep", True), ("lambda", True), ("subscript", True),
    ("str", True), ("attr_unknown", True), ("attr_mod", True), ("attrdeep", True), ("unknown_mod", True),
    ("ret_none", True), ("assign", True), ("chain_is", True),
    # keyword arguments (MathML has none), a body without return
    ("kw_key", True), ("kw_where", True), ("kw_default", True), ("nobody", True), ("assign_only", True),
    ("exprstmt", True),
    # refused by the exporter although MathML could say it: allowed, not demanded
    ("mod", False), ("uadd", False), ("np.floor", False), ("np.exp", False), ("math_remainder", False),
    # functions just outside the exporter's table: refused, or exported with the same meaning (decided by the
    # round trip on real inputs) — log2 / exp / floor have a MathML counterpart, the others have none
    ("near:np.log2", False), ("near:math.log2", False), ("near:numpy.log2", False), ("near:log2", False),
    ("near:math.exp", False), ("near:math.floor", False), ("near:numpy.floor", False),
    ("near:np.log1p", True), ("near:np.expm1", True), ("near:np.exp2", True), ("near:np.cbrt", True),
    ("near:np.square", True), ("near:np.sign", True), ("near:np.trunc", True), ("near:np.fabs", True),
    ("near:np.absolute", True), ("near:np.reciprocal", True), ("near:math.log1p", True), ("near:math.expm1", True),
]


def unsupported_expr(rng, kind, g: G):
    x = g.num(1)
    y = g.num(1)
    if kind == "helper":
        return ["call", ["direct", "helper"], [x]]
    if kind == "np.exp":
        return ["call", ["lib", "np", "exp"], [x]]
    if kind == "np.floor":
        return ["call", ["lib", "np", "floor"], [x]]
    if kind == "boolop":
        return ["ifexp", ["boolop", rng.choice(["and", "or"]), [g.boolean(1) for _ in range(rng.choice([2, 3, 3]))]], x, y]
    if kind == "invert":
        return ["ifexp", ["unary", "Invert", ["bool", True]], x, y]
    if kind == "bitand":
        return ["ifexp", ["binop", rng.choice(["BitAnd", "BitOr", "BitXor"]), g.boolean(1), g.boolean(1)], x, y]
    if kind == "is":
        return ["ifexp", ["compare", x, [[rng.choice(["Is", "IsNot"]), y]]], x, y]
    if kind == "chain_is":
        return ["ifexp", ["compare", x, [["Lt", y], ["IsNot", ["num", "1"]]]], x, y]
    if kind == "log2args":
        return ["call", ["lib", "math", "log"], [["binop", "Add", ["call", ["direct", "abs"], [x]], ["num", "1"]], ["num", "2"]]]
    if kind == "remainder1":
        return ["call", ["lib", "np", "power"], [x]]
    if kind == "libdeep":
        return ["call", ["libdeep"], [x]]
    if kind == "lambda":
        return ["call", ["other"], [x]]
    if kind == "subscript":
        return ["binop", "Add", x, ["other"]]
    if kind == "str":
        return ["ifexp", ["compare", x, [["Lt", y]]], x, ["constother"]]
    if kind == "attr_unknown":
        return ["binop", "Mult", x, ["attr", "np", "euler_gamma"]]
    if kind == "attr_mod":
        return ["binop", "Mult", x, ["attr", "scipy", "pi"]]
    if kind == "attrdeep":
        return ["binop", "Mult", x, ["attrdeep"]]
    if kind == "unknown_mod":
        return ["call", ["lib", "scipy", "sqrt"], [x]]
    if kind == "mod":
        return ["binop", "Mod", x, g.posden(0)]
    if kind.startswith("near:"):
        fq = kind[5:]
        callee = ["lib", *fq.split(".")] if "." in fq else ["direct", fq]
        arg = ["binop", "Add", ["call", ["direct", "abs"], [x]], ["num", rng.choice(["1", "2", "1/2"])]]
        return ["binop", "Add", ["call", callee, [arg]], y]
    if kind == "math_remainder":
        return ["call", ["lib", "math", "remainder"], [x, g.posden(0)]]
    if kind == "uadd":
        return ["unary", "UAdd", x]
    if kind == "kw_key":
        return ["callkw", ["direct", rng.choice(["max", "min"])], [x, y], "key=abs"]
    if kind == "kw_where":
        return ["callkw", ["lib", rng.choice(["np", "numpy"]), "power"], [x, ["num", "2", "i"]], "where=True"]
    if kind == "kw_default":
        return ["binop", "Add", ["callkw", ["direct", "max"], [x, y], "default=0"], ["num", "1"]]
    raise ValueError(kind)


PLAIN_VARS = ["x", "y", "z", "Glc", "ATP_c", "S1", "a_b_c", "X"]
PLAIN_PARS = ["k", "k1", "Vmax", "K_m", "kcat2", "n", "q", "beta"]
PLAIN_DERS = ["d", "d1", "ratio", "total_A", "E0"]
PLAIN_RXNS = ["r", "v1", "v_2", "flux", "R10"]
#: names the exporter escapes / the importer renames (finding F-C08-5)
ODD_NAMES = ["x.c", "y-1", "_u", "1s", "lambda", "a__46__b", "p q", "c(e)", "x+y", "w__", "ä"]
#: names with a meaning of their own somewhere in the pipeline: module constants, table functions, module names
RESERVED_NAMES = ["pi", "e", "inf", "nan", "sin", "log", "max", "abs", "power", "sqrt", "exp", "np", "math", "numpy", "E", "I",
                  "ceil", "remainder", "true", "false", "avogadro", "piecewise"]
COEFS = ["-2", "-1", "1", "2", "-1/2", "5/2", "3/2", "-3", "1/4"]


def mk_fn(rng, name, args, *, boolean=False, floaty=False, depth=2, expr=None, body=None):
    """a function description: distinct parameter names, every argument used"""
    style = rng.choice(mk_fn.styles)
    if style == "p" or any(not a.isidentifier() or a in ("lambda",) for a in args):
        params = [f"p{i}" for i in range(len(args))]
    elif style == "same":
        params = list(args)
    elif style == "perm":
        # a function written with the model's names, used with them in another order (a reversible law reused
        # for the back reaction): every renaming has to happen at once
        params = list(args)
        if len(params) > 1:
            k = rng.randrange(1, len(params))
            params = params[k:] + params[:k]
            if rng.random() < 0.3:
                params[rng.randrange(len(params))] = "q_"
    else:
        params = [f"{'abcdefgh'[i]}_" for i in range(len(args))]
    g = G(rng, params, floaty=floaty)
    if expr is None and body is None:
        e = g.num(depth)
        used = set(_names(e))
        for p in params:
            if p not in used:
                e = ["binop", rng.choice(["Add", "Mult", "Sub"]), e, ["name", p]]
        expr = e
    if body is None:
        body = [["ret", expr]]
    return {"fname": name, "params": params, "args": list(args), "body": body, "doc": rng.random() < 0.2,
            "floaty": g.used_float or floaty and _has_float(body)}, g


mk_fn.styles = ["p", "same", "letters", "perm"]


def _names(e):
    t = e[0]
    if t == "name":
        yield e[1]
    elif t == "unary":
        yield from _names(e[2])
    elif t == "binop":
        yield from _names(e[2])
        yield from _names(e[3])
    elif t == "compare":
        yield from _names(e[1])
        for _, r in e[2]:
            yield from _names(r)
    elif t == "ifexp":
        for x in e[1:4]:
            yield from _names(x)
    elif t in ("call", "boolop", "callkw"):
        for a in e[2]:
            yield from _names(a)


def _has_float(body) -> bool:
    s = json.dumps(body)
    return any(f'"{f}"' in s for f in OPAQUE_UNARY + OPAQUE_DOMAIN + ["pi", "e"]) or '"Div"' in s


def gen_model(rng, *, stratum: str):
    """stratum: exact | float | names | unsupported:<kind> | refclash | boolnum | gennames | samepath | sharedfn |
    permargs | body | compartment | concname | reserved | digits"""
    floaty = stratum == "float"
    mk_fn.styles = ["p", "letters"] if stratum == "sharedfn" else (
        ["perm"] if stratum == "permargs" else ["p", "same", "letters", "perm"])
    nv, npar = rng.choice([1, 2, 2, 3]), rng.choice([1, 2, 3])
    nd, nr = rng.choice([0, 1, 2]), rng.choice([1, 2, 3])
    vs = rng.sample(PLAIN_VARS, nv)
    ps = rng.sample(PLAIN_PARS, npar)
    ds = rng.sample(PLAIN_DERS, nd)
    rs = rng.sample(PLAIN_RXNS, nr)
    finding = None
    if stratum == "reserved":
        mk_fn.styles = ["p"]
        res = rng.sample(RESERVED_NAMES, 3)
        vs[0] = res[0]
        if rng.random() < 0.7:
            ps[0] = res[1]
    if stratum == "names":
        odd = rng.choice(ODD_NAMES)
        which = rng.choice(["v", "p", "d"] if ds else ["v", "p"])
        if which == "v":
            vs[0] = odd
        elif which == "p":
            ps[0] = odd
        else:
            ds[0] = odd
        finding = "F-C08-5"
    vals = ["0", "1", "2", "3", "5", "1/2", "5/2", "7"]
    model = {"params": [], "vars": [], "derived": [], "rxns": []}
    plain_ps = []
    for i, p in enumerate(ps):
        if plain_ps and rng.random() < 0.25 and stratum != "names":
            f, _ = mk_fn(rng, f"ia_{i}", rng.sample(plain_ps, min(len(plain_ps), rng.choice([1, 2]))), floaty=floaty, depth=1)
            model["params"].append([p, ["ia", f]])
        else:
            model["params"].append([p, ["val", rng.choice(vals)]])
            plain_ps.append(p)
    for i, v in enumerate(vs):
        if rng.random() < 0.2 and stratum != "names":
            f, _ = mk_fn(rng, f"iv_{i}", rng.sample(plain_ps, min(len(plain_ps), rng.choice([1, 2]))), floaty=floaty, depth=1)
            model["vars"].append([v, ["ia", f]])
        else:
            model["vars"].append([v, ["val", rng.choice(vals)]])
    avail = vs + ps
    for i, d in enumerate(ds):
        args = rng.sample(avail, min(len(avail), rng.choice([1, 2, 3])))
        f, _ = mk_fn(rng, f"der_{i}", args, floaty=floaty)
        model["derived"].append([d, f])
        avail = avail + [d]
    clash_species = vs[0] if stratum == "refclash" else None
    if stratum == "refclash":
        nr = max(nr, 2)
        rs = rng.sample(PLAIN_RXNS, nr)
        # components that are called like a species reference (`<species>ref`, `<species>ref_`)
        for extra in rng.sample([f"{clash_species}ref", f"{clash_species}ref_", f"{vs[-1]}ref"], rng.choice([0, 1, 2])):
            if extra not in ps + ds + vs:
                if rng.random() < 0.6:
                    ps.append(extra)
                    plain_ps.append(extra)
                    model["params"].append([extra, ["val", rng.choice(vals)]])
                else:
                    vs.append(extra)
                    model["vars"].append([extra, ["val", rng.choice(vals)]])
                avail = avail + [extra]
    used_computed: set[str] = set()
    for i, r in enumerate(rs):
        args = rng.sample(avail, min(len(avail), rng.choice([1, 2, 3])))
        f, _ = mk_fn(rng, f"rate_{i}", args, floaty=floaty)
        stoich = []
        for sp in rng.sample(vs, rng.choice([1, min(2, len(vs))])):
            if rng.random() < 0.35 and sp not in used_computed and plain_ps:
                cf, _ = mk_fn(rng, f"coef_{i}_{len(stoich)}", rng.sample(plain_ps, 1), depth=1)
                if rng.random() < 0.5:
                    cf["body"] = [["ret", ["unary", "USub", cf["body"][0][1]]]]
                stoich.append([sp, ["fn", cf]])
                used_computed.add(sp)
            else:
                stoich.append([sp, ["num", rng.choice(COEFS)]])
        if clash_species is not None and i < 2:
            stoich = [s for s in stoich if s[0] != clash_species]
            cf, _ = mk_fn(rng, f"coefc_{i}", rng.sample(plain_ps, 1) if plain_ps else [], depth=0,
                          expr=["binop", "Mult", ["name", "p0"], ["num", str(i + 2), "i"]] if plain_ps else ["num", str(i + 2)])
            if plain_ps:
                cf["params"] = ["p0"]
            stoich.append([clash_species, ["fn", cf]])
        model["rxns"].append({"name": r, "fn": f, "stoich": stoich})
    if stratum == "sharedfn":
        # one Python function object used by several components with different model arguments (as with a library
        # of rate laws): the formal parameters differ from the model names, so every use needs its own renaming
        donors = [r["fn"] for r in model["rxns"]] + [f for _, f in model["derived"]]
        for _ in range(rng.choice([1, 2, 3])):
            f = rng.choice(donors)
            if f["params"] == f["args"]:
                continue
            pool_ = [a for a in avail]
            if len(pool_) < len(f["args"]):
                continue
            args2 = rng.sample(pool_, len(f["args"]))
            twin = dict(f, args=args2)
            if rng.random() < 0.6:
                model["rxns"].append({"name": f"sh{len(model['rxns'])}", "fn": twin,
                                      "stoich": [[rng.choice(vs), ["num", rng.choice(COEFS)]]]})
            else:
                model["derived"].append([f"shd{len(model['derived'])}", twin])
    if stratum == "gennames":
        # components called like the helper functions the importer generates: <reaction>_stoich_<species> for a
        # reaction declared before or after it, init_<name> for a name that has an initial assignment
        r0 = model["rxns"][0]
        twin = {"name": f"{r0['name']}_stoich_{r0['stoich'][0][0]}",
                "fn": mk_fn(rng, "rate_twin", rng.sample(avail, min(len(avail), 2)), floaty=False)[0],
                "stoich": [[rng.choice(vs), ["num", rng.choice(COEFS)]]]}
        model["rxns"].insert(rng.choice([0, 1, len(model["rxns"])]), twin)
        ia_names = [n for n, i in model["params"] + model["vars"] if i[0] == "ia"]
        if not ia_names and plain_ps:
            f, _ = mk_fn(rng, "ia_x", rng.sample(plain_ps, 1), depth=1)
            model["params"].append(["kia", ["ia", f]])
            ia_names = ["kia"]
        for n in ia_names[:1]:
            f, _ = mk_fn(rng, "gen_init", rng.sample(avail, min(len(avail), 2)), floaty=False)
            if rng.random() < 0.5:
                model["rxns"].insert(rng.choice([0, len(model["rxns"])]),
                                     {"name": f"init_{n}", "fn": f, "stoich": [[rng.choice(vs), ["num", rng.choice(COEFS)]]]})
            else:
                model["derived"].append([f"init_{n}", f])
    if stratum == "body":
        # statements after the first `return` are never reached: a second return, an assignment, a return of
        # something the exporter could not represent
        fns = [m_[1] for m_ in model["derived"]] + [r["fn"] for r in model["rxns"]]
        for f in rng.sample(fns, rng.choice([1, min(2, len(fns))])):
            g = G(rng, f["params"], floaty=False)
            tail = rng.choice(["ret", "ret", "other", "ret_unsupported", "ret_none"])
            if tail == "ret":
                f["body"] = f["body"] + [["ret", f_expr_using_all(rng, g, f["params"])]]
            elif tail == "other":
                f["body"] = f["body"] + [["other"]]
                f["assign_src"] = render(f_expr_using_all(rng, g, f["params"]))
            elif tail == "ret_none":
                f["body"] = f["body"] + [["ret"]]
            else:
                f["body"] = f["body"] + [["ret", ["call", ["direct", "helper"], [g.num(1)]]]]
    must_raise = False
    kind = stratum
    if stratum.startswith("unsupported:"):
        k = stratum.split(":", 1)[1]
        must_raise = dict(UNSUPPORTED)[k]
        # put the construct into one randomly chosen function
        fns = [m[1] for m in model["derived"]] + [r["fn"] for r in model["rxns"]]
        f = rng.choice(fns)
        g = G(rng, f["params"], floaty=False)
        if k == "ret_none":
            f["body"] = [["ret"]]
        elif k == "nobody":
            f["body"] = []
            f["doc"] = True
        elif k == "exprstmt":
            f["body"] = [["other"], ["ret", f_expr_using_all(rng, g, f["params"])]]
            f["stmt_src"] = render(g.num(1))  # an expression statement that is not a docstring
        elif k == "assign_only":
            f["body"] = [["other"]]
            f["assign_src"] = render(f_expr_using_all(rng, g, f["params"]))
        elif k == "assign":
            f["body"] = [["other"], ["ret", ["name", "tmp_"]]]
            f["assign_src"] = render(f_expr_using_all(rng, g, f["params"]))
        else:
            e = unsupported_expr(rng, k, g)
            used = set(_names(e))
            for p in f["params"]:
                if p not in used:
                    e = ["binop", "Add", e, ["name", p]]
            f["body"] = [["ret", e]]
    if stratum == "boolnum":
        f = rng.choice([r["fn"] for r in model["rxns"]])
        g = G(rng, f["params"], floaty=False)
        e = rng.choice([
            ["binop", "Mult", g.boolean(1), g.num(1)],
            ["ifexp", ["unary", "Not", g.num(0)], g.num(1), g.num(1)],
            ["binop", "Add", g.num(1), ["compare", g.num(0), [["Lt", g.num(0)]]]],
        ])
        for p in f["params"]:
            if p not in set(_names(e)):
                e = ["binop", "Add", e, ["name", p]]
        f["body"] = [["ret", e]]
        finding = "F-C08-9"
    states = []
    for _ in range(3):
        states.append([[v, rng.choice(["0", "1", "2", "3", "4", "1/2", "3/2", "6"])] for v in vs])
    case = {"kind": kind, "model": model, "states": states, "must_raise": must_raise, "finding": finding,
            "floaty": floaty}
    if stratum == "samepath":
        case["prev"] = gen_model(rng, stratum="exact")["model"]
    if stratum == "reserved":
        # components called like things the exporter (or the importer) gives a meaning of their own: the module
        # constants, functions of the tables, the module names.  The functions use p0, p1, … as parameters, so the
        # Python source is unaffected; after the renaming the body holds the component's name.
        pass
    if stratum == "digits":
        # values that need 16-17 significant digits (0.1 + 0.2, 1/3): libsbml's writer keeps 15 (finding F-C08-18)
        tgt = [pr for pr in model["params"] if pr[1][0] == "val"][:1] + [vr for vr in model["vars"] if vr[1][0] == "val"][:1]
        for t in tgt[: rng.choice([1, len(tgt)])]:
            t[1] = ["val", _val(float(rng.choice(["0.30000000000000004", "0.3333333333333333", "0.7000000000000001",
                                                   "1.1000000000000001", "2.6750000000000003"])))]
            case.setdefault("exact_init", []).append(t[0])
        case["finding"] = "F-C08-18"
    if stratum == "concname":
        # a component called like the quantity the third-party importer adds for a species written as an amount
        # (`<species>_conc` = amount / compartment size): finding F-C08-17
        v0 = rng.choice(vs)
        model["params"].append([f"{v0}_conc", ["val", rng.choice(["3", "5/2", "7"])]])
        f = model["rxns"][0]["fn"]
        f["params"] = f["params"] + ["cpar"]
        f["args"] = f["args"] + [f"{v0}_conc"]
        f["body"] = [["ret", ["binop", "Add", f["body"][0][1], ["name", "cpar"]]]] + f["body"][1:]
        case["finding"] = "F-C08-17"
    if stratum == "compartment":
        # the `compartments` option of `write`: another size, another id, several compartments (the species live in
        # the first one), none at all, an id that is a component name; and the default compartment next to a
        # component called like it.  Sizes other than 1 everywhere: a species written as a concentration shows.
        opt = rng.choice(["size", "size", "id", "two", "two", "empty", "clash", "defaultname"])
        size = rng.choice(["2", "1/2", "4", "1"])
        computed_on = [sp for r in model["rxns"] for sp, c in r["stoich"] if c[0] == "fn"]
        if computed_on and opt in ("size", "id") and rng.random() < 0.6:
            opt = "refid"
        if opt == "size":
            case["compartments"] = [["compartment", size]]
        elif opt == "refid":
            # a compartment called like the species reference the exporter invents for a computed coefficient
            # (`<species>ref`): the reference names avoid the compartment ids too (F-C08-19, repaired)
            case["compartments"] = [[f"{computed_on[0]}ref", size]]
            case["refid"] = True
        elif opt == "id":
            case["compartments"] = [[rng.choice(["c", "cell", "cytosol"]), size]]
        elif opt == "two":
            first = rng.choice(["compartment", "cell", "c0"])
            pair = [[first, size], ["c2", rng.choice(["1", "2"])]]
            if rng.random() < 0.4:
                pair = [["c2", rng.choice(["1/2", "2"])], [first, size]]
            case["compartments"] = pair
            case["options"] = rng.choice([{"model_name": "my model-1"}, {"units": True}, {"model_name": "m2", "units": True},
                                          {"time_units": "second", "extent_units": "mole"}])
        elif opt == "empty":
            case["compartments"] = []
            case["refuse"] = True
        elif opt == "clash":
            names = [n for n, _ in model["params"] + model["vars"] + model["derived"]] + [r["name"] for r in model["rxns"]]
            case["compartments"] = [["c0", "1"], [rng.choice(names), size]]
            rng.shuffle(case["compartments"])
            case["refuse"] = True
        else:
            # no option; a parameter called like the default compartment (or like the name that avoids it)
            model["params"].append(["compartment", ["val", rng.choice(["3", "5/2"])]])
            if rng.random() < 0.5:
                model["params"].append(["compartment_", ["val", "7"]])
            f = model["rxns"][0]["fn"]
            f["params"] = f["params"] + ["cpar"]
            f["args"] = f["args"] + ["compartment"]
            f["body"] = [["ret", ["binop", "Add", f["body"][0][1], ["name", "cpar"]]]] + f["body"][1:]
    return case


def language_cases():
    """exhaustive, seed-independent: every operator, comparison, constant and function of the exporter's language
    (Model/C08Language.lean: what `C08_export_total` says is exported), every way of spelling the callee — one small
    model each.  A dropped table entry or a branch that stopped working shows here with the input."""
    x, k = ["name", "p0"], ["name", "p1"]
    pos = ["binop", "Add", ["call", ["direct", "abs"], [x]], ["num", "1"]]                    # >= 1
    unit = ["binop", "Div", ["call", ["direct", "min"], [["call", ["direct", "abs"], [x]], ["num", "1"]]], ["num", "2"]]  # [0, 1/2]
    exprs = []
    for op in ("Add", "Sub", "Mult"):
        exprs.append((f"binop {op}", ["binop", op, x, k], False))
    exprs.append(("binop Div", ["binop", "Div", x, pos], True))
    exprs.append(("binop FloorDiv", ["binop", "FloorDiv", x, pos], False))
    exprs.append(("binop Pow", ["binop", "Pow", x, ["num", "2", "i"]], False))
    exprs.append(("unary USub", ["unary", "USub", x], False))
    for op in ("Lt", "LtE", "Gt", "GtE", "Eq", "NotEq"):
        exprs.append((f"cmp {op}", ["ifexp", ["compare", x, [[op, k]]], x, k], False))
    exprs.append(("chain", ["ifexp", ["compare", ["num", "0"], [["Lt", x], ["LtE", k]]], x, k], False))
    exprs.append(("not", ["ifexp", ["unary", "Not", ["compare", x, [["Lt", k]]]], x, k], False))
    exprs.append(("bool consts", ["ifexp", ["bool", True], x, ["ifexp", ["bool", False], k, x]], False))
    for mod in ("np", "numpy", "math"):
        for c in ("pi", "e"):
            exprs.append((f"attr {mod}.{c}", ["binop", "Mult", x, ["attr", mod, c]], True))
        exprs.append((f"attr {mod}.inf", ["call", ["direct", "min"], [x, ["attr", mod, "inf"]]], False))
    direct_ok = {"sqrt", "ceil", "log", "log10", "sin", "cos", "tan", "power", "remainder", "abs", "max", "min"}
    math_has = {"sqrt", "ceil", "log", "log10", "sin", "cos", "tan", "sinh", "cosh", "tanh"}
    unary = {"sqrt": pos, "log": pos, "log10": pos, "abs": x, "ceil": x, "sin": x, "cos": x, "tan": unit, "arcsin": unit,
             "arccos": unit, "arctan": x, "sinh": unit, "cosh": unit, "tanh": x, "arcsinh": x,
             "arccosh": pos, "arctanh": unit}
    for f, arg in unary.items():
        spell = [["lib", "np", f], ["lib", "numpy", f]] if f != "abs" else []
        if f in direct_ok:
            spell.append(["direct", f])
        if f in math_has and f != "ceil":
            spell.append(["lib", "math", f])
        for cal in spell:
            exprs.append((f"call {'.'.join(cal[1:])}", ["call", cal, [arg]], f not in ("abs", "ceil")))
    for f, args in (("power", [x, ["num", "2", "i"]]), ("remainder", [x, pos])):
        for cal in (["lib", "np", f], ["lib", "numpy", f], ["direct", f]):
            exprs.append((f"call {'.'.join(cal[1:])}", ["call", cal, args], False))
    for f in ("max", "min"):
        for n in (2, 3):
            exprs.append((f"call {f}/{n}", ["call", ["direct", f], [x, k, ["num", "1"]][:n]], False))
    cases = []
    for i, (what, e, floaty) in enumerate(exprs):
        used = set(_names(e))
        if "p1" not in used:
            e = ["binop", "Add", e, k]
        f = {"fname": f"lang_{i}", "params": ["p0", "p1"], "args": ["x", "k"], "body": [["ret", e]], "doc": False, "floaty": floaty}
        model = {"params": [["k", ["val", "2"]]], "vars": [["x", ["val", "3"]]], "derived": [],
                 "rxns": [{"name": "r", "fn": f, "stoich": [["x", ["num", "-1"]]]}]}
        cases.append({"kind": "language", "what": what, "model": model, "must_raise": False, "finding": None, "floaty": floaty,
                      "states": [[["x", v]] for v in ("3", "1/2", "0")]})
    return cases


def f_expr_using_all(rng, g, params):
    e = g.num(1)
    for p in params:
        if p not in set(_names(e)):
            e = ["binop", "Add", e, ["name", p]]
    return e


# ---------------------------------------------------------------------------------------------- source / wire


def fn_source(f) -> str:
    lines = [f"def {f['fname']}({', '.join(f['params'])}):"]
    if f.get("doc"):
        lines.append('    """generated rate law."""')
    for st in f["body"]:
        if st[0] == "ret":
            lines.append("    return" if len(st) == 1 else f"    return {render(st[1])}")
        elif "stmt_src" in f:
            lines.append(f"    {f['stmt_src']}")
        else:
            lines.append(f"    tmp_ = {f.get('assign_src', '1.0')}")
    return "\n".join(lines) + "\n"


def all_fns(model):
    for _, init in model["params"] + model["vars"]:
        if init[0] == "ia":
            yield init[1]
    for _, f in model["derived"]:
        yield f
    for r in model["rxns"]:
        yield r["fn"]
        for _, c in r["stoich"]:
            if c[0] == "fn":
                yield c[1]


def module_source(model) -> str:
    head = ("import math\nimport numpy\nimport numpy as np\nimport scipy\n"
            "from numpy import sqrt, ceil, log, log10, log2, sin, cos, tan, power, remainder\n\n\ndef helper(z):\n    return z\n\n\n")
    seen, parts = set(), []
    for f in all_fns(model):
        if f["fname"] not in seen:  # a function shared by several components is defined once
            seen.add(f["fname"])
            parts.append(fn_source(f))
    return head + "\n\n".join(parts)


def fn_wire(f, source_fn_def: ast.FunctionDef | None = None):
    body = [[s[0]] + [wire(x) for x in s[1:]] for s in f["body"]]
    if source_fn_def is not None:
        parsed = body_to_wire(source_fn_def)
        if parsed != body or [a.arg for a in source_fn_def.args.args] != f["params"]:
            raise RuntimeError(f"harness self-check: source of {f['fname']} does not parse back to its description:\n"
                               f"{parsed}\n{body}")
    return {"params": f["params"], "body": body, "args": f["args"]}


def model_wire(model, source: str):
    defs = {n.name: n for n in ast.parse(source).body if isinstance(n, ast.FunctionDef)}

    def fw(f):
        return fn_wire(f, defs[f["fname"]])

    def init(i):
        return ["val", i[1]] if i[0] == "val" else ["ia", fw(i[1])]

    return {
        "params": [[n, init(i)] for n, i in model["params"]],
        "vars": [[n, init(i)] for n, i in model["vars"]],
        "derived": [[n, fw(f)] for n, f in model["derived"]],
        "rxns": [{"name": r["name"], "fn": fw(r["fn"]),
                  "stoich": [[s, ["num", c[1]] if c[0] == "num" else ["fn", fw(c[1])]] for s, c in r["stoich"]]}
                 for r in model["rxns"]],
    }


# ---------------------------------------------------------------------------------------------- real code

_counter = itertools.count()


def _fl(q) -> float:
    return float(Fraction(q))


def _val(x):
    """a Python number -> canonical string"""
    try:
        f = float(x)
    except Exception:  # noqa: BLE001
        return f"?{type(x).__name__}"
    if math.isnan(f):
        return "nan"
    if math.isinf(f):
        return "inf" if f > 0 else "-inf"
    q = Fraction(f)
    return str(q.numerator) if q.denominator == 1 else f"{q.numerator}/{q.denominator}"


def _ast_names():
    import libsbml

    from translate.c08 import MTYPE

    return {getattr(libsbml, n): n for n in MTYPE}


def math_sexpr(n, names):
    import libsbml

    if n is None:
        return None
    t = n.getType()
    if t == libsbml.AST_NAME:
        return ["ci", n.getName()]
    if t == libsbml.AST_INTEGER:
        return ["cn", str(n.getInteger())]
    if t in (libsbml.AST_REAL, libsbml.AST_REAL_E, libsbml.AST_RATIONAL):
        return ["cn", _val(n.getReal())]
    if t == libsbml.AST_CONSTANT_E:
        return ["csym", "e"]
    if t == libsbml.AST_CONSTANT_PI:
        return ["csym", "pi"]
    if t == libsbml.AST_CONSTANT_TRUE:
        return ["csym", "true"]
    if t == libsbml.AST_CONSTANT_FALSE:
        return ["csym", "false"]
    kids = [math_sexpr(n.getChild(i), names) for i in range(n.getNumChildren())]
    if t == libsbml.AST_FUNCTION:
        return ["AST_FUNCTION", kids]
    return [names.get(t, f"AST_{t}"), kids]


def canon_math(m):
    """what survives libsbml's writer/reader: power has one spelling, root's default degree is explicit"""
    if m is None or m[0] in ("ci", "csym"):
        return m
    if m[0] == "cn":
        return m
    t, kids = m[0], [canon_math(k) for k in m[1]]
    if t == "AST_FUNCTION_POWER":
        t = "AST_POWER"
    if t == "AST_FUNCTION_ROOT" and len(kids) == 1:
        kids = [["cn", "2"], kids[0]]
    if t in ("AST_TIMES", "AST_PLUS"):  # libsbml re-associates nested n-ary operators
        flat = []
        for k in kids:
            flat += k[1] if k[0] == t else [k]
        kids = flat
    return [t, kids]


def parse_doc(path: Path):
    import libsbml

    names = _ast_names()
    d = libsbml.readSBMLFromFile(str(path))
    m = d.getModel()

    def ref(s):
        return [s.getSpecies(), _val(s.getStoichiometry()) if s.isSetStoichiometry() else None,
                s.getId() if s.isSetId() else None]

    return {
        "params": [[p.getId(), _val(p.getValue()) if p.isSetValue() else None] for p in m.getListOfParameters()],
        "species": [[s.getId(), _val(s.getInitialAmount()) if s.isSetInitialAmount() else (
                        _val(s.getInitialConcentration()) if s.isSetInitialConcentration() else None)]
                    for s in m.getListOfSpecies()],
        "compartments": [[c.getId(), _val(c.getSize())] for c in m.getListOfCompartments()],
        "modifiers": [[r.getId(), [x.getSpecies() for x in r.getListOfModifiers()]] for r in m.getListOfReactions()],
        "model_id": m.getId(), "unit_ids": [u.getId() for u in m.getListOfUnitDefinitions()],
        "species_attrs": [[s.getId(), s.getCompartment(), bool(s.getHasOnlySubstanceUnits()),
                           "concentration" if s.isSetInitialConcentration() else "amount"]
                          for s in m.getListOfSpecies()],
        "inits": [[i.getSymbol(), math_sexpr(i.getMath(), names)] for i in m.getListOfInitialAssignments()],
        "rules": [[r.getVariable(), math_sexpr(r.getMath(), names)] for r in m.getListOfRules()],
        "rxns": [{"id": r.getId(), "reactants": [ref(s) for s in r.getListOfReactants()],
                  "products": [ref(s) for s in r.getListOfProducts()],
                  "law": math_sexpr(r.getKineticLaw().getMath() if r.getKineticLaw() else None, names)}
                 for r in m.getListOfReactions()],
    }


def canon_doc(d):
    def cm(kv):
        return [kv[0], canon_math(kv[1])]

    return {
        "params": d["params"], "species": d["species"], "inits": [cm(x) for x in d["inits"]],
        "compartments": d.get("compartments"), "species_attrs": d.get("species_attrs"),
        "modifiers": d.get("modifiers"), "model_id": d.get("model_id"), "unit_ids": d.get("unit_ids"),
        "rules": sorted((cm(x) for x in d["rules"]), key=lambda kv: kv[0]),  # stable: duplicates keep document order
        "rxns": [{"id": r["id"], "reactants": r["reactants"], "products": r["products"], "law": canon_math(r["law"])}
                 for r in d["rxns"]],
    }


def eval_model(m, states, var_map):
    """numbers of a real Model: every name it has.  `var_map`: name of each state entry in this model"""
    out = {"vars": list(m.get_variable_names()), "names": None}
    init = dict(m.get_initial_conditions())
    a0 = m.get_args()
    init.update({k: a0[k] for k in m.get_raw_parameters()})  # includes parameters defined by an initial assignment
    out["init"] = {k: _val(v) for k, v in init.items()}
    at = []
    for st in states:
        vs = {var_map[k]: _fl(v) for k, v in st}
        args = m.get_args(variables=vs)
        rhs = m.get_right_hand_side(variables=vs)
        at.append({"vals": {k: _val(v) for k, v in args.items()}, "rhs": {k: _val(v) for k, v in rhs.items()}})
    out["at"] = at
    return out


def build_model(desc, mod):
    from mxlpy import Derived, InitialAssignment, Model

    def fn(f):
        return getattr(mod, f["fname"])

    m = Model()
    for n, i in desc["vars"]:
        m.add_variable(n, _fl(i[1]) if i[0] == "val" else InitialAssignment(fn=fn(i[1]), args=i[1]["args"]))
    for n, i in desc["params"]:
        m.add_parameter(n, _fl(i[1]) if i[0] == "val" else InitialAssignment(fn=fn(i[1]), args=i[1]["args"]))
    for n, f in desc["derived"]:
        m.add_derived(n, fn=fn(f), args=f["args"])
    for r in desc["rxns"]:
        st = {}
        for s, c in r["stoich"]:
            if c[0] == "num":
                q = Fraction(c[1])
                st[s] = int(q) if q.denominator == 1 and len(str(q)) % 2 == 0 else _fl(q)
            else:
                st[s] = Derived(fn=fn(c[1]), args=c[1]["args"])
        m.add_reaction(r["name"], fn=fn(r["fn"]), args=r["fn"]["args"], stoichiometry=st)
    return m


def real_worker(job):
    """runs in a forked worker: returns the R observation and the numbers of the original model"""
    import warnings

    warnings.filterwarnings("ignore")
    import importlib.util

    case, imp = job
    from mxlpy import sbml
    from mxlpy.paths import default_tmp_dir

    wid = f"{os.getpid()}_{next(_counter)}"
    SCRATCH.mkdir(parents=True, exist_ok=True)
    modname = f"c08mod_{wid}"
    modpath = SCRATCH / f"{modname}.py"
    xml = SCRATCH / f"c08_{wid}.xml"
    out: dict = {}
    gen_dir = default_tmp_dir(None, remove_old_cache=False)
    try:
        if case.get("prev") is not None:
            # the same path has been written and read before, in this process, with another model
            ppath = SCRATCH / f"{modname}_prev.py"
            ppath.write_text(case["prev_source"])
            pspec = importlib.util.spec_from_file_location(modname + "_prev", ppath)
            pmod = importlib.util.module_from_spec(pspec)
            sys.modules[modname + "_prev"] = pmod
            pspec.loader.exec_module(pmod)
            sbml.write(build_model(case["prev"], pmod), xml)
            sbml.read(xml)
            ppath.unlink()
            sys.modules.pop(modname + "_prev", None)
        modpath.write_text(case["source"])
        spec = importlib.util.spec_from_file_location(modname, modpath)
        mod = importlib.util.module_from_spec(spec)
        sys.modules[modname] = mod
        spec.loader.exec_module(mod)
        m = build_model(case["model"], mod)
        ident = {v: v for v, _ in case["model"]["vars"]}
        if not case["must_raise"]:
            try:
                out["orig"] = eval_model(m, case["states"], ident)
            except Exception as e:  # noqa: BLE001
                out["orig"] = {"err": type(e).__name__, "msg": str(e)[:200]}
        try:
            if case.get("compartments") is not None:
                from mxlpy.sbml._data import Compartment

                import libsbml

                from mxlpy.sbml._data import AtomicUnit

                opts = dict(case.get("options") or {})
                if opts.pop("units", False):
                    opts["units"] = {"mmol": AtomicUnit(kind=libsbml.UNIT_KIND_MOLE, exponent=1, scale=-3, multiplier=1)}
                sbml.write(m, xml, compartments={
                    cid: Compartment(name=cid, dimensions=3, size=_fl(size), units="litre", is_constant=True)
                    for cid, size in case["compartments"]}, **opts)
            else:
                sbml.write(m, xml)
        except Exception as e:  # noqa: BLE001
            out["export"] = {"err": type(e).__name__, "msg": str(e)[:200]}
            return out
        out["export"] = {"ok": parse_doc(xml)}
        try:
            m2 = sbml.read(xml)
        except Exception as e:  # noqa: BLE001
            out["read"] = {"err": "import:" + type(e).__name__, "msg": str(e)[:200]}
            return out
        try:
            have = set(m2.get_variable_names())
            vmap = {v: (imp.get(v, v) if imp.get(v, v) in have else v) for v in ident}
            out["read"] = eval_model(m2, case["states"], vmap)
        except Exception as e:  # noqa: BLE001
            out["read"] = {"err": "eval:" + type(e).__name__, "msg": str(e)[:200]}
        return out
    finally:
        for p in (modpath, xml, *gen_dir.glob(f"mb_c08_{wid}*.py")):
            try:
                p.unlink()
            except OSError:
                pass
        for k in [k for k in sys.modules if k == modname or k.startswith(f"mb_c08_{wid}")]:
            sys.modules.pop(k, None)


_pool = None


def pool():
    global _pool
    if _pool is None:
        _pool = mp.get_context("fork").Pool(min(16, os.cpu_count() or 4))
    return _pool


# ---------------------------------------------------------------------------------------------- comparison


def close(a: str | None, b: str | None) -> str:
    """'exact' | 'close' | 'diff' for two canonical number strings"""
    if a == b:
        return "exact"
    if a is None or b is None:
        return "diff"
    try:
        x, y = float(Fraction(a)), float(Fraction(b))
    except (ValueError, ZeroDivisionError):
        return "diff"
    if abs(x - y) <= TOL * max(1.0, abs(x), abs(y)):
        return "close"
    return "diff"


def lean_val(v):
    """driver value -> canonical string (bools as 0/1), None when the model has no exact value"""
    if v is None:
        return None
    if v is True:
        return "1"
    if v is False:
        return "0"
    return v


def view(numbers, name_of, kinds, ref=None, stats=None, fill_none=False, exact=()):
    """project a model's numbers on the original names.
    numbers: {"init": {name: v}, "at": [{"vals": {..}, "rhs": {..}}]} keyed by that model's own names
    name_of: original name -> name in that model; values within tolerance of `ref` (same shape) are snapped to it"""
    if "err" in numbers:
        return {"err": numbers["err"]}

    def pick(table, n, path):
        v = table.get(name_of[n])
        r = None
        if ref is not None and "err" not in ref:
            r = ref
            for p in path:
                r = r[p]
            r = r.get(n)
        if v is None and fill_none:
            return r
        if path == ["init"] and n in exact:
            return v  # an attribute value is not computed: it has to come back as the very same double
        if r is not None and v is not None:
            c = close(v, r)
            if stats is not None:
                stats[c] = stats.get(c, 0) + 1
            if c != "diff":
                return r
        return v

    present = set(numbers["init"]) | (set(numbers["at"][0]["vals"]) if numbers["at"] else set())
    out = {"names": {n: (name_of[n] if name_of[n] in present else None) for n in kinds["all"]}}
    out["init"] = {n: pick(numbers["init"], n, ["init"]) for n in kinds["static"]}
    out["at"] = [{"vals": {n: pick(a["vals"], n, ["at", i, "vals"]) for n in kinds["dynamic"]},
                  "rhs": {n: pick(a["rhs"], n, ["at", i, "rhs"]) for n in kinds["vars"]}}
                 for i, a in enumerate(numbers["at"])]
    return out


def lean_numbers(j):
    return {"init": {k: lean_val(v) for k, v in j["init"]},
            "at": [{"vals": {k: lean_val(v) for k, v in a["vals"]}, "rhs": {k: lean_val(v) for k, v in a["rhs"]}}
                   for a in j["at"]]}


def judge_case(ctx, case, R, M):
    desc = case["model"]
    kinds = {
        "vars": [n for n, _ in desc["vars"]],
        "static": [n for n, _ in desc["vars"]] + [n for n, _ in desc["params"]],
        "dynamic": [n for n, _ in desc["derived"]] + [r["name"] for r in desc["rxns"]],
    }
    kinds["all"] = kinds["static"] + kinds["dynamic"]
    small = {k: case.get(k) for k in ("kind", "model", "states", "must_raise", "finding", "floaty", "source", "prev",
                                       "compartments", "options", "refuse", "exact_init", "refid")
             if k not in ("compartments", "options", "refuse", "exact_init", "refid") or case.get(k) is not None}
    r_exp = "error" if "err" in R["export"] else "ok"
    m_exp = None if M is None else ("error" if "err" in M["export"] else "ok")
    if M is not None and bool(M["unsupported"]) != bool(case["must_raise"]):
        raise RuntimeError(f"harness/generator disagrees with hasUnsupported on {case['kind']}: {case['source']}")
    nontrivial = r_exp == "ok" and "err" not in R.get("read", {"err": 1})
    ctx.count({"model": desc, "states": case["states"]}, case["kind"].split(":")[0], nontrivial)
    if case["kind"].startswith("unsupported:"):
        ctx.hist["construct " + case["kind"].split(":")[1]] = ctx.hist.get("construct " + case["kind"].split(":")[1], 0) + 1
    # 0. the Lean spec of the original model agrees with CPython + mxlpy on this input (also when the export
    #    is refused: the meaning of the construct is still part of the specification)
    if M is not None and "orig" in R and "err" not in R["orig"]:
        ident0 = {n: n for n in kinds["all"]}
        S0 = view(R["orig"], ident0, kinds)
        sp = view(lean_numbers(M["spec"]), ident0, kinds, ref=S0, fill_none=True)
        if json.dumps(sp, sort_keys=True) != json.dumps(S0, sort_keys=True):
            ctx.add_drift(small, S0, sp, "Lean spec of the original model (evalPy) differs from the real model")
    if case["kind"] == "language" and M is not None and not M.get("in_language"):
        raise RuntimeError(f"harness: language case {case.get('what')} is outside Model/C08Language.lean's language")
    # 0a. C08_fn_export_total: every function of the model lies in the exporter's language (Model/C08Language.lean,
    #     declarative) -> the export must not raise (the options of write aside)
    if M is not None and M.get("in_language") and r_exp == "error" and not case.get("refuse"):
        ctx.violation(small, R["export"], "the export raised on a model whose functions all lie in the exporter's language")
    if M is not None:
        k = "in language" if M.get("in_language") else "outside language"
        ctx.hist[k] = ctx.hist.get(k, 0) + 1
    # 1a. options of `write` that have no document: no compartment for the species, a compartment called like a component
    if case.get("refuse"):
        ctx.hist["option refused"] = ctx.hist.get("option refused", 0) + 1
        ctx.judge(small, {"export": r_exp if r_exp == "ok" else "error:" + R["export"]["err"]}, {"export": "error:ValueError"},
                  None if m_exp is None else {"export": m_exp if m_exp == "ok" else "error:" + M["export"]["err"]},
                  what="write(compartments=...) without a compartment for the species / with an id that is a component name must raise")
        return
    # 1. constructs without MathML counterpart
    if case["must_raise"]:
        ctx.judge(small, {"export": r_exp}, {"export": "error"}, None if m_exp is None else {"export": m_exp},
                  what="a construct the exporter cannot represent must make the export raise")
        return
    if r_exp == "error":
        # the property allows a refusal; the model has to predict it (class included), else the tie is broken
        ctx.hist["export refused (allowed)"] = ctx.hist.get("export refused (allowed)", 0) + 1
        if M is not None and (m_exp != "error" or M["export"]["err"] != R["export"]["err"]):
            ctx.add_drift(small, R["export"], M["export"], "export raised, model disagrees")
        if not case["kind"].startswith("unsupported:"):
            # every construct of this stratum has a MathML counterpart (the model exports it): a crash of the
            # exporter on it is reported with the input
            ctx.judge(small, {"export": "error:" + R["export"]["err"]}, {"export": "ok"},
                      None if M is None else {"export": m_exp if m_exp == "ok" else "error:" + M["export"]["err"]},
                      what="export of a model inside the supported language raised")
        return
    # 2. structure of the written document
    if M is not None:
        # `exportModel` (what the round-trip theorems speak about) is the component part of `writeModel`
        # (`export_from`: with the names `_create_sbml_reactions` starts from; `export_plain` = `exportModel m`, the same
        #  unless a compartment is called like a species reference — option `refid`)
        for key in ("export_from",) + (() if case.get("refid") else ("export_plain",)):
            if m_exp == "ok" and ("ok" not in M[key] or any(M[key]["ok"][k] != M["export"]["ok"][k] for k in M[key]["ok"])):
                ctx.add_drift(small, M["export"], M[key], f"writeModel and {key} differ on the components")
        if m_exp == "error":
            ctx.add_drift(small, "export ok", M["export"], "model predicts an export error")
        else:
            rd, md = canon_doc(R["export"]["ok"]), canon_doc(M["export"]["ok"])
            if case.get("finding") == "F-C08-18":
                # the model's document holds the exact value, the file what libsbml's writer made of it (15 digits)
                for dd in (rd, md):
                    dd["params"] = [[k, None] for k, _ in dd["params"]]
                    dd["species"] = [[k, None] for k, _ in dd["species"]]
            if json.dumps(rd, sort_keys=True) != json.dumps(md, sort_keys=True):
                ctx.add_drift(small, rd, md, "written document differs from exportModel")
    # 2a. SBML validity of the reactions: a species whose id appears in a kinetic law is listed as reactant, product or
    #     modifier (L3v2 validation rule 21121) — the modifiers written are the law's variables that are not in the stoichiometry
    if all(re.fullmatch(r"[A-Za-z][A-Za-z0-9_]*", n) for n in kinds["all"]):
        var_names = set(kinds["vars"])
        want = sorted([r["name"], sorted({a for a in r["fn"]["args"] if a in var_names} - {sp for sp, _ in r["stoich"]})]
                      for r in desc["rxns"])
        got = sorted([rid, sorted(set(ms))] for rid, ms in R["export"]["ok"].get("modifiers") or [])
        mgot = None if M is None or m_exp != "ok" else sorted([rid, sorted(set(ms))] for rid, ms in M["export"]["ok"]["modifiers"])
        ctx.judge(dict(small, what="modifiers"), got, want, mgot,
                  what="a species used by a kinetic law is neither reactant, product nor modifier of the reaction (invalid SBML)")
    ident = {n: n for n in kinds["all"]}
    if case["kind"].startswith("unsupported:") and ("orig" not in R or "err" in R["orig"]):
        # a representable-but-usually-refused construct was exported and Python itself cannot evaluate it here
        ctx.hist["accepted, original not evaluable"] = ctx.hist.get("accepted, original not evaluable", 0) + 1
        return
    if "orig" not in R or "err" in R["orig"]:
        raise RuntimeError(f"harness: original model does not evaluate: {R.get('orig')}\n{case['source']}")
    S = view(R["orig"], ident, kinds)
    stats: dict = {}
    # 4. the round trip
    imp = dict(M["names"]) if M is not None else ident
    if "err" in R["read"]:
        Rv = {"err": R["read"]["err"]}
    else:
        Rv = view(R["read"], imp, kinds, ref=S, stats=stats, exact=case.get("exact_init") or ())
    Mv = None
    if M is not None and m_exp == "ok":
        Mv = view(lean_numbers(M["read"]), imp, kinds, ref=S, stats=stats, fill_none="err" not in Rv)
        if "err" not in Rv:
            # where the model has no exact value (sqrt, ln, ...) it takes the observed one
            Mv = json.loads(json.dumps(Mv))
            for i, a in enumerate(Mv["at"]):
                for sect in ("vals", "rhs"):
                    for k, v in a[sect].items():
                        if v is None:
                            a[sect][k] = Rv["at"][i][sect][k]
            for k, v in Mv["init"].items():
                if v is None:
                    Mv["init"][k] = Rv["init"][k]
    if Mv is not None and Rv.get("err", "").startswith("eval:"):
        # the re-imported model has unresolvable arguments; the model shows the same as names without value
        holes = any(v is None for a in Mv["at"] for sect in ("vals", "rhs") for v in a[sect].values())
        if holes or M["read"].get("unresolved"):
            Mv = Rv
    for k, v in stats.items():
        ctx.hist[f"numbers {k}"] = ctx.hist.get(f"numbers {k}", 0) + v
    fid = case["finding"]
    if fid in ("F-C08-9", "F-C08-17", "F-C08-18"):
        Mv = None  # pysbml refuses booleans as numbers / reuses a component's name; the model does not predict the third party
    if fid == "F-C08-5":
        # names that need escaping come back renamed (known, third-party mapping) — but every reference has to resolve:
        # the NUMBERS under the renamed names are judged on their own, without the licence of the finding
        def nums(v):
            return v if v is None or "err" in v else {"init": v["init"], "at": v["at"]}

        def names(v):
            return v if v is None or "err" in v else {"names": v["names"]}

        def plain(n):
            return bool(re.fullmatch(r"[A-Za-z][A-Za-z0-9_]*", n)) and "__" not in n and not keyword.iskeyword(n)

        odd_species = {sp for r in desc["rxns"] for sp, c in r["stoich"] if c[0] == "fn" and not plain(sp)}
        # (third party, F-C17-5: the id of a species reference is not renamed by the importer — a computed coefficient on
        #  a species whose name needs escaping)
        ctx.judge(dict(small, finding=None), nums(Rv), nums(S), nums(Mv) if not odd_species else None,
                  finding="F-C08-20" if odd_species else None,
                  what="export -> import of names that need escaping: a reference does not resolve / a number changes")
        if "err" not in Rv:
            ctx.judge(small, names(Rv), names(S), names(Mv), finding=fid, what="export -> import renames a component")
        return
    ctx.judge(small, Rv, S, Mv, finding=fid, what="export -> import changes names, initial values, derived values, fluxes or derivatives")


# ---------------------------------------------------------------------------------------------- shrinking


def _num_children(e):
    """numeric immediate subexpressions of a numeric wire expression"""
    t = e[0]
    if t == "unary" and e[1] in ("USub", "UAdd"):
        return [e[2]]
    if t == "binop":
        return [e[2], e[3]]
    if t == "ifexp":
        return [e[2], e[3]]
    if t == "call":
        return list(e[2])
    return []


def _candidates(case):
    """smaller variants of a case (one reduction each)"""
    import copy

    m = case["model"]
    if len(case["states"]) > 1:
        c = copy.deepcopy(case)
        c["states"] = c["states"][:1]
        yield c
    for i in range(len(m["rxns"])):
        if len(m["rxns"]) > 1:
            c = copy.deepcopy(case)
            del c["model"]["rxns"][i]
            yield c
    used = {a for f in all_fns(m) for a in f["args"]}
    for i, (n, _) in enumerate(m["derived"]):
        if n not in used:
            c = copy.deepcopy(case)
            del c["model"]["derived"][i]
            yield c
    for key in ("params", "vars"):
        for i, (n, init) in enumerate(m[key]):
            if init[0] == "ia":
                c = copy.deepcopy(case)
                c["model"][key][i][1] = ["val", "2"]
                yield c
            if n not in used and key == "params":
                c = copy.deepcopy(case)
                del c["model"][key][i]
                yield c
    for ri, r in enumerate(m["rxns"]):
        for si, (_, coef) in enumerate(r["stoich"]):
            if len(r["stoich"]) > 1:
                c = copy.deepcopy(case)
                del c["model"]["rxns"][ri]["stoich"][si]
                yield c
            if coef[0] == "fn":
                c = copy.deepcopy(case)
                c["model"]["rxns"][ri]["stoich"][si][1] = ["num", "1"]
                yield c

    # replace a function body by one of its numeric subexpressions
    def fn_slots(mm):
        for key in ("params", "vars"):
            for i, (_, init) in enumerate(mm[key]):
                if init[0] == "ia":
                    yield (key, i, 1, 1)
        for i in range(len(mm["derived"])):
            yield ("derived", i, 1)
        for i, r in enumerate(mm["rxns"]):
            yield ("rxns", i, "fn")
            for j, (_, coef) in enumerate(r["stoich"]):
                if coef[0] == "fn":
                    yield ("rxns", i, "stoich", j, 1, 1)

    def get(mm, path):
        x = mm
        for k in path:
            x = x[k]
        return x

    for path in fn_slots(m):
        f = get(m, path)
        if len(f["body"]) == 1 and f["body"][0][0] == "ret" and len(f["body"][0]) == 2:
            for sub in _num_children(f["body"][0][1]):
                c = copy.deepcopy(case)
                get(c["model"], path)["body"] = [["ret", sub]]
                yield c


def shrink(ctx, viol, budget: int = 40):
    """greedy delta debugging of one violation (re-runs R, M, S on every candidate)"""
    from vlib.framework import Ctx

    case = viol["case"]
    what = viol.get("what")
    spent = 0
    progress = True
    while progress and spent < budget:
        progress = False
        for cand in _candidates(case):
            if spent >= budget:
                break
            spent += 1
            try:
                c2 = prepare({k: cand.get(k) for k in ("kind", "model", "states", "must_raise", "finding", "floaty", "prev", "compartments", "options", "refuse", "exact_init", "refid")})
                (R, M), = evaluate(ctx, [c2])
                probe = Ctx(ctx.prop, ctx.tier, ctx.seed)
                probe.known, probe.fixed = ctx.known, ctx.fixed
                judge_case(probe, c2, R, M)
            except Exception:  # noqa: BLE001  a candidate the harness cannot run is not a smaller witness
                continue
            hit = [v for v in probe.violations if v.get("what") == what]
            if hit:
                case, viol = hit[0]["case"], hit[0]
                progress = True
                break
    return viol


# ---------------------------------------------------------------------------------------------- driver


def prepare(case):
    if case.get("prev") is not None:
        case["prev_source"] = module_source(case["prev"])
    case["source"] = module_source(case["model"])
    case["wire"] = model_wire(case["model"], case["source"])
    return case


def evaluate(ctx, cases):
    from datetime import UTC, datetime

    today = datetime.now(UTC).date().strftime("%Y-%m-%d")

    def wopts(c):
        o = c.get("options") or {}
        return {"model_name": o.get("model_name") or "model", "date": today,
                "unit_ids": ["mmol"] if o.get("units") else ["per_second"]}

    reqs = [{"op": "c08", "model": c["wire"], "states": c["states"], "compartments": c.get("compartments"),
             "write_opts": wopts(c)} for c in cases]
    Ms = driver.call_batch(reqs) if ctx.driver_ok else [None] * len(cases)
    jobs = [({k: c.get(k) for k in ("kind", "model", "states", "must_raise", "source", "prev", "prev_source", "compartments", "options")},
             dict(m["names"]) if m is not None else {}) for c, m in zip(cases, Ms)]
    Rs = pool().map(real_worker, jobs, chunksize=4)
    return list(zip(Rs, Ms))


def setup(ctx):
    from translate import c08 as tr

    ctx.translate(tr.generate)
    ctx.build(PROPS)
    ctx.rule = (
        "generated models (1-3 variables, parameters, derived quantities, reactions; initial assignments; numeric, "
        "fractional and computed coefficients of either sign) whose functions are random typed single-expression "
        "rate laws over + - * / // ** unary minus, conditional expressions, (chained) comparisons, not, abs/max/min/"
        "ceil/power/remainder and, in the float stratum, division and transcendental functions; strata: exact, float, "
        "names needing escaping, every unsupported construct (keyword arguments and bodies without return included), "
        "species-reference clash (also with components called <species>ref), booleans as numbers, permuted argument "
        "names, statements after the first return, options of write; "
        "3 states each; distinct = distinct (model, states); non-trivial = export and import succeeded"
    )
    ctx.assumptions += [
        "libsbml serialisation / parsing and pysbml's parse+transform stage are exercised by the tie, not modelled "
        "(pysbml's identifier mapping is modelled as nameToPy)",
        "numbers are compared exactly where double arithmetic is exact and to 1e-9 relative otherwise "
        "(sympy reorders expressions on import)",
        "modifiers, units and the model name are outside the Lean model; the compartments option and the species "
        "attributes are modelled (writeModel) and compared with the written file",
    ]
    ctx.trusted_base += ["translate/c08.py renders tables and structural choices of _export.py faithfully (refuses otherwise)"]


def strata(ctx):
    n = ctx.n(1, 32)
    plan = [("exact", 130 * n), ("float", 80 * n), ("names", 30 * n), ("refclash", 16 * n), ("boolnum", 9 * n),
            ("gennames", 24 * n), ("samepath", 16 * n), ("sharedfn", 26 * n), ("permargs", 24 * n), ("body", 20 * n),
            ("compartment", 24 * n), ("concname", 6 * n), ("reserved", 24 * n), ("digits", 6 * n)]
    plan += [(f"unsupported:{k}", (2 if k.startswith("near:") else 3) * n) for k, _ in UNSUPPORTED]
    return plan


def run(ctx):
    setup(ctx)
    shutil.rmtree(SCRATCH, ignore_errors=True)
    cases = []
    for stratum, count in strata(ctx):
        for _ in range(count):
            cases.append(prepare(gen_model(ctx.rng, stratum=stratum)))
    cases += [prepare(c) for c in language_cases()]
    batch = 256
    for i in range(0, len(cases), batch):
        chunk = cases[i:i + batch]
        for case, (R, M) in zip(chunk, evaluate(ctx, chunk)):
            judge_case(ctx, case, R, M)
        if len(ctx.violations) > 20:
            break
    if ctx.violations:
        # report a minimised witness: shrink the smallest failing model
        from vlib.framework import canon

        v = min((v for v in ctx.violations if "case" in v and "model" in v["case"]), key=lambda v: len(canon(v)),
                default=None)
        if v is not None:
            small = shrink(ctx, v)
            if small is not v:
                ctx.violations.append(small)
                ctx.notes.append("failing input minimised by delta debugging")
    shutil.rmtree(SCRATCH, ignore_errors=True)
    if not ctx.proof_ok or ctx.drift:
        ctx.notes.append("proof/correspondence broken: the run above is the failing-input search")


def replay(ctx, rp):
    case = rp["case"]
    case = prepare({k: case.get(k) for k in ("kind", "model", "states", "must_raise", "finding", "floaty", "prev", "compartments", "options", "refuse", "exact_init", "refid")})
    (R, M), = evaluate(ctx, [case])
    print(case["source"])
    print("R =", json.dumps(R, indent=1)[:4000])
    print("M =", json.dumps(M, indent=1)[:4000])
    judge_case(ctx, case, R, M)
    shutil.rmtree(SCRATCH, ignore_errors=True)
