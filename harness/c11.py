"""C11 — model -> generated MxlPy source -> model preserves behaviour, or fails (DESIGN §6/C11).

Input classes (restated in `uses` / `input_class` independently of the key names): the function of an initial
assignment or computed coefficient always gets a definition of its own; the functions of derived quantities and
reactions are filed under their `__name__` (last use wins).  dup = an emitted definition would repeat a parameter
-> generation raises ValueError; collide = a derived / reaction use whose `__name__` belongs to a different
function's emitted definition -> F-C11-1.

Per generated case (content whose functions have chosen `__name__`s: unique, shared between components with
different argument lists, or deliberately colliding; queries):
  S = the original real model's answers to the core queries (names/kinds, initial values, parameter values,
      args / fluxes / right-hand side / call / stoichiometries at integer states)
  R = the same queries on `exec(generate_mxlpy_code(model))["create_model"]()`
  M = the Lean model `roundTrip` (toSymbolicRepr -> genMxlpy -> runProgram) answered by the core query model;
      its Program (definition keys with parameter lists, builder calls) is compared with the emitted source
      parsed by Python's `ast`.
"""
from __future__ import annotations

import ast
import copy
import json
import multiprocessing as mp
import os
import random
from fractions import Fraction

from vlib import content as C
from vlib import driver
from vlib.fexpr import Inexact, rat_str

from . import codegencommon as cg
from . import corecommon as cc

PROPS = ["MxlVerif.Props.C11"]

# --------------------------------------------------------------------------- the code's keys


def uses(content):
    """every function slot of the model in the order the generator visits them: (kind, name, identity, args).
    kind "gen": the function of an initial assignment or of a computed stoichiometric coefficient - the generator
    files its definition under a name of its own (`init_<f>` / `<rxn>_stoich_<f>`, extended with "_" until no other
    function has it: `_free_name` hands every name out once), so every such use has its own emitted definition.
    kind "comp": the function of a derived quantity or a reaction - filed under its `__name__`, a later use with the
    same name replaces the definition."""
    out = []

    def ident(f):
        return (f["name"], json.dumps(f["e"]), len(f["args"]))

    for k, v in content["vars"]:
        if "ia" in v:
            out.append(("gen", v["ia"]["name"], ident(v["ia"]), list(v["ia"]["args"])))
    for k, v in content["pars"]:
        if "ia" in v:
            out.append(("gen", v["ia"]["name"], ident(v["ia"]), list(v["ia"]["args"])))
    for k, f in content["derived"]:
        out.append(("comp", f["name"], ident(f), list(f["args"])))
    for k, r in content["rxns"]:
        out.append(("comp", r["name"], ident(r), list(r["args"])))
        for cpd, cj in r["st"]:
            if "c" not in cj:
                out.append(("gen", cj["name"], ident(cj), list(cj["args"])))
    for k, f in content.get("readouts", []):      # written like derived quantities (since the repair of F-C11-8)
        out.append(("comp", f["name"], ident(f), list(f["args"])))
    return out


def input_class(content):
    """(dup, collide, unsure): some emitted definition would repeat a parameter name (any initial-assignment /
    coefficient use, or the last use under a derived / reaction function name) / some `__name__` is shared by two
    different functions of derived quantities or reactions (generation refuses, after the repair of F-C11-1) /
    the two same-named functions are different objects with different texts that compute the same polynomial (whether
    the generator takes them for the same function depends on sympy's normal form: either outcome is accepted)"""
    us = uses(content)
    winner, idents = {}, {}
    for kind, name, idn, args in us:
        if kind == "comp":
            winner[name] = (idn, args)
            idents.setdefault(name, set()).add(idn)
    dup = (any(len(set(args)) != len(args) for kind, _, _, args in us if kind == "gen")
           or any(len(set(args)) != len(args) for _, args in winner.values()))
    collide = any(len(v) > 1 for v in idents.values())
    unsure = False
    for v in idents.values():
        if len(v) > 1:
            try:
                polys = {json.dumps(sorted((list(m), str(c)) for m, c in cg.poly(json.loads(e), ar).items())) + f"/{ar}"
                         for _, e, ar in v}
            except ValueError:
                polys = set(v)
            if len(polys) < len(v):
                unsure = True
    return dup, collide, unsure


def expected_def_keys(content):
    """keys of the emitted definitions in emission order, restated from the documentation of `_free_name` (a generated
    name is extended until neither a derived / reaction function nor an earlier generated name has it)"""
    taken = ({f["name"] for _, f in content["derived"]} | {r["name"] for _, r in content["rxns"]}
             | {f["name"] for _, f in content.get("readouts", [])})
    keys = []

    def free(name):
        while name in taken:
            name += "_"
        taken.add(name)
        return name

    def put(key):
        if key not in keys:
            keys.append(key)

    for k, v in content["vars"]:
        if "ia" in v:
            put(free(f"init_{v['ia']['name']}"))
    for k, v in content["pars"]:
        if "ia" in v:
            put(free(f"init_{v['ia']['name']}"))
    for k, f in content["derived"]:
        put(f["name"])
    for k, r in content["rxns"]:
        put(r["name"])
        for cpd, cj in r["st"]:
            if "c" not in cj:
                put(free(f"{k}_stoich_{cj['name']}"))
    for k, f in content.get("readouts", []):
        put(f["name"])
    return keys


def classify(content):
    """finding class of an input that gets past generation: none is left (repeated parameter names and two different
    same-named functions make generation raise ValueError since the repairs of F-C11-2 / F-C11-1; that is the claim's
    "or fails", not a finding)"""
    return None


all_fns = cg.all_fns


def to_lean_wire(content):
    """function table + content with fids (same name + same expression + same arity = same function object)"""
    table, idx = [], {}

    def use(f):
        key = (f["name"], json.dumps(f["e"]), len(f["args"]))
        if key not in idx:
            idx[key] = len(table)
            table.append({"name": f["name"], "e": f["e"]})
        return {"fid": idx[key], "args": list(f["args"])}

    def val(v):
        return {"v": v["v"]} if "v" in v else {"ia": use(v["ia"])}

    c = {"vars": [[k, val(v)] for k, v in content["vars"]], "pars": [[k, val(v)] for k, v in content["pars"]],
         "derived": [[k, use(f)] for k, f in content["derived"]], "rxns": []}
    for k, r in content["rxns"]:
        u = use(r)
        u["st"] = [[cpd, ({"c": cj["c"]} if "c" in cj else use(cj))] for cpd, cj in r["st"]]
        c["rxns"].append([k, u])
    return table, c


# --------------------------------------------------------------------------- emitted source -> program shape


def source_shape(src: str) -> dict:
    tree = ast.parse(src)
    defs, build = [], []
    for node in tree.body:
        if isinstance(node, ast.FunctionDef) and node.name != "create_model":
            defs.append([node.name, [a.arg for a in node.args.args]])
        elif isinstance(node, ast.FunctionDef):
            ret = node.body[0].value
            chain = []
            while isinstance(ret, ast.Call) and isinstance(ret.func, ast.Attribute):
                chain.append(ret)
                ret = ret.func.value
            for call in reversed(chain):
                build.append(_call_shape(call))
    return {"defs": defs, "build": build}


def _ref(call):
    kw = {k.arg: k.value for k in call.keywords}
    return {"key": kw["fn"].id, "args": [e.value for e in kw["args"].elts]}


def _num(node):
    return rat_str(Fraction(ast.literal_eval(node)))


def _call_shape(call):
    meth = call.func.attr
    kw = {k.arg: k.value for k in call.keywords}
    name = call.args[0].value
    if meth in ("add_variable", "add_parameter"):
        v = kw.get("initial_value", kw.get("value"))
        if isinstance(v, ast.Call):
            return [meth, name, _ref(v)]
        return [meth, name, {"v": _num(v)}]
    if meth == "add_derived":
        return [meth, name, _ref(call)]
    if meth == "add_reaction":
        st = []
        for k, v in zip(kw["stoichiometry"].keys, kw["stoichiometry"].values):
            st.append([k.value, _ref(v) if isinstance(v, ast.Call) else {"v": _num(v)}])
        return [meth, name, _ref(call), st]
    raise ValueError(meth)


# --------------------------------------------------------------------------- real-code worker


def structure_of(m):
    """names, kinds and wiring (which arguments each component reads)"""
    from mxlpy.types import Derived, InitialAssignment

    def val(v):
        return ["ia", list(v.args)] if isinstance(v, InitialAssignment) else ["num", C.num(v)]

    return {
        "vars": [[k, val(v.initial_value)] for k, v in m.get_raw_variables().items()],
        "pars": [[k, val(v.value)] for k, v in m.get_raw_parameters().items()],
        "derived": [[k, list(d.args)] for k, d in m.get_raw_derived().items()],
        "rxns": [[k, list(r.args), [[c, (["dyn", list(f.args)] if isinstance(f, Derived) else ["num", C.num(f)])]
                                    for c, f in r.stoichiometry.items()]] for k, r in m.get_raw_reactions().items()],
    }


def heads_of(struct):
    """`structure_of` in the vocabulary of the Lean `heads` / `Call.head`: [kind, name, args | None, [[compound, args | None]]]"""
    def a(v):
        return list(v[1]) if v[0] in ("ia", "dyn") else None

    return ([["variable", k, a(v), []] for k, v in struct["vars"]]
            + [["parameter", k, a(v), []] for k, v in struct["pars"]]
            + [["derived", k, list(args), []] for k, args in struct["derived"]]
            + [["reaction", k, list(args), [[c, a(f)] for c, f in st]] for k, args, st in struct["rxns"]])


def readouts_of(m):
    """names, argument lists and values (default state, time 0) of the model's readouts"""
    ros = m.get_raw_readouts()
    try:
        vals = m.get_args(include_readouts=True)
        v = [[k, C.num(float(vals[k]))] for k in ros]
    except Exception as e:  # noqa: BLE001
        v = {"err": [type(e).__name__]}
    return {"readouts": [[k, list(r.args)] for k, r in ros.items()], "values": v}


def _round_trip(m, qs):
    """answers of the model, generated source, answers of the model rebuilt by executing that source"""
    from mxlpy.meta import generate_mxlpy_code

    out = {}
    out["S"] = [cc.canon_R(q, C.run_query(m, q)) for q in qs]
    out["S_struct"] = structure_of(m)
    out["S_ro"] = readouts_of(m)
    try:
        src = generate_mxlpy_code(m)
    except Exception as e:  # noqa: BLE001
        out["gen"] = {"err": [type(e).__name__]}
        return out
    out["src"] = src
    try:
        out["def_texts"] = [[n.name, [a.arg for a in n.args.args], ast.get_source_segment(src, n.body[0].value)]
                            for n in ast.parse(src).body
                            if isinstance(n, ast.FunctionDef) and n.name != "create_model" and isinstance(n.body[0], ast.Return)]
    except Exception:  # noqa: BLE001
        out["def_texts"] = []
    try:
        out["shape"] = source_shape(src)
    except SyntaxError:
        out["shape"] = {"err": ["SyntaxError"]}
    except Exception as e:  # noqa: BLE001
        out["shape"] = {"err": ["unparsed", repr(e)[:200]]}
    ns: dict = {}
    try:
        exec(compile(src, "<generated-mxlpy>", "exec"), ns)  # noqa: S102
        m2 = ns["create_model"]()
    except Exception as e:  # noqa: BLE001
        out["R"] = [{"err": [type(e).__name__]}] * len(qs)
        out["R_struct"] = {"err": [type(e).__name__]}
        return out
    out["R"] = [cc.canon_R(q, C.run_query(m2, q)) for q in qs]
    out["R_struct"] = structure_of(m2)
    out["R_ro"] = readouts_of(m2)
    return out


def _real_worker(case):
    import logging
    import warnings

    warnings.filterwarnings("ignore")
    logging.disable(logging.CRITICAL)
    pool = cg.FnPool()
    try:
        try:
            m = cg.build_model(case["content"], random.Random(case.get("decl_seed", 0)), pool)
        except Exception as e:  # noqa: BLE001
            return {"build_err": type(e).__name__ + ": " + str(e)[:200]}
        out = _round_trip(m, case["queries"])
        if case.get("session"):
            # same process, same function objects: the module-level constants they read change, then a model is
            # built from them again and its source generated again
            pool.mutate()
            try:
                m_again = cg.build_model(case["content"], random.Random(case.get("decl_seed", 0)), pool)
                out["phase2"] = _round_trip(m_again, case["queries"])
            except Exception as e:  # noqa: BLE001
                out["phase2"] = {"build_err": type(e).__name__ + ": " + str(e)[:200]}
        return out
    finally:
        pool.cleanup()
        cg.cleanup_helpers()


_pool = None


def pool():
    global _pool
    if _pool is None:
        _pool = mp.get_context("fork").Pool(min(16, os.cpu_count() or 4))
    return _pool


def spec_answers(case):
    sp = C.Spec(case["content"])
    out = []
    for q in case["queries"]:
        try:
            out.append(sp.answer(q))
        except Inexact:
            out.append("inexact")
    return out


def exhaustive_cases(thorough: bool):
    """Seed-independent stratum: one skeleton (variable x, parameter k, initial-assignment parameter q, derived d1,
    d2, reaction r with a computed coefficient) and EVERY assignment of (name, expression) from {f, g} x {a0*a1,
    a0+a1} to its function slots (4 slots in the quick tier, 5 in the thorough tier): all sharing / collision
    patterns of that skeleton."""
    import itertools

    E = [["*", ["a", 0], ["a", 1]], ["+", ["a", 0], ["a", 1]]]
    choices = [(n, e) for n in ("f", "g") for e in E]
    slots = 5 if thorough else 4
    out = []
    for combo in itertools.product(choices, repeat=slots):
        fn = [{"name": n, "e": e} for n, e in combo]
        if slots == 4:
            fn.append({"name": "h", "e": E[0]})
        content = {
            "vars": [["x", {"v": "1"}]],
            "pars": [["k", {"v": "2"}], ["q", {"ia": dict(fn[0], args=["k", "x"])}]],
            "derived": [["d1", dict(fn[1], args=["x", "k"])], ["d2", dict(fn[2], args=["d1", "q"])]],
            "rxns": [["r", dict(fn[3], args=["d2", "x"], st=[["x", dict(fn[4], args=["k", "q"])]])]],
        }
        out.append({"content": content, "bad": [], "decl_seed": len(out), "stratum": "exhaustive",
                    "queries": [["init"], ["pvals"], ["args", None, "0"], ["rhs", [["x", "3"]], "1"], ["call", "1", ["3"]],
                                ["stoich", [["x", "3"]], "1"]]})
    # control-flow bodies on a grid of states (oracle only)
    for content in cg.cond_grid_contents():
        qs = [["init"], ["args", None, "0"]]
        for x in (-2, -1, 0, 1, 2):
            qs += [["args", [["x", str(x)]], "0"], ["call", "0", [str(x)]]]
        out.append({"content": content, "bad": [], "decl_seed": len(out), "stratum": "exhaustive-conditionals",
                    "oracle_only": True, "queries": qs})
    return out


def _request(c, content, def_texts=None):
    table, wc = to_lean_wire(content)
    return {"op": "c11", "fns": table, "content": wc, "bad": c.get("bad", []), "queries": c["queries"],
            "defTexts": def_texts or []}


def evaluate(cases, use_driver=True):
    """-> [(R, M)]; M = {"phase1": …, "phase2": …} for a session case, None for oracle-only cases"""
    Rs = pool().map(_real_worker, cases, chunksize=4)
    Ms = [None] * len(cases)
    if use_driver:
        reqs, where = [], []
        for i, c in enumerate(cases):
            if c.get("oracle_only"):
                continue
            reqs.append(_request(c, c["content"], Rs[i].get("def_texts")))
            where.append((i, "phase1"))
            if c.get("session"):
                reqs.append(_request(c, cg.content_phase2(c["content"]), (Rs[i].get("phase2") or {}).get("def_texts")))
                where.append((i, "phase2"))
        for (i, ph), r in zip(where, driver.call_batch(reqs)):
            if cases[i].get("session"):
                Ms[i] = Ms[i] or {}
                Ms[i][ph] = r
            else:
                Ms[i] = r
    return list(zip(Rs, Ms))


# --------------------------------------------------------------------------- generator


Namer = cg.Namer


def rich_queries(rng, content, vals=(1, 2, 4, 8), n=2):
    qs = [["init"], ["pvals"], ["args", None, "0"], ["rhs", None, "0"], ["fluxes", None, "0"]]
    for _ in range(n):
        st = [[k, str(rng.choice(vals))] for k, _ in content["vars"]]
        t = str(rng.choice([1, 2]))
        qs += [["args", st, t], ["fluxes", st, t], ["rhs", st, t], ["call", t, [v for _, v in st]], ["stoich", st, t]]
    return qs


def gen_case(ctx, i):
    rng = ctx.rng
    r = rng.random()
    extra, kw = {}, {}
    if r < 0.32:
        stratum, namer, dup = "unique+shared", Namer(rng, 0.35, 0.0, 0.0), 0.0
        kw = {"p_param_names": 0.3}
    elif r < 0.50:
        stratum, namer, dup = "colliding", Namer(rng, 0.2, 0.25, 0.15), 0.0
    elif r < 0.62:
        stratum, namer, dup = "repeated-argument", Namer(rng, 0.25, 0.0, 0.0), 0.35
    elif r < 0.68:
        stratum, namer, dup = "cross-key", Namer(rng, 0.2, 0.0, 0.4), 0.0
    elif r < 0.73:
        stratum, namer, dup = "untranslatable", Namer(rng, 0.0, 0.0, 0.0), 0.0
    elif r < 0.86:   # functions in modules with module-level float constants (read / merely named like a parameter);
        #              session: the constants change, a model is built from the same functions and generated again
        stratum, namer, dup = "module-constants", Namer(rng, 0.3, 0.0, 0.0), 0.0
        kw = {"p_modconst": 0.6}
    elif r < 0.91:   # wider expression fragment (/ % ** unary minus, nested): oracle only, R vs S to 1e-9
        stratum, namer, dup = "wider-expressions", Namer(rng, 0.3, 0.0, 0.0), 0.0
        kw = {"rich": True, "small": (1, 2, 4), "p_time": 0.0, "n_pars": (1, 3)}
        extra["oracle_only"] = True
    elif r < 0.95:   # constants of the math module (math.pi, math.e) as factor / summand / divisor / modulus: the
        #              generated source must import what its definitions refer to; oracle only, R vs S to 1e-9
        stratum, namer, dup = "math-constants", Namer(rng, 0.3, 0.0, 0.0), 0.0
        kw = {"rich": "math", "small": (1, 2, 4), "p_time": 0.0, "n_pars": (1, 3), "n_comps": (1, 4)}
        extra["oracle_only"] = True
    else:            # control flow in the functions, states / parameters negative, zero, on the thresholds, positive
        stratum, namer, dup = "conditionals", Namer(rng, 0.3, 0.0, 0.0), 0.0
        kw = {"rich": "cond", "small": cg.COND_VALUES, "p_time": 0.0, "n_pars": (1, 3), "n_comps": (1, 5)}
        extra["oracle_only"] = True
    if kw.get("rich"):
        content = cg.gen_content(rng, all_vars_have_eq=rng.random() < 0.6, p_ia_par=0.1, p_ia_var=0.2, p_dyn_coef=0.35,
                                 name_fn=namer, **kw)
        qs = rich_queries(rng, content, cg.COND_VALUES, 3) if kw["rich"] == "cond" else rich_queries(rng, content)
    else:
        content = cg.gen_content(rng, all_vars_have_eq=rng.random() < 0.6, p_ia_par=0.12, p_ia_var=0.25, p_dyn_coef=0.35,
                                 name_fn=namer, p_dup_arg=dup, **kw)
        qs = cc.standard_queries(rng, content, n_states=2)
    if stratum == "module-constants":
        extra["session"] = cg.has_session(content)
    if stratum == "unique+shared" and rng.random() < 0.3:
        # same name, same text, DIFFERENT function objects (a helper copied into two modules): the generator compares the
        # translated expressions, so they are one function for it - accepted, one def; for the Lean model `fid` / `src` is
        # the translation class, so they are one fid
        fl = [f for f in all_fns(content) if not f.get("src")]
        for n, f in enumerate(fl):
            if rng.random() < 0.5:
                f["copy"] = n + 1
        if any("copy" in f for f in fl):
            stratum = "equal-copies"
    if stratum == "unique+shared" and rng.random() < 0.25:
        # readouts (outside the property's four kinds, written since the repair of F-C11-8): functions over any names of
        # the model, sometimes the function object of another component; oracle only (the Lean model has no readouts)
        names = [k for k, _ in content["vars"] + content["pars"] + content["derived"] + content["rxns"]]
        fs = [f for f in all_fns(content)]
        ros = []
        for j in range(rng.randint(1, 2)):
            n = rng.randint(1, min(2, len(names)))
            args = rng.sample(names, n)
            same = [f for f in fs if len(f["args"]) == n]
            if same and rng.random() < 0.4:
                f0 = rng.choice(same)
                d = dict({k: copy.deepcopy(f0[k]) for k in ("e", "params") if k in f0}, args=args, name=f0["name"])
            else:
                d = {"args": args, "e": cg.gen_fn_expr(rng, args, 2), "name": f"ro_fn{j}"}
            ros.append([f"readout{j}", d])
        content["readouts"] = ros
        stratum = "readouts"
        extra["oracle_only"] = True
    bad = []
    if stratum == "untranslatable":
        f = rng.choice(list(all_fns(content)))
        f["bad"] = True
        bad = [f["name"]]
    return dict({"content": content, "bad": bad, "queries": qs, "decl_seed": rng.randrange(1 << 30), "stratum": stratum},
                **extra)


# --------------------------------------------------------------------------- verdicts


def canon_M_err(e):
    cls = e[0]
    if cls == "Other":
        return {"err": [e[1]]}
    return {"err": [cls]}


def judge_case(ctx, case, R, M):
    if "build_err" in R and case.get("oracle_only") and R["build_err"].startswith("ZeroDivisionError"):
        ctx.hist["skipped_model_raises"] = ctx.hist.get("skipped_model_raises", 0) + 1
        return
    if "build_err" in R:
        ctx.violation(case, R, "harness could not build the model")
        return
    if case.get("oracle_only"):
        judge_oracle_only(ctx, case, R)
        return
    if case.get("session") and "phase2" in R:
        judge_phase(ctx, case, R, None if M is None else M.get("phase1"))
        case2 = dict(case, content=cg.content_phase2(case["content"]), _orig=case,
                     stratum=case.get("stratum", "?") + "/after-constants-changed")
        if "build_err" in R["phase2"]:
            ctx.violation(case, R["phase2"], "harness could not rebuild the model after the constants changed")
            return
        judge_phase(ctx, case2, R["phase2"], None if M is None else M.get("phase2"),
                    tag=" [second generation, after module constants changed]")
        return
    judge_phase(ctx, case, R, M)


def judge_oracle_only(ctx, case, R):
    """wider expression fragment: the generated source is executed and the rebuilt model compared with the original
    through every query to a relative tolerance of 1e-9; no Lean model, no order-free spec"""
    classes = cg.rich_classes(case["content"])
    # "recip-modulus" (x % (1/p), formerly F-C11-4) is repaired and judged like any other input
    fid = "F-C11-5" if "shared-modulus" in classes else None
    dup, collide, _unsure = input_class(case["content"])
    dup = dup or collide
    ctx.count({k: case[k] for k in ("content", "queries", "bad")},
              f"{case.get('stratum', '?')}:{cg.shape_of(case['content'])}:{fid or 'in-scope'}")
    base = {k: case[k] for k in ("content", "bad", "decl_seed", "oracle_only") if k in case}
    if all("err" in S or not cg.finite_answer(S) for S in R["S"]) and not case["content"].get("readouts"):
        ctx.hist["skipped_model_raises"] = ctx.hist.get("skipped_model_raises", 0) + 1
        return
    if dup:
        ctx.judge(dict(base, queries=[]), R.get("gen", {"ok": "source emitted"}), {"err": ["ValueError"]}, None,
                  what="generation must raise for a repeated parameter name (oracle-only stratum)")
        return
    if "gen" in R:
        ctx.judge(dict(base, queries=[]), R["gen"], {"ok": "source emitted"}, None, what="generation raised (oracle-only stratum)")
        return
    ctx.judge(dict(base, queries=[]), R["R_struct"], R["S_struct"], None,
              what="component names / kinds / arguments / plain values (oracle-only stratum)")
    if case["content"].get("readouts"):
        ctx.judge(dict(base, queries=[]), R.get("R_ro"), R["S_ro"], None,
                  what="readouts of the rebuilt model: names, arguments, values at the initial state (oracle-only stratum)")
    for i, q in enumerate(case["queries"]):
        S, Rq = R["S"][i], R["R"][i]
        if "err" in S or not cg.finite_answer(S):
            ctx.hist["skipped_model_raises"] = ctx.hist.get("skipped_model_raises", 0) + 1
            continue
        if cg.close(Rq, S):
            Rq = S
        ctx.judge(dict(base, queries=[q]), Rq, S, None, finding=fid, what=f"round trip, query {q[0]} (oracle-only stratum)")


def judge_phase(ctx, case, R, M, tag=""):
    fid = classify(case["content"])
    dup, collide, unsure = input_class(case["content"])
    ctx.count({k: case[k] for k in ("content", "queries", "bad")},
              f"{case.get('stratum', '?')}:{cg.shape_of(case['content'])}:"
              + ("same-name-same-polynomial" if unsure else "two-functions-one-name" if collide else "repeated-parameter" if dup else "in-scope"))
    oc = case.get("_orig", case)     # a violation of the second phase is replayed as the whole session
    base = {k: oc[k] for k in ("content", "bad", "decl_seed", "session") if k in oc}
    # ---- generation raises exactly when a function cannot be translated
    if case.get("bad"):
        Rg = R.get("gen", {"ok": "source emitted"})
        Mg = None
        if M is not None:
            Mg = canon_M_err(M["rt"]["err"]) if "err" in M["rt"] else {"ok": "source emitted"}
        ctx.judge(dict(base, queries=[]), Rg, {"err": ["ValueError"]}, Mg, what="generation must raise for an untranslatable function")
        return
    # ---- the Lean hypotheses are the input classes the harness computes independently
    if M is not None and M["hyp"] != (not dup and not collide):
        ctx.add_drift(dict(base, queries=[]), {"dup": dup, "collide": collide}, {"refsResolve": M["hyp"]},
                      "hypothesis of C11_roundtrip_partial vs input class")
    if M is not None and M["hypSrc"] != (not collide):
        ctx.add_drift(dict(base, queries=[]), {"collide": collide}, {"refsSrcOk": M["hypSrc"]},
                      "hypothesis of C11_roundtrip_or_raises vs input class")
    if M is not None and M["hypKeys"] and not M["hypSrc"]:
        ctx.add_drift(dict(base, queries=[]), {"keysInjective": True}, {"refsSrcOk": False},
                      "input-level hypothesis does not imply the program-level one")
    # ---- two same-named function objects whose texts differ but compute the same polynomial: the generator may take them
    #      for one function (source emitted, judged below against the original) or for two (ValueError); the Lean model,
    #      which identifies functions by their text, is not consulted
    if unsure:
        ctx.hist["same_name_same_polynomial"] = ctx.hist.get("same_name_same_polynomial", 0) + 1
        if "gen" in R:
            ctx.judge(dict(base, queries=[]), R["gen"], {"err": ["ValueError"]}, None,
                      what="generation raised for same-named functions with different texts" + tag)
            return
        M = None
        collide = False
    # ---- two different functions with one name, or a definition that would repeat a parameter name: generation raises,
    #      no source is emitted
    if dup or collide:
        Mg = None
        if M is not None:
            Mg = canon_M_err(M["rt"]["err"]) if "err" in M["rt"] else {"ok": "source emitted"}
            if "ok" in M["program"]:
                ctx.add_drift(dict(base, queries=[]), {"err": ["ValueError"]}, {"ok": "program"}, "Lean generator emits a program with a repeated parameter")
        ctx.judge(dict(base, queries=[]), R.get("gen", {"ok": "source emitted"}), {"err": ["ValueError"]}, Mg,
                  what=("generation must raise for two different functions with one name" if collide else
                        "generation must raise for a repeated parameter name") + tag)
        return
    if "gen" in R:
        ctx.judge(dict(base, queries=[]), R["gen"], {"ok": "source emitted"}, None, what="generation raised")
        return
    if M is not None and M["hypInput"] and not M["hyp"]:
        ctx.add_drift(dict(base, queries=[]), {"keysInjective_and_argsNoDup": True}, {"refsResolve": False},
                      "input-level hypothesis does not imply the program-level one")
    if M is not None:
        ctx.hist["hypInput_true" if M["hypInput"] else "hypInput_false"] = ctx.hist.get("hypInput_true" if M["hypInput"] else "hypInput_false", 0) + 1
    # ---- program shape tie
    if M is not None:
        Mp = M["program"]
        if "ok" in Mp:
            if Mp["ok"] != R["shape"] and R["shape"] != {"err": ["SyntaxError"]}:
                ctx.add_drift(dict(base, queries=[]), R["shape"], Mp["ok"], "generated program (defs, builder calls)" + tag)
            elif R["shape"] == {"err": ["SyntaxError"]}:
                # the text is not Python: compare what can still be compared (definition keys and parameters by regex)
                import re

                heads = [[m.group(1), [a.split(":")[0].strip() for a in m.group(2).split(",") if a.strip()]]
                         for m in re.finditer(r"^def (\w+)\((.*)\) -> float:$", R["src"], flags=re.M)]
                if heads != Mp["ok"]["defs"]:
                    ctx.add_drift(dict(base, queries=[]), heads, Mp["ok"]["defs"], "definition heads of an unparsable source")
        else:
            ctx.add_drift(dict(base, queries=[]), R["shape"], Mp, "Lean generator fails where the code emits source")
    # ---- the `return` expression of every emitted definition, read by the Lean expression reader (Mxl.C07Expr, proved
    #      against the printer policy) at sample arguments, against the Lean program's definition under that key
    if M is not None and "defChecks" in M:
        for (key, _, text), ok in zip(R.get("def_texts") or [], M["defChecks"]):
            kind = "agree" if ok is True else ok if isinstance(ok, str) else "differ"
            ctx.hist[f"def_texts_{kind}"] = ctx.hist.get(f"def_texts_{kind}", 0) + 1
            if ok is False or ok in ("no-such-def", "other-parameters"):
                ctx.add_drift(dict(base, queries=[]), {"def": key, "text": text}, ok,
                              "emitted definition read by the Lean expression reader vs the Lean program's definition" + tag)
    # ---- keys of the emitted definitions: every generated name is handed out once
    if "err" not in R["shape"]:
        Mk = [d[0] for d in M["program"]["ok"]["defs"]] if M is not None and "ok" in M["program"] else None
        ctx.judge(dict(base, queries=[]), [d[0] for d in R["shape"]["defs"]], expected_def_keys(case["content"]), Mk,
                  what="keys of the emitted definitions" + tag)
    # ---- names, kinds, wiring (Lean: `heads` of the model and `Call.head` of the program, C11_build_structure)
    if M is not None and "heads" in M:
        if M["heads"]["model"] != heads_of(R["S_struct"]):
            ctx.add_drift(dict(base, queries=[]), heads_of(R["S_struct"]), M["heads"]["model"], "what the model declares (heads)" + tag)
        if "err" not in R["R_struct"] and M["heads"]["program"] != heads_of(R["R_struct"]):
            ctx.add_drift(dict(base, queries=[]), heads_of(R["R_struct"]), M["heads"]["program"],
                          "what the generated program declares (Call.head)" + tag)
    ctx.judge(dict(base, queries=[]), R["R_struct"], R["S_struct"], None,
              what="component names / kinds / arguments / plain values" + tag)
    # ---- behaviour
    S2 = spec_answers(case)
    for i, q in enumerate(case["queries"]):
        if S2[i] == "inexact" or not cg.answer_exact(S2[i]):
            ctx.hist["skipped_inexact"] = ctx.hist.get("skipped_inexact", 0) + 1
            continue
        S = R["S"][i]
        sub = dict(base, queries=[q])
        if S != S2[i]:
            ctx.violation(sub, {"model": S, "order_free_spec": S2[i]}, "original model disagrees with the order-free spec (C01)")
            continue
        Mv = None
        if M is not None:
            if "err" in M["rt"]:
                Mv = canon_M_err(M["rt"]["err"])
            else:
                Mv = cc.canon_M(q, M["rt"]["ok"][i])
            Mo = cc.canon_M(q, M["orig"][i])
            if Mo != S:
                ctx.add_drift(sub, S, Mo, f"core model vs real model, query {q[0]}")
        if fid and Mv is not None and not (cg.answer_exact(R["R"][i]) and cg.answer_exact(Mv)):
            Mv = None   # the rebuilt (wrong) model left the exact-double range: R and M cannot be compared exactly
            ctx.hist["finding_inexact_R"] = ctx.hist.get("finding_inexact_R", 0) + 1
        ctx.judge(sub, R["R"][i], S, Mv, finding=fid, what=f"round trip, query {q[0]}{tag}")


# --------------------------------------------------------------------------- entry points

_F = {"mul": ["*", ["a", 0], ["a", 1]], "add": ["+", ["a", 0], ["a", 1]], "sub": ["-", ["a", 0], ["a", 1]]}
CORPUS = [
    # F-C11-1: two different functions named `f` (d1 = x*k = 2, d2 = x+k = 3; the rebuilt model gives d2 = 2 or d1 = 3)
    {"content": {"vars": [["x", {"v": "1"}]], "pars": [["k", {"v": "2"}]],
                 "derived": [["d1", {"args": ["x", "k"], "e": _F["mul"], "name": "f"}], ["d2", {"args": ["x", "k"], "e": _F["add"], "name": "f"}]],
                 "rxns": [["r", {"args": ["d1", "d2"], "e": _F["mul"], "name": "g", "st": [["x", {"c": "-1"}]]}]]}},
    # former F-C11-2 (repaired): one function used with the same argument twice (homodimer) - generation raises ValueError
    {"content": {"vars": [["A", {"v": "1"}], ["B", {"v": "0"}]], "pars": [["k", {"v": "2"}]], "derived": [],
                 "rxns": [["dimer", {"args": ["A", "A", "k"], "e": ["*", ["*", ["a", 0], ["a", 1]], ["a", 2]], "name": "mass_action_2s",
                                     "st": [["A", {"c": "-2"}], ["B", {"c": "1"}]]}]]}},
    # shared function with swapped arguments: harmless
    {"content": {"vars": [["x", {"v": "1"}]], "pars": [["k", {"v": "3"}]],
                 "derived": [["d1", {"args": ["x", "k"], "e": _F["sub"], "name": "sub"}], ["d2", {"args": ["k", "x"], "e": _F["sub"], "name": "sub"}]],
                 "rxns": [["r", {"args": ["d1", "d2"], "e": _F["sub"], "name": "sub", "st": [["x", {"c": "-1"}]]}]]}},
    # cross-key collision: initial assignment with `f` gets the key init_f, which a derived function is named
    {"content": {"vars": [["x", {"v": "1"}]], "pars": [["k", {"v": "3"}], ["q", {"ia": {"args": ["k", "x"], "e": _F["add"], "name": "f"}}]],
                 "derived": [["d1", {"args": ["x", "q"], "e": _F["mul"], "name": "init_f"}]],
                 "rxns": [["r", {"args": ["d1", "k"], "e": _F["sub"], "name": "g", "st": [["x", {"c": "-1"}]]}]]}},
    # ... and the next name the generator moves on to is taken as well (init_f_): the key must become init_f__
    {"content": {"vars": [["x", {"v": "1"}]], "pars": [["k", {"v": "3"}], ["q", {"ia": {"args": ["k", "x"], "e": _F["add"], "name": "f"}}]],
                 "derived": [["d1", {"args": ["x", "q"], "e": _F["mul"], "name": "init_f"}], ["d2", {"args": ["d1", "q"], "e": _F["sub"], "name": "init_f_"}]],
                 "rxns": [["r", {"args": ["d2", "k"], "e": _F["sub"], "name": "g",
                                 "st": [["x", {"args": ["q", "k"], "e": _F["mul"], "name": "h"}]]}],
                          ["r_stoich_h", {"args": ["x"], "e": ["a", 0], "name": "r_stoich_h", "st": [["x", {"c": "-1"}]]}]]}},
]


def _rich(name, args, e):
    return {"args": args, "e": ["a", 0], "name": name, "rich": True, "src": {"e": e, "floats": []}}


CORPUS += [
    # two different function OBJECTS, same name, same body (derived d1 and reaction r): accepted, one `def f`
    {"content": {"vars": [["x", {"v": "1"}]], "pars": [["k", {"v": "3"}]],
                 "derived": [["d1", {"args": ["x", "k"], "e": _F["mul"], "name": "f", "copy": 1}]],
                 "rxns": [["r", {"args": ["d1", "k"], "e": _F["mul"], "name": "f", "copy": 2, "st": [["x", {"c": "-1"}]]}]]}},
    # readouts (F-C11-8, repaired: they were dropped silently): one shares the reaction's function object, one has its own
    {"content": {"vars": [["x", {"v": "1"}]], "pars": [["k", {"v": "3"}]],
                 "derived": [["d1", {"args": ["x", "k"], "e": _F["sub"], "name": "f"}]],
                 "rxns": [["r", {"args": ["d1", "k"], "e": _F["mul"], "name": "g", "st": [["x", {"c": "-1"}]]}]],
                 "readouts": [["ro1", {"args": ["r", "x"], "e": _F["mul"], "name": "g"}],
                              ["ro2", {"args": ["d1", "x"], "e": _F["add"], "name": "h"}]]},
     "oracle_only": True, "queries": [["args", None, "0"], ["rhs", None, "0"]]},
    # constants of the math module: the generated source must import the module its definitions refer to (F-C11-7,
    # repaired), and the modulus 2*pi keeps its parentheses
    {"content": {"vars": [["x", {"v": "8"}]], "pars": [["p", {"v": "2"}]],
                 "derived": [["d", _rich("f", ["x", "p"], ["+", ["%", ["a", 0], ["*", ["c", "2"], ["m", "pi"]]], ["a", 1]])]],
                 "rxns": [["r", dict(_rich("g", ["d", "x"], ["*", ["*", ["a", 0], ["m", "e"]], ["a", 1]]), st=[["x", {"c": "-1"}]])]]},
     "oracle_only": True, "queries": [["args", None, "0"], ["rhs", None, "0"]]},
    # class repaired by `fix: a function name generated ... is taken from then on`: initial assignments with `a` and `a_`
    # next to a derived function `init_a` (keys init_a_, init_a__), and two different coefficient functions both called
    # `f2` in one reaction (keys r_stoich_f2, r_stoich_f2_; the first with a repeated argument made generation raise)
    {"content": {"vars": [["x", {"v": "1"}], ["y", {"v": "2"}]],
                 "pars": [["k", {"v": "3"}], ["q1", {"ia": {"args": ["k", "x"], "e": _F["add"], "name": "a"}}],
                          ["q2", {"ia": {"args": ["k", "x"], "e": _F["mul"], "name": "a_"}}]],
                 "derived": [["d1", {"args": ["q1", "q2"], "e": _F["sub"], "name": "init_a"}]],
                 "rxns": [["r", {"args": ["d1", "k"], "e": _F["sub"], "name": "g",
                                 "st": [["x", {"args": ["k", "q1"], "e": _F["add"], "name": "f2"}],
                                        ["y", {"args": ["k", "q2"], "e": _F["mul"], "name": "f2"}]]}]]}},
    # two different initial-assignment functions with the same __name__ (formerly part of F-C11-1): init_f, init_f_
    {"content": {"vars": [["x", {"v": "1"}]],
                 "pars": [["k", {"v": "3"}], ["q1", {"ia": {"args": ["k", "x"], "e": _F["add"], "name": "f"}}],
                          ["q2", {"ia": {"args": ["k", "x"], "e": _F["mul"], "name": "f"}}]],
                 "derived": [["d1", {"args": ["q1", "q2"], "e": _F["sub"], "name": "h"}]],
                 "rxns": [["r", {"args": ["d1", "k"], "e": _F["sub"], "name": "g", "st": [["x", {"c": "-1"}]]}]]}},
    # a computed coefficient whose own use repeats an argument: generation raises, although a later use under the same
    # generated base name does not (every generated definition is emitted)
    {"content": {"vars": [["x", {"v": "1"}], ["y", {"v": "2"}]], "pars": [["k", {"v": "3"}]], "derived": [],
                 "rxns": [["r", {"args": ["x", "k"], "e": _F["mul"], "name": "g",
                                 "st": [["x", {"args": ["k", "k"], "e": _F["add"], "name": "f2"}],
                                        ["y", {"args": ["k", "x"], "e": _F["mul"], "name": "f2"}]]}]]}},
    # wider fragment: x % (1/p) was printed `(x % 1/p)` (former F-C11-4, repaired: `(x % (1/p))`)
    {"content": {"vars": [["x", {"v": "4"}]], "pars": [["p", {"v": "4"}]],
                 "derived": [["d", _rich("f", ["x", "p"], ["%", ["/", ["c", "125"], ["a", 0]], ["/", ["a", 1], ["*", ["a", 1], ["a", 1]]]])]],
                 "rxns": [["r", dict(_rich("g", ["d", "x"], ["*", ["a", 0], ["a", 1]]), st=[["x", {"c": "-1"}]])]]},
     "oracle_only": True, "queries": [["args", None, "0"], ["rhs", None, "0"]]},
    # wider fragment: sympy simplifies (-5/2*x) % x to -x/2 (F-C11-5)
    {"content": {"vars": [["x", {"v": "4"}]], "pars": [["p", {"v": "4"}]],
                 "derived": [["d", _rich("f", ["x"], ["%", ["*", ["neg", ["a", 0]], ["c", "5/2"]], ["a", 0]])]],
                 "rxns": [["r", dict(_rich("g", ["d", "x"], ["*", ["a", 0], ["a", 1]]), st=[["x", {"c": "-1"}]])]]},
     "oracle_only": True, "queries": [["args", None, "0"], ["rhs", None, "0"]]},
]


# a remainder whose divisor is a compound constant, in a derived quantity and in a rate law (fixed cases: the parentheses of
# `_mod_operands` are checked for every seed)
for _div in [["*", ["c", "2"], ["m", "pi"]], ["m", "tau"], ["/", ["m", "pi"], ["c", "2"]], ["*", ["c", "3"], ["m", "e"]]]:
    CORPUS += [
        {"content": {"vars": [["x", {"v": "8"}]], "pars": [["p", {"v": "2"}]],
                     "derived": [["d", _rich("f", ["x", "p"], ["+", ["%", ["a", 0], _div], ["a", 1]])]],
                     "rxns": [["r", {"args": ["d", "x"], "e": _F["mul"], "name": "g", "st": [["x", {"c": "-1"}]]}]]},
         "oracle_only": True, "queries": [["args", None, "0"], ["rhs", None, "0"], ["rhs", [["x", "5"]], "0"]]},
        {"content": {"vars": [["x", {"v": "8"}]], "pars": [["p", {"v": "2"}]], "derived": [],
                     "rxns": [["r", dict(_rich("g", ["x", "p"], ["*", ["%", ["a", 0], _div], ["a", 1]]), st=[["x", {"c": "-1"}]])]]},
         "oracle_only": True, "queries": [["args", None, "0"], ["rhs", None, "0"], ["rhs", [["x", "5"]], "0"]]},
    ]


# --------------------------------------------------------------------------- outside the four kinds: units, data


def _probe_worker(kind):
    """tiny models with what the property's scope leaves out; -> (R, S) of one observable"""
    import logging
    import warnings

    warnings.filterwarnings("ignore")
    logging.disable(logging.CRITICAL)
    import pandas as pd
    from mxlpy import Model, fns, units
    from mxlpy.meta import generate_mxlpy_code

    def base():
        return (Model().add_variable("x", 1.0).add_parameter("k", 2.0)
                .add_reaction("r", fn=fns.mass_action_1s, args=["x", "k"], stoichiometry={"x": -1.0}))

    def units_of(m):
        return [[k, str(v.unit)] for k, v in list(m.get_raw_variables().items()) + list(m.get_raw_parameters().items())
                + list(m.get_raw_derived().items()) + list(m.get_raw_reactions().items())]

    if kind == "units-variable":
        m = (Model().add_variable("x", 1.0, unit=units.kelvin).add_parameter("k", 2.0, unit=units.second)
             .add_reaction("r", fn=fns.mass_action_1s, args=["x", "k"], stoichiometry={"x": -1.0}))
        obs = units_of
    elif kind == "units-derived":
        m = base().add_derived("d", fn=fns.mul, args=["x", "k"], unit=units.kelvin)
        obs = units_of
    elif kind == "data-unused":
        m = base().add_data("dat", pd.Series({"a": 1.0, "b": 2.0}))
        obs = lambda mm: sorted(mm._data)  # noqa: E731, SLF001
    else:
        raise ValueError(kind)
    S = {"ok": obs(m)}
    try:
        src = generate_mxlpy_code(m)
    except Exception as e:  # noqa: BLE001
        return {"err": ["generation", type(e).__name__]}, S, {"alt": {"err": ["ValueError"]}}
    try:
        ns: dict = {}
        exec(compile(src, "<generated-mxlpy>", "exec"), ns)  # noqa: S102
        m2 = ns["create_model"]()
    except Exception as e:  # noqa: BLE001
        return {"err": ["executing the generated source", type(e).__name__]}, S, {}
    return {"ok": obs(m2)}, S, {}


PROBES = {"units-variable": "F-C11-9", "units-derived": "F-C11-9", "data-unused": "F-C11-10"}


def run_probes(ctx, kinds=None):
    """what generation does with parts of a model outside the four kinds of the statement: the observable must survive the
    round trip (or generation must raise ValueError); the current deviations are listed findings"""
    kinds = list(kinds or PROBES)
    for kind, (R, S, _) in zip(kinds, pool().map(_probe_worker, kinds)):
        case = {"probe": kind}
        ctx.count(case, f"outside-scope:{kind}", True)
        ctx.judge(case, R, S, None, finding=PROBES[kind], what=f"outside the four kinds: {kind} survives the round trip, or generation raises")


def setup(ctx):
    ctx.build(PROPS)
    ctx.rule = (
        "random Content of variables / parameters (plain and initial assignments) / derived / reactions (numeric and "
        "computed coefficients) x assignments of function names: fresh, one function object shared by several components "
        "with different argument lists, different functions sharing a __name__, names that meet the generator's derived "
        "keys (init_<f>, <rxn>_stoich_<f>), repeated arguments, one untranslatable function x the core queries at two "
        "integer states; distinct = distinct (content, queries); non-trivial = has a reaction, evaluates exactly"
    )
    ctx.assumptions += [
        "fn_to_sympy's translation of the generated straight-line + - * functions and sympy's Python printer are taken as given (C06)",
        "colliding functions are generated with equal arity (arity errors are not modelled by the core model)",
        "units and `source` annotations are not generated (outside the property statement)",
        "numeric literals are small dyadics: sympy prints 15 significant digits, so values needing 16-17 digits would not round-trip bit-exactly",
    ]
    ctx.trusted_base += ["Python's `ast` for reading the emitted source back into (defs, builder calls)"]


def prep(c):
    c = copy.deepcopy(c)
    c.setdefault("bad", [])
    c.setdefault("decl_seed", 0)
    if "queries" not in c:
        rng = random.Random(0)
        c["queries"] = cc.standard_queries(rng, c["content"], n_states=1)
    return c


def run(ctx):
    setup(ctx)
    corpus = [prep(c) for c in CORPUS]
    for case, (R, M) in zip(corpus, evaluate(corpus, ctx.driver_ok)):
        case["stratum"] = "corpus"
        judge_case(ctx, case, R, M)
    run_probes(ctx)
    ex = exhaustive_cases(ctx.tier == "thorough")
    ctx.extra_cov["exhaustive_stratum"] = {"cases": len(ex), "what": exhaustive_cases.__doc__.split(":", 1)[1].strip()[:400]}
    for i in range(0, len(ex), 256):
        chunk = ex[i:i + 256]
        for case, (R, M) in zip(chunk, evaluate(chunk, ctx.driver_ok)):
            judge_case(ctx, case, R, M)
    n = int(os.environ.get("VERIF_N") or ctx.n(250, 30000))
    if not ctx.proof_ok:
        n = max(n, 3000)
        ctx.notes.append("proof side broken: widened search")
    done, batch = 0, 250
    while done < n:
        cases = [gen_case(ctx, done + j) for j in range(min(batch, n - done))]
        for case, (R, M) in zip(cases, evaluate(cases, ctx.driver_ok)):
            judge_case(ctx, case, R, M)
        done += len(cases)
        if len(ctx.violations) > 20:
            break
    shrink_violation(ctx)


def shrink_violation(ctx):
    from vlib.framework import Ctx, canon

    vs = [v for v in ctx.violations if isinstance(v.get("case"), dict) and "content" in v["case"]]
    if not vs:
        return
    v0 = min(vs, key=lambda v: len(canon(v)))
    what = v0.get("what")
    last = {}

    def still_fails(case):
        c = dict(case)
        if any("name" not in f for f in all_fns(c["content"])):
            return False
        c["bad"] = [f["name"] for f in all_fns(c["content"]) if f.get("bad")]
        nv = len(c["content"]["vars"])
        qs = []
        for q in c.get("queries") or []:      # states must fit the shrunk variable list
            if q[0] == "call" and len(q[2]) != nv:
                continue
            if q[0] in ("args", "fluxes", "rhs", "stoich") and q[1] is not None and [k for k, _ in q[1]] != [k for k, _ in c["content"]["vars"]]:
                continue
            qs.append(q)
        c["queries"] = qs or cc.standard_queries(random.Random(0), c["content"], n_states=1)
        tmp = Ctx(ctx.prop, ctx.tier, ctx.seed)
        (R, M), = evaluate([c], ctx.driver_ok)
        judge_case(tmp, c, R, M)
        hit = [v for v in tmp.violations if v.get("what") == what]
        if hit:
            last["v"] = min(hit, key=lambda v: len(canon(v)))
        return bool(hit)

    small, spent = cg.shrink(v0["case"], still_fails)
    ctx.extra_cov["shrink"] = {"evaluations": spent, "from_bytes": len(canon(v0["case"])), "to_bytes": len(canon(small))}
    if "v" in last and len(canon(last["v"])) < len(canon(v0)):
        ctx.violations.append(dict(last["v"], shrunk_from=len(canon(v0["case"]))))


def replay(ctx, rp):
    if "probe" in rp["case"]:
        run_probes(ctx, [rp["case"]["probe"]])
        return
    case = prep(rp["case"])
    if not case["queries"]:
        case["queries"] = cc.standard_queries(random.Random(0), case["content"], n_states=1)
    (R, M), = evaluate([case], ctx.driver_ok)
    print(R.get("src", R))
    print("S =", R.get("S"), "\nR =", R.get("R"), "\nM =", json.dumps(M)[:3000])
    judge_case(ctx, case, R, M)
