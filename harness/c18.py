"""C18 — control coefficients equal analytic sensitivities; model left untouched (DESIGN §6/C18).

R = mca.variable_elasticities / parameter_elasticities / response_coefficients on the real model,
    together with get_parameter_values() / get_initial_conditions() before and after
M = the Lean model (driver op "c18": central differences over the core model, the response worker
    as a state machine with lazy views, sequential fold vs pool schedule), compared at 1e-9
S = strata
    powerlaw: the closed form of Props/C18 — scaled elasticity ((1+d)^n - (1-d)^n)/(2d), computed
              from the kinetic orders alone
    poly:     the definition (central difference of the flux function) evaluated with Fractions on the
              order-free spec of vlib.content
    chain:    analytic steady-state sensitivities of linear chains (tolerance 1e-4, shipped integrator)
    euler:    central difference of independent toy-integrator runs on fresh models
    and in every stratum: model state after == model state before
"""
from __future__ import annotations

import concurrent.futures as cf
import math
import multiprocessing as mp
import os
import random
from fractions import Fraction

from vlib import content as C
from vlib import driver, fexpr

from . import c09 as H9
from . import c09lib as L

PROPS = ["MxlVerif.Props.C18"]
TOL = 1e-9
DISP = ["1/1024", "1/8192"]

# --------------------------------------------------------------------------- generators


def _prod(factors):
    e = factors[0]
    for f in factors[1:]:
        e = ["*", e, f]
    return e


def gen_powerlaw(rng):
    nv = rng.randint(1, 3)
    npar = rng.randint(1, 3)
    vars_ = [[f"x{i}", {"v": rng.choice(["1", "2", "3", "1/2", "3/2", "5/4"])}] for i in range(nv)]
    pars = [[f"k{i}", {"v": rng.choice(["1", "2", "1/2", "3/4", "5/2"])}] for i in range(npar)]
    rxns, orders = [], {}
    for r in range(rng.randint(1, 3)):
        om = {}
        for k, _ in pars:
            om[k] = rng.choice([0, 0, 1, 1, 2])
        for k, _ in vars_:
            om[k] = rng.choice([0, 1, 1, 2, 3])
        if not any(om[k] for k, _ in pars):
            om[pars[0][0]] = 1
        args = [k for k in om if om[k] > 0]
        factors = [["a", i] for i, k in enumerate(args) for _ in range(om[k])]
        cpds = rng.sample([k for k, _ in vars_], rng.randint(1, min(2, nv)))
        rxns.append([f"v{r}", {"args": args, "e": _prod(factors), "st": [[c, {"c": rng.choice(["1", "-1"])}] for c in cpds]}])
        orders[f"v{r}"] = om
    content = {"vars": vars_, "pars": pars, "derived": [], "rxns": rxns, "surs": []}
    what = rng.choice(["var", "par"])
    names = [k for k, _ in (vars_ if what == "var" else pars)]
    case = {"stratum": "powerlaw", "content": content, "orders": orders, "what": what,
            "to_scan": None if rng.random() < 0.5 else rng.sample(names, rng.randint(1, len(names))),
            "vars": None if rng.random() < 0.4 else [[k, rng.choice(["1", "2", "1/2", "3", "7/4"])] for k, _ in vars_],
            "normalized": rng.random() < 0.6, "d": rng.choice(DISP), "t": "0"}
    return case


def gen_poly(rng):
    content = H9.gen_content(rng, rng.random() < 0.5)
    what = rng.choice(["var", "par"])
    vnames = [k for k, _ in content["vars"]]
    plain_p = [k for k, v in content["pars"] if "v" in v]
    names = vnames if what == "var" else plain_p
    case = {"stratum": "poly", "content": content, "what": what,
            "to_scan": (None if what == "var" and rng.random() < 0.5 else rng.sample(names, rng.randint(1, len(names)))),
            "vars": None if rng.random() < 0.5 else [[k, rng.choice(["1", "2", "1/2", "3"])] for k in vnames],
            "normalized": rng.random() < 0.6, "d": rng.choice(DISP), "t": rng.choice(["0", "0", "1"])}
    return case


def gen_poly_iavar(rng):
    """a variable whose INITIAL VALUE is computed from a scanned parameter (x(0) = c * p), read by a rate; the state the
    elasticities are taken at is the model's own initial state (`variables=None`) in most cases: it has to be the
    state BEFORE any perturbation, for every scanned parameter"""
    content = H9.gen_content(rng, rng.random() < 0.3)
    plain_p = [k for k, v in content["pars"] if "v" in v]
    p = rng.choice(plain_p)
    vnames = [k for k, _ in content["vars"]]
    xi = f"x{len(vnames)}i"
    args = [p] + ([rng.choice(plain_p)] if rng.random() < 0.4 else [])
    content["vars"].append([xi, {"ia": {"args": args, "e": _prod([["c", rng.choice(["1", "2", "1/2", "3/2"])]] + [["a", i] for i in range(len(args))])}}])
    rargs = [xi] + [rng.choice(vnames + plain_p) for _ in range(rng.randint(0, 1))]
    content["rxns"].append(["riv", {"args": rargs, "e": _prod([["c", rng.choice(["1/2", "1/4", "1"])]] + [["a", i] for i in range(len(rargs))]
                                                              + ([["a", 0]] if rng.random() < 0.5 else [])),
                                    "st": [[rng.choice(vnames), {"c": rng.choice(["1", "-1"])}]]}])
    what = "par" if rng.random() < 0.8 else "var"
    others = [k for k in plain_p if k != p]
    to_scan = [p] + rng.sample(others, rng.randint(0, len(others)))
    rng.shuffle(to_scan)
    return {"stratum": "poly", "content": content, "what": what,
            "to_scan": (to_scan if what == "par" else None),
            "vars": None if rng.random() < 0.8 else [[k, rng.choice(["1", "2", "1/2", "3"])] for k, _ in content["vars"]],
            "normalized": rng.random() < 0.5, "d": rng.choice(DISP), "t": rng.choice(["0", "0", "1"]), "iavar": True}


def gen_zeroflux(rng):
    """a state at which a flux is EXACTLY 0 (a variable of the rate is 0), or the scanned variable itself is 0: the
    scaled coefficient divides by 0.  pandas reports inf / nan there (no exception); the model's entry is `none`
    (`C18_no_number_from_zero_division`); S = the definition with exact arithmetic (None where a divisor is 0)."""
    case = gen_powerlaw(rng)
    c = case["content"]
    vnames = [k for k, _ in c["vars"]]
    zero = rng.choice(vnames)
    case["stratum"] = "poly"
    case["vars"] = [[k, "0" if k == zero else rng.choice(["1", "2", "1/2", "3"])] for k in vnames]
    if case["what"] == "par":
        case["to_scan"] = case["to_scan"] or [k for k, _ in c["pars"]]
    case["normalized"] = rng.random() < 0.8
    case["zeroflux"] = True
    case.pop("orders", None)
    return case


def gen_chain(rng):
    n = rng.randint(1, 3)
    ks = [rng.choice(["1", "2", "1/2", "3/2"]) for _ in range(n + 1)]
    vars_ = [[f"x{i}", {"v": rng.choice(["1", "2", "1/2"])}] for i in range(n)]
    pars = [[f"k{i}", {"v": ks[i]}] for i in range(n + 1)]
    rxns = [["v0", {"args": ["k0"], "e": ["a", 0], "st": [["x0", {"c": "1"}]]}]]
    for i in range(n):
        st = [[f"x{i}", {"c": "-1"}]] + ([[f"x{i + 1}", {"c": "1"}]] if i + 1 < n else [])
        rxns.append([f"v{i + 1}", {"args": [f"k{i + 1}", f"x{i}"], "e": ["*", ["a", 0], ["a", 1]], "st": st}])
    content = {"vars": vars_, "pars": pars, "derived": [], "rxns": rxns, "surs": []}
    return {"stratum": "chain", "content": content, "what": "resp", "cfg": None,
            "to_scan": None if rng.random() < 0.6 else rng.sample([k for k, _ in pars], rng.randint(1, n + 1)),
            "vars": None if rng.random() < 0.5 else [[k, rng.choice(["1", "3", "1/4"])] for k, _ in vars_],
            "normalized": rng.random() < 0.6, "d": rng.choice(["1/32", "1/64"])}


def gen_euler(rng):
    content = H9.gen_content(rng, rng.random() < 0.5)
    vnames = [k for k, _ in content["vars"]]
    plain_p = [k for k, v in content["pars"] if "v" in v]
    r = rng.random()
    vars_ = None if r < 0.4 else [[k, rng.choice(["1", "2", "3", "1/2"])] for k in (vnames if r < 0.7 else rng.sample(vnames, rng.randint(1, len(vnames))))]
    nss = rng.randint(1, 4)
    while H9.state_degree(content) ** nss > 64:  # keep doubles far from overflow and rationals small
        nss -= 1
    return {"stratum": "euler", "content": content, "what": "resp",
            "cfg": {"nss": nss, "h": rng.choice(["1/4", "1/8", "1/2"]), "fail": []},
            "to_scan": rng.sample(plain_p, rng.randint(1, len(plain_p))),
            "vars": vars_, "normalized": rng.random() < 0.5, "d": rng.choice(DISP)}


def gen_mc(rng):
    """Monte-Carlo wrapper of one of the three routines: base case + a sample table over variables'
    initial values and plain parameters (the sample is written into a copy, then the plain routine runs)"""
    base = rng.choice([gen_powerlaw, gen_powerlaw, gen_poly, gen_euler])(rng)
    c = base["content"]
    vnames = [k for k, _ in c["vars"]]
    plain_p = [k for k, v in c["pars"] if "v" in v]
    cols = []
    if rng.random() < 0.75:
        cols.append(rng.choice(vnames))  # a per-sample INITIAL VALUE
    for k in rng.sample(vnames + plain_p, rng.randint(0 if cols else 1, 2)):
        if k not in cols:
            cols.append(k)
    rng.shuffle(cols)
    n = rng.randint(1, 4)
    labels = list(range(n)) if rng.random() < 0.6 else rng.sample(range(50), n)
    base["mc"] = {"cols": cols, "rows": [[l, [rng.choice(["1", "2", "3", "1/2", "3/2", "5/4", "4"]) for _ in cols]] for l in labels]}
    if base["what"] == "par" and base["to_scan"] is None:
        base["to_scan"] = plain_p  # mc.parameter_elasticities has no default
    if base["what"] == "var" and rng.random() < 0.6:
        base["vars"] = None  # default state: must be resolved per sample
    if rng.random() < 0.5:
        base["normalized"] = False  # unscaled coefficients depend on the state
    return base


def _needs(content, name):
    """does some derived quantity / reaction / surrogate read `name` directly?"""
    return any(name in v["args"] for grp in ("derived", "rxns", "surs") for _, v in content.get(grp, []))


def gen_raise(rng):
    """RAISING paths of the routines that write the model: is the model put back when an exception escapes?
    keyerr: custom variables that lack a variable some rate needs -> get_fluxes raises KeyError after the parameter
            was perturbed (parameter_elasticities), or before anything happens (variable_elasticities);
    unknown: custom variables naming an unknown variable -> update_variables raises before anything is written;
    integ:  the toy integrator raises ValueError in the upper / lower / normalisation steady-state run of the
            j-th scanned parameter (response_coefficients, sequential and pool)."""
    r = rng.random()
    if r < 0.45:
        for _ in range(50):
            case = gen_poly(rng)
            vnames = [k for k, _ in case["content"]["vars"]]
            used = [k for k in vnames if _needs(case["content"], k)]
            if used:
                break
        else:
            return gen_poly(rng)
        missing = rng.choice(used)
        keep = [k for k in vnames if k != missing and rng.random() < 0.8]
        case["vars"] = [[k, rng.choice(["1", "2", "1/2", "3"])] for k in keep]
        if case["what"] == "var" and case["to_scan"] is not None:
            case["to_scan"] = [k for k in case["to_scan"] if k != missing] or None
        case["raise"] = "keyerr"
        if rng.random() < 0.3:
            _add_mc_table(rng, case)
        return case
    case = gen_euler(rng)
    vnames = [k for k, _ in case["content"]["vars"]]
    if r < 0.6:
        case["vars"] = [[k, rng.choice(["1", "2"])] for k in rng.sample(vnames, rng.randint(0, len(vnames)))]
        case["vars"].insert(rng.randint(0, len(case["vars"])), ["nosuchvar", "1"])
        case["raise"] = "unknown"
        if rng.random() < 0.3:
            _add_mc_table(rng, case)
        return case
    j = rng.randrange(len(case["to_scan"]))
    where = rng.choice(["up", "lo", "norm"] if case["normalized"] else ["up", "lo"])
    case["raise"] = "integ"
    case["raise_at"] = [j, where]
    try:
        case["cfg"]["raise"] = [fexpr.rat_str(_run_keys(case)[j][where])]
    except (fexpr.Inexact, ZeroDivisionError):
        case["cfg"]["raise"] = []
    return case


def _add_mc_table(rng, case):
    """the same raising call through the Monte-Carlo wrapper: it raises in a pool process, on a copy"""
    c = case["content"]
    plain_p = [k for k, v in c["pars"] if "v" in v]
    cols = rng.sample(plain_p, rng.randint(1, min(2, len(plain_p))))
    n = rng.randint(1, 3)
    case["mc"] = {"cols": cols, "rows": [[i, [rng.choice(["1", "2", "1/2", "3/2"]) for _ in cols]] for i in range(n)]}
    if case["what"] == "par" and case["to_scan"] is None:
        case["to_scan"] = plain_p


def _run_keys(case):
    """per scanned parameter the toy integrator's key (sum(y0) + 3*sum(rhs(0, y0)), exact) of the three
    steady-state runs: parameter up, down, reset — on a model DECLARED with those values"""
    c = case["content"]
    d = Fraction(case["d"])
    out = []
    for p in case["to_scan"]:
        old = Fraction(dict(c["pars"])[p]["v"])
        keys = {}
        for where, val in (("up", old * (1 + d)), ("lo", old * (1 - d)), ("norm", old)):
            sp = C.Spec(L.with_values(L.with_values(c, case["vars"] or []), [(p, val)]))
            iv = sp.init_values()
            rhs = sp.rhs(None, 0)
            keys[where] = sum((iv[k] for k in sp.vars), Fraction(0)) + 3 * sum(rhs.values(), Fraction(0))
        out.append(keys)
    return out


def oracle_raise(case):
    """what the property says about a raising call: the exception escapes, the model is as it was"""
    st = H9._state(L.build_model(case["content"]))
    if case["raise"] in ("keyerr", "unknown"):
        return {"err": ["KeyError"], "before": st, "after": st}
    raise_keys = {Fraction(k) for k in case["cfg"].get("raise", [])}
    for keys in _run_keys(case):
        for where in (("up", "lo", "norm") if case["normalized"] else ("up", "lo")):
            if keys[where] in raise_keys:
                return {"err": ["ValueError"], "before": st, "after": st}
    return oracle_euler(case)


def sample_kv(case, i):
    names = {k for k, _ in case["content"]["vars"]} | {k for k, _ in case["content"]["pars"]}
    return [(c, v) for c, v in zip(case["mc"]["cols"], case["mc"]["rows"][i][1]) if c in names]


def sample_case(case, i):
    """the plain-routine case a Monte-Carlo sample stands for: a model DECLARED with the sample's values"""
    sub = {k: v for k, v in case.items() if k != "mc"}
    if case["what"] == "resp":
        # mc.response_coefficients writes `variables` into the model first, the sample on top of it
        sub["content"] = L.with_values(L.with_values(case["content"], case["vars"] or []), sample_kv(case, i))
        sub["vars"] = None
    else:
        sub["content"] = L.with_values(case["content"], sample_kv(case, i))
    return sub


# --------------------------------------------------------------------------- real side


def _nf(x):
    x = float(x)
    return x if math.isfinite(x) else None


def _table(df):
    """DataFrame (index = rows, columns = scanned names) -> [[col, [[row, value|None]]]]"""
    return [[str(c), [[str(r), _nf(df.loc[r, c])] for r in df.index]] for c in df.columns]


def _by_sample(df, labels):
    """frame indexed by (sample label, row name) -> [[label, table]] in sample order"""
    return [[l, _table(df.xs(l, level=0))] for l in labels]


def run_real_mc(case, mode):
    import pandas as pd
    from mxlpy import mc

    try:
        m = L.build_model(case["content"])
        before = H9._state(m)
        vs = None if case["vars"] is None else {k: L.fl(v) for k, v in case["vars"]}
        labels = [l for l, _ in case["mc"]["rows"]]
        table = pd.DataFrame([[L.fl(v) for v in r] for _, r in case["mc"]["rows"]], columns=case["mc"]["cols"], index=labels)
        kw = {"mc_to_scan": table, "to_scan": case["to_scan"], "variables": vs, "normalized": case["normalized"],
              "displacement": L.fl(case["d"]), "max_workers": mode[1]}
        with L.quiet():
            if case["what"] == "var":
                df = mc.variable_elasticities(m, time=L.fl(case["t"]), **kw)
                out = {"samples": [[l, {"cols": t}] for l, t in _by_sample(df, labels)]}
            elif case["what"] == "par":
                df = mc.parameter_elasticities(m, time=L.fl(case["t"]), **kw)
                out = {"samples": [[l, {"cols": t}] for l, t in _by_sample(df, labels)]}
            else:
                rc = mc.response_coefficients(m, integrator=L.make_integ(case.get("cfg")), **kw)
                out = {"samples": [[l, {"cols": tv, "fcols": tf}] for (l, tv), (_, tf) in
                                   zip(_by_sample(rc.variables, labels), _by_sample(rc.fluxes, labels))]}
        out["before"] = before
        out["after"] = H9._state(m)
        return out
    except Exception as e:  # noqa: BLE001
        if case.get("raise"):
            return {"err": [type(e).__name__], "before": before, "after": _state_after_raise(m)}
        return {"err": [type(e).__name__]}


def run_real(case, mode):
    from mxlpy import mca

    if case.get("mc"):
        return run_real_mc(case, mode)
    try:
        m = L.build_model(case["content"])
        before = H9._state(m)
        vs = None if case["vars"] is None else {k: L.fl(v) for k, v in case["vars"]}
        d = L.fl(case["d"])
        if case["what"] == "var":
            df = mca.variable_elasticities(m, to_scan=case["to_scan"], variables=vs, time=L.fl(case["t"]),
                                           normalized=case["normalized"], displacement=d)
            out = {"cols": _table(df)}
        elif case["what"] == "par":
            df = mca.parameter_elasticities(m, to_scan=case["to_scan"], variables=vs, time=L.fl(case["t"]),
                                            normalized=case["normalized"], displacement=d)
            out = {"cols": _table(df)}
        else:
            with L.quiet():
                rc = mca.response_coefficients(m, to_scan=case["to_scan"], variables=vs, normalized=case["normalized"],
                                               displacement=d, parallel=(mode[0] != "seq"),
                                               max_workers=(mode[1] if mode[0] != "seq" else None),
                                               integrator=L.make_integ(case.get("cfg")))
            out = {"cols": _table(rc.variables), "fcols": _table(rc.fluxes)}
        out["before"] = before
        out["after"] = H9._state(m)
        return out
    except Exception as e:  # noqa: BLE001
        if case.get("raise"):
            return {"err": [type(e).__name__], "before": before, "after": _state_after_raise(m)}
        return {"err": [type(e).__name__]}


def _state_after_raise(m):
    """the model after an exception escaped; a model left half-perturbed may not even answer its getters"""
    try:
        return H9._state(m)
    except Exception as e:  # noqa: BLE001
        return {"unreadable": type(e).__name__,
                "pars": sorted([k, repr(getattr(v, "value", v))] for k, v in m.get_raw_parameters().items()),
                "init": sorted([k, repr(getattr(v, "initial_value", v))] for k, v in m.get_raw_variables().items())}


# --------------------------------------------------------------------------- oracles


def _fq(q):
    return float(q)


def oracle_powerlaw(case):
    c = case["content"]
    d = Fraction(case["d"])
    base = {k: Fraction(v["v"]) for k, v in c["vars"]}
    if case["vars"] is not None:
        base = {k: Fraction(v) for k, v in case["vars"]}
    pv = {k: Fraction(v["v"]) for k, v in c["pars"]}
    env = {**pv, **base}
    names = case["to_scan"] or [k for k, _ in (c["vars"] if case["what"] == "var" else c["pars"])]
    cols = []
    for x in names:
        col = []
        for r, _ in c["rxns"]:
            n = case["orders"][r].get(x, 0)
            scaled = ((1 + d) ** n - (1 - d) ** n) / (2 * d)
            if case["normalized"]:
                col.append([r, _fq(scaled)])
            else:
                v = Fraction(1)
                for k, o in case["orders"][r].items():
                    v *= env[k] ** o
                col.append([r, _fq(scaled * v / env[x])])
        cols.append([x, col])
    st = H9._state(L.build_model(c))
    return {"cols": cols, "before": st, "after": st}


def oracle_poly(case):
    """the definition, with exact arithmetic on the order-free spec"""
    c = case["content"]
    d = Fraction(case["d"])
    t = Fraction(case["t"])
    sp = C.Spec(c)
    iv = sp.init_values()
    state = {k: iv[k] for k in sp.vars} if case["vars"] is None else {k: Fraction(v) for k, v in case["vars"]}
    fluxnames = sp.flux_names()

    def fluxes(content, st):
        s2 = C.Spec(content)
        env = s2.at(st, t)
        return {r: env[r] for r in fluxnames}

    cols = []
    names = case["to_scan"] or [k for k, _ in c["vars"]]
    for x in names:
        if case["what"] == "var":
            old = state[x]
            up = fluxes(c, {**state, x: old * (1 + d)})
            lo = fluxes(c, {**state, x: old * (1 - d)})
        else:
            old = Fraction(dict(c["pars"])[x]["v"])
            up = fluxes(L.with_values(c, [(x, old * (1 + d))]), state)
            lo = fluxes(L.with_values(c, [(x, old * (1 - d))]), state)
        base = fluxes(c, state)
        col = []
        for r in fluxnames:
            if old == 0:
                col.append([r, None])
                continue
            e = (up[r] - lo[r]) / (2 * d * old)
            if case["normalized"]:
                col.append([r, None if base[r] == 0 else _fq(e * old / base[r])])
            else:
                col.append([r, _fq(e)])
        cols.append([x, col])
    st = H9._state(L.build_model(c))
    return {"cols": cols, "before": st, "after": st}


def oracle_chain(case):
    """x_i* = k0 / k_{i+1}; every steady-state flux = k0.  The expected number is the central difference
    of THIS exact steady-state map (so the displacement can be large enough to drown the integrator's
    1e-6 noise, which the quotient amplifies by 1/(2d)): linear in k0 -> exact; in k_{i+1}: the
    derivative times 1/(1-d^2)."""
    c = case["content"]
    ks = [Fraction(v["v"]) for _, v in c["pars"]]
    d = Fraction(case["d"])
    n = len(c["vars"])
    names = case["to_scan"] or [k for k, _ in c["pars"]]
    cols, fcols = [], []
    for p in names:
        j = int(p[1:])
        col, fcol = [], []
        for i in range(n):
            if case["normalized"]:
                v = Fraction(1) if j == 0 else (-1 / (1 - d * d) if j == i + 1 else Fraction(0))
            else:
                v = (1 / ks[i + 1]) if j == 0 else (-ks[0] / ks[i + 1] ** 2 / (1 - d * d) if j == i + 1 else Fraction(0))
            col.append([f"x{i}", float(v)])
        for i in range(n + 1):
            fcol.append([f"v{i}", float(1 if j == 0 else 0)])
        cols.append([p, col])
        fcols.append([p, fcol])
    st = H9._state(L.build_model(c))
    return {"cols": cols, "fcols": fcols, "before": st, "after": st}


def oracle_euler(case):
    """central difference of independent toy steady-state runs on freshly declared models"""
    from mxlpy import Simulator

    c = case["content"]
    d = Fraction(case["d"])
    y0 = case["vars"] or []

    def ss(content):
        m = L.build_model(L.with_values(content, y0))
        r = Simulator(m, integrator=L.make_integ(case["cfg"])).simulate_to_steady_state().get_result().value
        return r.variables.iloc[-1], r.fluxes.iloc[-1]

    cols, fcols = [], []
    for p in case["to_scan"]:
        old = Fraction(dict(c["pars"])[p]["v"])
        uv, uf = ss(L.with_values(c, [(p, old * (1 + d))]))
        lv, lf = ss(L.with_values(c, [(p, old * (1 - d))]))
        den = float(2 * d * old)
        cv, cf_ = (uv - lv) / den, (uf - lf) / den
        if case["normalized"]:
            nv, nf = ss(c)
            cv, cf_ = cv * float(old) / nv, cf_ * float(old) / nf
        cols.append([p, [[str(k), _nf(cv[k])] for k in cv.index]])
        fcols.append([p, [[str(k), _nf(cf_[k])] for k in cf_.index]])
    st = H9._state(L.build_model(c))
    return {"cols": cols, "fcols": fcols, "before": st, "after": st}


def run_oracle_mc(case):
    """per sample: the plain routine's oracle on a model declared with that sample's values"""
    base = {"powerlaw": oracle_powerlaw, "poly": oracle_poly, "euler": oracle_euler}[case["stratum"]]
    samples = []
    for i, (label, _) in enumerate(case["mc"]["rows"]):
        o = base(sample_case(case, i))
        samples.append([label, {k: o[k] for k in ("cols", "fcols") if k in o}])
    st = H9._state(L.build_model(case["content"]))
    return {"samples": samples, "before": st, "after": st}


def run_oracle(case):
    if case.get("mc"):
        try:
            if case.get("raise"):
                return oracle_raise(case)  # the exception of the first sample escapes; the caller's model is untouched
            return run_oracle_mc(case)
        except fexpr.Inexact:
            return {"skip": "inexact"}
        except ZeroDivisionError:
            return {"skip": "zero"}
        except Exception as e:  # noqa: BLE001
            return {"err": [type(e).__name__]}
    try:
        if case.get("raise"):
            return oracle_raise(case)
        return {"powerlaw": oracle_powerlaw, "poly": oracle_poly, "chain": oracle_chain, "euler": oracle_euler}[case["stratum"]](case)
    except fexpr.Inexact:
        return {"skip": "inexact"}
    except ZeroDivisionError:
        return {"skip": "zero"}
    except Exception as e:  # noqa: BLE001
        return {"err": [type(e).__name__]}


# --------------------------------------------------------------------------- Lean side


def model_request(case, mode, seed=0):
    req = {"op": "c18", "content": case["content"], "what": case["what"], "to_scan": case["to_scan"],
           "vars": case["vars"], "normalized": case["normalized"], "d": case["d"], "t": case.get("t", "0")}
    if case["what"] == "resp":
        req["cfg"] = case["cfg"]
        req["mode"] = "seq" if mode[0] == "seq" else "par"
        if mode[0] != "seq":
            r = random.Random(seed)
            n = len(case["to_scan"] or case["content"]["pars"])
            req["n"] = mode[1]
            req["assign"] = [r.randrange(mode[1]) for _ in range(n)]
    return req


def model_requests_mc(case):
    reqs = []
    for i in range(len(case["mc"]["rows"])):
        req = model_request({k: v for k, v in case.items() if k != "mc"}, ["seq"])
        req["sample"] = [[c, v] for c, v in zip(case["mc"]["cols"], case["mc"]["rows"][i][1])]
        reqs.append(req)
    return reqs


def canon_model_mc(answers, S):
    """driver answers (one per sample) -> observation shaped like S"""
    if any("err" in a for a in answers):
        bad = next(a for a in answers if "err" in a)
        if "err" in S and "before" in S and "caller" in bad:
            return canon_model(bad, S, S["before"])
        return {"err": [bad["err"][0]]}
    samples, after = [], S["before"]
    for (label, tmpl), a in zip(S["samples"], answers):
        cm = canon_model(a, tmpl, S["before"])
        samples.append([label, {k: cm[k] for k in ("cols", "fcols") if k in cm}])
        after = cm["after"]
    return {"samples": samples, "before": S["before"], "after": after}


def canon_model(resp, template, before):
    def st(j):
        return sorted([k, L.qf(v)] for k, v in j["ok"]) if "ok" in j else {"err": j["err"][0]}

    if "err" in resp:
        if "err" in template and "before" in template and "caller" in resp:
            return {"err": [resp["err"][0]], "before": before,
                    "after": {"pars": st(resp["caller"]["pars"]), "init": st(resp["caller"]["init"])}}
        return {"err": [resp["err"][0]]}
    ok = resp["ok"]
    if "cols" not in template:  # the property expects an exception here, the model returned a table
        return {"returned": [p for p, _ in ok["cols"]], "before": before,
                "after": {"pars": st(ok["caller"]["pars"]), "init": st(ok["caller"]["init"])}}
    by = {p: dict(col) for p, col in ok["cols"]}

    def pick(tcols):
        out = []
        for p, tcol in tcols:
            src = by.get(p, {})
            out.append([p, [[r, (None if src.get(r) is None else L.qf(src[r])) if r in src else "missing"] for r, _ in tcol]])
        return out

    out = {"cols": pick(template["cols"])}
    if "fcols" in template:
        out["fcols"] = pick(template["fcols"])
    out["before"] = before
    out["after"] = {"pars": st(ok["caller"]["pars"]), "init": st(ok["caller"]["init"])}
    return out


# --------------------------------------------------------------------------- evaluation


def modes_for(case, rng, thorough):
    if case.get("mc"):
        return [["mc", w] for w in ((1, 2, 3) if thorough else (rng.choice([1, 2, 3]),))]
    if case["what"] != "resp":
        return [["seq"]]
    if thorough:
        return [["seq"], ["par", 1], ["par", 2], ["par", 16]]
    return [["seq"], ["par", rng.choice([1, 2, 16])]]


def _work(job):
    import logging
    import signal
    import warnings

    warnings.filterwarnings("ignore")
    logging.disable(logging.CRITICAL)
    case, modes = job
    signal.signal(signal.SIGALRM, H9._alarm)
    signal.alarm(180)
    try:
        return run_oracle(case), [run_real(case, m) for m in modes]
    except H9.JobTimeout:
        raise RuntimeError("watchdog: case did not finish in 180 s: " + str(case)[:1500]) from None
    finally:
        signal.alarm(0)


_pool = None


def pool():
    global _pool
    if _pool is None:
        _pool = cf.ProcessPoolExecutor(max_workers=min(8, os.cpu_count() or 2), mp_context=mp.get_context("fork"))
    return _pool


def tol_of(case):
    return 1e-4 if case["stratum"] == "chain" else TOL


def classify(case, mode, R, S):
    """F-C18-1: sequential response_coefficients with custom variables leaves the initial values overwritten;
    everything else equal"""
    if case.get("mc"):
        # F-C18-2: mc.response_coefficients(variables=...) writes the custom variables into the CALLER's model
        if "samples" in R and "samples" in S and case["what"] == "resp" and case["vars"] is not None \
                and R["samples"] == S["samples"] and R["before"] == S["before"] \
                and R["after"]["pars"] == S["after"]["pars"] and R["after"]["init"] != S["after"]["init"]:
            return "F-C18-2"
        return None
    if "cols" not in R or "cols" not in S or case["what"] != "resp" or mode[0] != "seq" or case["vars"] is None:
        return None
    if R["cols"] == S["cols"] and R.get("fcols") == S.get("fcols") and R["before"] == S["before"] \
            and R["after"]["pars"] == S["after"]["pars"] and R["after"]["init"] != S["after"]["init"]:
        return "F-C18-1"
    return None


def shape(case):
    c = case["content"]
    if case.get("raise"):
        at = "-".join(str(x) for x in case.get("raise_at", []))
        return (f"raise-{'mc-' if case.get('mc') else ''}{case['raise']}{'-' + at if at else ''}-{case['what']}-"
                f"{'norm' if case['normalized'] else 'raw'}-{'y' if case['vars'] else 'init'}")
    if case.get("mc"):
        vs = {k for k, _ in c["vars"]}
        return (f"mc-{case['stratum']}-{case['what']}-samples{len(case['mc']['rows'])}-"
                f"{'samplevar' if any(col in vs for col in case['mc']['cols']) else 'samplepar'}-"
                f"{'norm' if case['normalized'] else 'raw'}-{'y' if case['vars'] else 'init'}")
    return (f"{case['stratum']}{'-iavar' if case.get('iavar') else ''}{'-zeroflux' if case.get('zeroflux') else ''}-{case['what']}-v{len(c['vars'])}p{len(c['pars'])}r{len(c['rxns'])}"
            f"-{'norm' if case['normalized'] else 'raw'}-{'y' if case['vars'] else 'init'}-d{case['d']}")


def mask_nonfinite(ref, x, strict=False):
    """the model has no overflow: where the real entry is non-finite (None) the model's entry is not compared -
    unless `strict` (small exact strata, where overflow is impossible): then a non-finite real entry must be a
    `none` of the model, i.e. a division by an exact zero"""
    if ref is None:
        return x if strict else None
    if isinstance(x, list) and isinstance(ref, list) and len(x) == len(ref):
        return [mask_nonfinite(r, y, strict) for r, y in zip(ref, x)]
    if isinstance(x, dict) and isinstance(ref, dict) and set(x) == set(ref):
        return {k: mask_nonfinite(ref[k], v, strict) for k, v in x.items()}
    return x


def judge_case(ctx, case, modes, S, Rs, Ms):
    if "skip" in S:
        ctx.hist["skipped_" + S["skip"]] = ctx.hist.get("skipped_" + S["skip"], 0) + 1
        return
    ctx.count(case, shape(case), "cols" in S or "samples" in S or ("err" in S and "before" in S))
    if "cols" in S:
        nz = sum(1 for _, col in S["cols"] for _, v in col if v is None)
        if nz:
            ctx.hist["entries-without-finite-value(zero divisor)"] = ctx.hist.get("entries-without-finite-value(zero divisor)", 0) + nz
    if case.get("raise"):
        k = "raise-expected-" + ("exception" if "err" in S else "table")
        ctx.hist[k] = ctx.hist.get(k, 0) + 1
    tol = tol_of(case)
    Sj = L.jnum(S)
    for mode, R, M in zip(modes, Rs, Ms):
        sub = dict(case, modes=[mode])
        routine = {"var": "variable_elasticities", "par": "parameter_elasticities", "resp": "response_coefficients"}[case["what"]]
        feats = ["runs", "normalized" if case["normalized"] else "unscaled", "to_scan=None" if case["to_scan"] is None else "to_scan-subset",
                 "variables=None" if case["vars"] is None else "custom-variables"]
        if case.get("raise"):
            feats.append("raising")
        if case.get("mc"):
            feats.append("samples>processes" if len(case["mc"]["rows"]) > mode[1] else "samples<=processes")
        elif case["what"] == "resp":
            feats.append("sequential" if mode[0] == "seq" else "pool")
        for f in feats:
            k = f"driver {'mc' if case.get('mc') else 'mca'}.{routine}: {f}"
            ctx.hist[k] = ctx.hist.get(k, 0) + 1
        Rn = L.snap(S, R, tol)
        Mj = None
        if M is not None:
            Mn = L.snap(Rn, mask_nonfinite(Rn, M, strict=case["stratum"] in ("powerlaw", "poly")), TOL)
            Mj = L.jnum(Mn)
        ctx.judge(sub, L.jnum(Rn), Sj, Mj, finding=classify(case, mode, Rn, S), what=f"{case['what']} mode {mode}")
    # sequential and parallel runs must agree with each other much more tightly than with the analytic value
    ref = Rs[0]
    for mode, R in zip(modes[1:], Rs[1:]):
        if "cols" in ref and "cols" in R:
            a = {"cols": ref["cols"], "fcols": ref.get("fcols")}
            b = {"cols": R["cols"], "fcols": R.get("fcols")}
            if L.jnum(L.snap(a, b, 1e-12)) != L.jnum(a):
                ctx.violation(dict(case, modes=[modes[0], mode]), {"seq": a, "par": b}, "sequential and parallel coefficients differ")


def evaluate(ctx, jobs):
    outs = list(pool().map(_work, jobs, chunksize=1))
    reqs, where = [], []
    for ci, ((case, modes), (S, Rs)) in enumerate(zip(jobs, outs)):
        if not ctx.driver_ok or case["stratum"] == "chain":
            continue
        if case.get("mc"):
            if "samples" in S or (case.get("raise") and "err" in S and "before" in S):
                rq = model_requests_mc(case)
                for mi in range(len(modes)):
                    where.append((ci, mi, len(reqs), len(rq)))
                reqs += rq
            continue
        if "cols" not in S and not (case.get("raise") and "err" in S and "before" in S):
            continue
        for mi, mode in enumerate(modes):
            where.append((ci, mi, len(reqs), 1))
            reqs.append(model_request(case, mode, seed=ci * 17 + mi))
    answers = driver.call_batch(reqs) if reqs else []
    Ms = [[None] * len(modes) for _, modes in jobs]
    for ci, mi, start, cnt in where:
        S = outs[ci][0]
        if jobs[ci][0].get("mc"):
            Ms[ci][mi] = canon_model_mc(answers[start:start + cnt], S)
        else:
            Ms[ci][mi] = canon_model(answers[start], S, S["before"])
    return [(S, Rs, Ms[ci]) for ci, (S, Rs) in enumerate(outs)]


def corpus():
    """the hand-confirmed witness (DESIGN §8 F-C18-1): custom variables, sequential"""
    content = {"vars": [["x", {"v": "1"}]], "pars": [["k0", {"v": "1"}], ["k1", {"v": "1/2"}]], "derived": [], "surs": [],
               "rxns": [["v0", {"args": ["k0"], "e": ["a", 0], "st": [["x", {"c": "1"}]]}],
                        ["v1", {"args": ["k1", "x"], "e": ["*", ["a", 0], ["a", 1]], "st": [["x", {"c": "-1"}]]}]]}
    out = [{"stratum": "euler", "content": content, "what": "resp", "cfg": {"nss": 3, "h": "1/4", "fail": []},
            "to_scan": ["k0", "k1"], "vars": [["x", "3"]], "normalized": n, "d": "1/1024"} for n in (False, True)]
    # hand-confirmed witnesses of F-C18-3 / F-C18-4 (raising paths): two pools, custom variables without `y`
    two = {"vars": [["x", {"v": "1"}], ["y", {"v": "2"}]], "pars": [["k", {"v": "1"}], ["k2", {"v": "2"}]], "derived": [], "surs": [],
           "rxns": [["v", {"args": ["k", "x"], "e": ["*", ["a", 0], ["a", 1]], "st": [["x", {"c": "-1"}]]}],
                    ["v2", {"args": ["k2", "y"], "e": ["*", ["a", 0], ["a", 1]], "st": [["y", {"c": "-1"}]]}]]}
    out.append({"stratum": "poly", "content": two, "what": "par", "to_scan": ["k2", "k"], "vars": [["x", "1"]],
                "normalized": True, "d": "1/1024", "t": "0", "raise": "keyerr"})
    for j, where in ((0, "up"), (1, "lo"), (1, "norm")):
        c = {"stratum": "euler", "content": content, "what": "resp", "cfg": {"nss": 3, "h": "1/4", "fail": []},
             "to_scan": ["k0", "k1"], "vars": [["x", "3"]], "normalized": True, "d": "1/1024", "raise": "integ",
             "raise_at": [j, where]}
        c["cfg"]["raise"] = [fexpr.rat_str(_run_keys(c)[j][where])]
        out.append(c)
    return out


def setup(ctx):
    ctx.build(PROPS)
    ctx.rule = (
        "powerlaw: networks of 1-3 reactions k-products x variable-products with integer orders 0-3 (parameters 0-2), "
        "dyadic positive values, custom or initial state, scaled/unscaled, displacement 2^-10 / 2^-13 (chain: 2^-5 / 2^-6); poly: random "
        "polynomial models incl. initial assignments and derived; chain: linear chains of 1-3 pools with the shipped "
        "integrator; euler: random polynomial models with the toy integrator, custom variables (full / partial / none); "
        "response coefficients run sequentially and with 1/2/16 pool processes; raise: calls that END WITH AN EXCEPTION "
        "(custom variables lacking a variable a rate needs / naming an unknown variable; the toy integrator raising in the "
        "upper, lower or normalisation run of the j-th scanned parameter) - observed: exception class and the model "
        "afterwards; scaled: the closed forms of Props/C18 through the driver vs the real routine on v = k x^n, n = 0..5; "
        "distinct = distinct case; non-trivial = the oracle produced a table or an expected exception"
    )
    ctx.assumptions += [
        "steady states come from the integrator (C15); the chain stratum compares with analytic sensitivities at 1e-4",
        "float cancellation in (upper - lower) / (2 d old) stays below 1e-9 for d >= 2^-13 (relative rounding ~1e-16/d)",
        "process isolation / pickling / ordered pool map as in C09",
    ]
    ctx.trusted_base += ["pebble / multiprocessing / pickle; scipy LSODA in the chain stratum; pandas arithmetic on Series"]


def probe_ia_parameter(ctx):
    """outside the quantifier, recorded: parameter_elasticities on an initial-assignment parameter"""
    content = {"vars": [["x", {"v": "1"}]],
               "pars": [["k", {"v": "2"}], ["q", {"ia": {"args": ["k"], "e": ["*", ["c", "2"], ["a", 0]]}}]],
               "derived": [], "surs": [],
               "rxns": [["v", {"args": ["q", "x"], "e": ["*", ["a", 0], ["a", 1]], "st": [["x", {"c": "-1"}]]}]]}
    case = {"stratum": "poly", "content": content, "what": "par", "to_scan": ["q"], "vars": None,
            "normalized": True, "d": "1/1024", "t": "0"}
    R = run_real(case, ["seq"])
    M = None
    if ctx.driver_ok:
        a = driver.call_batch([model_request(case, ["seq"])])[0]
        M = {"err": [a["err"][0]]} if "err" in a else {"ok": True}
    ctx.notes.append(f"recorded (outside the quantifier): parameter_elasticities(to_scan=['q']) with q defined by an "
                     f"initial assignment -> real {R.get('err', 'no error')}, model {M and M.get('err', 'no error')}")
    if M is not None and ("err" in R) != ("err" in M):
        ctx.add_drift(case, R, M, "initial-assignment parameter probe")


def probe_scaled(ctx):
    """the closed forms of Props/C18 (`scaledCD`, `prodUp`, and `coef` on the three flux values of v = A x^n), run by
    the driver, against the REAL variable_elasticities on the one-reaction model v = k * x^n, and against the
    bound `n <= s <= n * prodUp d n` the theorem states"""
    from mxlpy import mca

    if not ctx.driver_ok:
        return
    cases = [(d, n, A, x) for d in DISP + ["1/32", "-1/1024"] for n in range(0, 6) for A, x in (("1", "1"), ("3/2", "5/4"))]
    answers = driver.call_batch([{"op": "c18", "what": "scaled", "d": d, "n": n, "A": A, "x": x} for d, n, A, x in cases])
    for (d, n, A, x), a in zip(cases, answers):
        case = {"stratum": "scaled", "d": d, "n": n, "A": A, "x": x}
        ctx.count(case, f"scaled-n{n}", True)
        if "scaled" not in a:
            ctx.violation(case, a, "driver: scaled closed form")
            continue
        fd = Fraction(d)
        closed = ((1 + fd) ** n - (1 - fd) ** n) / (2 * fd)
        sc, pu = Fraction(a["scaled"]), Fraction(a["prodUp"])
        content = {"vars": [["x", {"v": x}]], "pars": [["k", {"v": A}]], "derived": [], "surs": [],
                   "rxns": [["v", {"args": ["k"] + ["x"] * n, "e": _prod([["a", i] for i in range(n + 1)]),
                             "st": [["x", {"c": "-1"}]]}]]}
        real = float(mca.variable_elasticities(L.build_model(content), normalized=True, displacement=L.fl(d)).loc["v", "x"])
        R = {"entry": closed if L.close(real, float(closed), TOL) else real, "bound": n <= closed <= n * pu}
        S = {"entry": sc, "bound": True}
        M = {"entry": None if a["coef"] is None else Fraction(a["coef"]), "bound": n <= sc <= n * pu}
        ctx.judge(case, L.jnum({k: (str(v) if isinstance(v, Fraction) else v) for k, v in R.items()}),
                  L.jnum({k: (str(v) if isinstance(v, Fraction) else v) for k, v in S.items()}),
                  L.jnum({k: (str(v) if isinstance(v, Fraction) else v) for k, v in M.items()}), what="scaled closed form")


def run(ctx):
    setup(ctx)
    probe_ia_parameter(ctx)
    probe_scaled(ctx)
    rng = ctx.rng
    thorough = ctx.tier == "thorough" or not ctx.proof_ok
    cases = list(corpus())
    n = ctx.n(300, 3000)
    gens = [gen_powerlaw, gen_powerlaw, gen_mc, gen_poly, gen_raise, gen_euler, gen_mc, gen_chain, gen_powerlaw, gen_euler,
            gen_poly_iavar, gen_raise, gen_zeroflux]
    while len(cases) < n:
        cases.append(gens[len(cases) % len(gens)](rng))
    batch = 80
    for b in range(0, len(cases), batch):
        jobs = [(c, modes_for(c, rng, thorough)) for c in cases[b:b + batch]]
        for (case, modes), (S, Rs, Ms) in zip(jobs, evaluate(ctx, jobs)):
            judge_case(ctx, case, modes, S, Rs, Ms)
        if len(ctx.violations) > 10:
            break
    pool().shutdown()


def replay(ctx, rp):
    case = rp["case"]
    modes = case.get("modes") or [["seq"]]
    (S, Rs, Ms), = evaluate(ctx, [(case, modes)])
    print("S =", S)
    for mode, R, M in zip(modes, Rs, Ms):
        print("mode", mode, "\nR =", R, "\nM =", M)
    judge_case(ctx, case, modes, S, Rs, Ms)
    pool().shutdown()
