"""C17 — SBML import builds the model the document describes (DESIGN §6/C17, design.d/C17.md).

Per generated document (JSON description -> written with libsbml):
  R  real `mxlpy.sbml.read`, numbers of the imported model at generated states, converted to amounts
  S  `DocSpec` below: an independent, order-free Python reading of the document (floats)
  M  Lean driver op "c17": `docInit17 / docVal17 / docRhs17` (exact rationals; null where a transcendental
     function is involved) — must agree with S, else drift
plus: pairs of documents whose stems normalise to the same module name, read in one session; `valid_filename`
and `_free_name` against their Lean models.
"""
from __future__ import annotations

import atexit
import inspect
import itertools
import json
import math
import multiprocessing as mp
import os
import shutil
import sys
from fractions import Fraction
from pathlib import Path

from vlib import driver
from vlib.framework import WORK

from . import c17gen, c17suite
from .c08 import _val, close, lean_val

PROPS = ["MxlVerif.Props.C17"]
SCRATCH = WORK / f"c17-{os.getpid()}"  # per run: two checks in one checkout must not remove each other's files
# IPython (pulled in by a dependency) keeps a history database in $IPYTHONDIR: parallel checks must not share it
os.environ.setdefault("IPYTHONDIR", str(WORK / f"ipython-{os.getpid()}"))
atexit.register(shutil.rmtree, WORK / f"ipython-{os.getpid()}", ignore_errors=True)  # runs after IPython's own hook

KEYWORD_IDS = ["lambda", "in", "is", "def", "pass", "class", "from", "global", "not", "or"]
PLAIN_S = ["S1", "S2", "A", "atp", "ATP", "glc_c", "_s", "X__1"]
PLAIN_P = ["k1", "k2", "Vm", "Km", "n_H", "_p", "K"]
RULE_P = ["tot", "ratio", "act", "init_k1", "init_Vm", "J"]
RXN_IDS = ["R1", "R2", "v_f", "J0", "reaction_1"]
FUN_IDS = ["f", "mm", "hill_2"]

#: (what libsbml writes, the literal another tool would write) for doubles that need more than 15 digits
DIGITS = [("0.3", "0.30000000000000004"), ("0.333333333333333", "0.3333333333333333"), ("0.7", "0.7000000000000001"),
          ("1.1", "1.1000000000000001"), ("2.675", "2.6750000000000003"), ("0.1", "0.10000000000000002")]

#: constant stoichiometries: small integers, fractions, and fine dyadics / tiny values (exact doubles that need many
#: decimals: 3*2^-20, 2^-13, 5*2^-30, 2^-43)
STOICH = ["1", "2", "1/2", "3/2", "3", "1", "2", "1/2", "3/1048576", "1/8192", "5/1073741824", "1/8796093022208", "7/4096"]

# ---------------------------------------------------------------------------------------------- math generator


class GM:
    #: set by gen_doc for strata whose parameter values are not exactly representable sums (the `digits`
    #: stratum): no discontinuous operator is generated there, because a value that lands exactly on a
    #: jump (rem(4, 0.3 + 0.5)) would make the comparison depend on the last bit
    SMOOTH = False

    def __init__(self, rng, names, *, floaty: bool, funs=(), formal=False):
        self.rng, self.names, self.floaty, self.funs = rng, list(names), floaty, list(funs)
        #: the names are formal parameters of a function definition: a call site may bind them to a literal, and
        #: sympy then evaluates an undefined guarded term (rem(3, 3-3)) while substituting — third party, so no
        #: partially defined terms over formal parameters
        self.formal = formal

    def cn(self):
        return ["cn", self.rng.choice(["0", "1", "2", "3", "1/2", "5/2", "1/4", "4"])]

    def leaf(self):
        if self.names and self.rng.random() < 0.75:
            return ["ci", self.rng.choice(self.names)]
        return self.cn()

    def posden(self):
        if not self.names:
            return ["cn", self.rng.choice(["1", "2", "4", "1/2"])]
        return ["AST_PLUS", [["AST_FUNCTION_ABS", [["ci", self.rng.choice(self.names)]]],
                             ["cn", self.rng.choice(["1", "2", "1/2"])]]]

    def num(self, d):
        r = self.rng
        if d <= 0 or r.random() < 0.2:
            return self.leaf()
        k = r.choice(["plus", "plus3", "minus", "neg", "times", "times", "divc", "pow", "pw", "abs", "ceil", "floor",
                      "minmax", "quot", "rem", "call", "float", "float", "guarded"])
        if GM.SMOOTH and k in ("pw", "ceil", "floor", "quot", "rem"):
            k = r.choice(["plus", "minus", "times", "abs", "minmax"])
        if k == "plus":
            return ["AST_PLUS", [self.num(d - 1), self.num(d - 1)]]
        if k == "plus3":
            return [r.choice(["AST_PLUS", "AST_TIMES"]), [self.num(d - 1), self.leaf(), self.num(d - 1)]]
        if k == "minus":
            return ["AST_MINUS", [self.num(d - 1), self.num(d - 1)]]
        if k == "neg":
            return ["AST_MINUS", [self.num(d - 1)]]
        if k == "times":
            return ["AST_TIMES", [self.num(d - 1), self.num(d - 1)]]
        if k == "divc":
            return ["AST_DIVIDE", [self.num(d - 1), ["cn", r.choice(["2", "4", "1/2"])]]]
        if k == "pow":
            return [r.choice(["AST_POWER", "AST_FUNCTION_POWER"]), [self.num(d - 1), ["cn", r.choice(["0", "1", "2", "3"])]]]
        if k == "pw":
            if r.random() < 0.3:  # two pieces
                return ["AST_FUNCTION_PIECEWISE", [self.num(d - 1), self.boolean(d - 1), self.num(d - 1),
                                                   self.boolean(d - 1), self.num(d - 1)]]
            return ["AST_FUNCTION_PIECEWISE", [self.num(d - 1), self.boolean(d - 1), self.num(d - 1)]]
        if k == "abs":
            return ["AST_FUNCTION_ABS", [self.num(d - 1)]]
        if k == "ceil":
            return ["AST_FUNCTION_CEILING", [self.num(d - 1)]]
        if k == "floor":
            return ["AST_FUNCTION_FLOOR", [self.num(d - 1)]]
        if k == "minmax":
            return [r.choice(["AST_FUNCTION_MAX", "AST_FUNCTION_MIN"]), [self.num(d - 1) for _ in range(r.choice([2, 3]))]]
        if k == "quot":
            return ["AST_FUNCTION_QUOTIENT", [self.num(d - 1), self.posden()]]
        if k == "rem":
            rem = ["AST_FUNCTION_REM", [self.num(d - 1), self.posden()]]
            if r.random() < 0.5:  # a remainder behind a negated factor (precedence of `%` in generated code)
                return ["AST_TIMES", [["AST_MINUS", [self.leaf()]], rem]]
            return rem
        if k == "guarded":
            # a term that is only defined on part of the state space (1/(x-c); in the float stratum ln / sqrt of
            # x-c), used more than once inside the piecewise branch whose condition guards it
            if not self.names or self.formal:
                return self.leaf()
            x = ["ci", r.choice(self.names)]
            c = ["cn", r.choice(["1", "2", "1/2", "3"])]
            dx = ["AST_MINUS", [x, c]]
            if self.floaty and r.random() < 0.6:
                u = [r.choice(["AST_FUNCTION_LN", "AST_FUNCTION_ROOT"]), [dx]]
                guard = ["AST_RELATIONAL_GT", [x, c]]
            elif self.floaty:
                u = ["AST_DIVIDE", [["cn", "1"], dx]]
                guard = r.choice([["AST_RELATIONAL_GT", [x, c]], ["AST_RELATIONAL_NEQ", [x, c]]])
            else:
                # exact arithmetic: the remainder by x-c (undefined at x = c) instead of a reciprocal
                u = ["AST_FUNCTION_REM", [["cn", r.choice(["1", "3", "4", "5/2"])], dx]]
                guard = r.choice([["AST_RELATIONAL_GT", [x, c]], ["AST_RELATIONAL_NEQ", [x, c]]])
            if self.funs and r.random() < 0.5:
                f, arity = r.choice(self.funs)
                body = ["AST_PLUS", [["call", f, [u] * arity], u]]
            else:
                body = r.choice([["AST_PLUS", [["AST_TIMES", [u, u]], u]],
                                 ["AST_TIMES", [u, ["AST_PLUS", [["cn", "1"], u]]]]])
            other = self.num(d - 1)
            if r.random() < 0.3:  # the guard as second piece
                return ["AST_FUNCTION_PIECEWISE", [other, ["AST_LOGICAL_NOT", [guard]], body]]
            return ["AST_FUNCTION_PIECEWISE", [body, guard, other]]
        if k == "call":
            if not self.funs:
                return self.leaf()
            f, arity = r.choice(self.funs)
            return ["call", f, [self.num(d - 1) for _ in range(arity)]]
        if not self.floaty:
            return self.leaf()
        k = r.choice(["div", "div", "fn", "fn", "const"])
        if k == "div":
            return ["AST_DIVIDE", [self.num(d - 1), self.posden()]]
        if k == "const":
            return ["csym", r.choice(["pi", "e"])]
        f = r.choice(["AST_FUNCTION_ROOT", "AST_FUNCTION_ROOT2", "AST_FUNCTION_LN", "AST_FUNCTION_LOG", "AST_FUNCTION_EXP",
                      "AST_FUNCTION_SIN", "AST_FUNCTION_COS", "AST_FUNCTION_TANH", "AST_FUNCTION_ARCTAN"])
        arg = self.num(d - 1)
        pos = ["AST_PLUS", [["AST_FUNCTION_ABS", [arg]], ["cn", "1"]]]
        small = ["AST_FUNCTION_MIN", [["AST_FUNCTION_ABS", [arg]], ["cn", "2"]]]
        if f == "AST_FUNCTION_ROOT":
            return [f, [pos]]
        if f == "AST_FUNCTION_ROOT2":
            return ["AST_FUNCTION_ROOT", [["cn", "2"], pos]]
        if f == "AST_FUNCTION_LN":
            return [f, [pos]]
        if f == "AST_FUNCTION_LOG":
            return [f, [["cn", "10"], pos]]
        if f == "AST_FUNCTION_EXP":
            return [f, [small]]
        return [f, [arg]]

    def boolean(self, d):
        r = self.rng
        k = (r.choice(["rel", "rel", "rel", "rel3", "and", "or", "not", "const", "xor", "thresholds"]) if d > 0
             else r.choice(["rel", "const", "thresholds"]))
        rels = ["AST_RELATIONAL_LT", "AST_RELATIONAL_LEQ", "AST_RELATIONAL_GT", "AST_RELATIONAL_GEQ",
                "AST_RELATIONAL_EQ", "AST_RELATIONAL_NEQ"]
        if k == "const":
            return ["csym", r.choice(["true", "false"])]
        if k == "rel":
            return [r.choice(rels), [self.num(d - 1), self.num(d - 1)]]
        if k == "rel3":
            return [r.choice(rels[:5]), [self.num(d - 1), self.num(d - 1), self.num(d - 1)]]
        if k == "not":
            return ["AST_LOGICAL_NOT", [self.boolean(d - 1)]]
        if k == "thresholds":
            # n-ary connective over nested thresholds of one quantity: any number of the operands can hold at once
            x = ["ci", r.choice(self.names)] if self.names else self.cn()
            n = r.choice([2, 3, 3, 4])
            ths = r.sample(["0", "1/2", "1", "3/2", "2", "3", "4"], n)
            ops = [[r.choice(["AST_RELATIONAL_GT", "AST_RELATIONAL_GEQ"]), [x, ["cn", t]]] for t in ths]
            return [r.choice(["AST_LOGICAL_XOR", "AST_LOGICAL_XOR", "AST_LOGICAL_AND", "AST_LOGICAL_OR"]), ops]
        if k == "xor":
            return ["AST_LOGICAL_XOR", [self.boolean(d - 1) for _ in range(r.choice([2, 3, 3]))]]
        return ["AST_LOGICAL_AND" if k == "and" else "AST_LOGICAL_OR",
                [self.boolean(d - 1) for _ in range(r.choice([2, 2, 3]))]]


def math_names(m):
    if m[0] == "ci":
        yield m[1]
    elif m[0] == "call":
        for a in m[2]:
            yield from math_names(a)
    elif m[0] not in ("cn", "csym"):
        for a in m[1]:
            yield from math_names(a)


def uses_all(rng, g, m, names):
    used = set(math_names(m))
    for n in names:
        if n not in used:
            m = [rng.choice(["AST_PLUS", "AST_TIMES"]), [m, ["ci", n]]]
    return m


# ---------------------------------------------------------------------------------------------- document generator


def gen_doc(rng, *, stratum: str):
    """stratum: exact | float | keywords | mixed | srefkw | compkw | initname | digits | gennames | rewrite | gencollide | sparse | nearequal | idcollide | boolnum | boundary | shadow | selfapply"""
    floaty = stratum == "float"
    GM.SMOOTH = stratum == "digits"
    kw = stratum == "keywords"
    pool_s = list(PLAIN_S) + (KEYWORD_IDS[:4] if kw else [])
    pool_p = list(PLAIN_P) + (KEYWORD_IDS[4:8] if kw else [])
    ncomp = rng.choice([1, 1, 2])
    comps = [[c, rng.choice(["1", "2", "1/2", "4"])] for c in rng.sample(["c", "cyt", "V_e"], ncomp)]
    if stratum == "compkw":
        comps[0][0] = rng.choice(["class", "in", "pass"])
    nsp = rng.choice([1, 2, 2, 3])
    kind = rng.choice(["conc", "conc", "amount", "hosu", "conc_hosu"])
    species = []
    sids = rng.sample(pool_s, nsp)
    if kw:
        sids[0] = rng.choice(KEYWORD_IDS[:4])
    for i, sid in enumerate(sids):
        kd = kind
        if stratum == "mixed":
            kd = ["conc", "amount", "hosu"][i % 3]
        species.append({"id": sid, "comp": rng.choice(comps)[0] if stratum != "mixed" else comps[0][0],
                        "init": rng.choice(["0", "1", "2", "3", "1/2", "5/2", "6"]),
                        "isAmount": kd in ("amount", "hosu"), "hosu": kd in ("hosu", "conc_hosu"),
                        # boundaryCondition: takes part in reactions, is not changed by them
                        "fixed": stratum == "boundary" and (i == 0 or rng.random() < 0.3)})
    if stratum == "mixed":
        comps[0][1] = rng.choice(["2", "1/2", "4"])
    npar = rng.choice([1, 2, 3])
    pids = rng.sample(pool_p, npar)
    if kw:
        pids[0] = rng.choice(KEYWORD_IDS[4:8])
    if stratum == "shadow":
        # an id that is a usable Python name but means something in the generated module: a builtin the printed
        # bodies call, a module they reach into
        pids[0] = SHADOW_IDS[next(_shadow_turn) % len(SHADOW_IDS)]  # every id in turn, whatever the seed
    params, inits, rules = [], [], []
    const_ps = []
    raw = {}
    for pid in pids:
        params.append([pid, rng.choice(["0", "1", "2", "3", "1/2", "5/2", "7"])])
        const_ps.append(pid)
    if stratum == "digits":
        # values that need 16-17 significant digits (libsbml itself writes 15: patched into the file afterwards)
        for pr in rng.sample(params, rng.choice([1, len(params)])):
            short, full = rng.choice(DIGITS)
            pr[1] = _val(float(full))
            raw[pr[0]] = (short, full)
    # parameters / species with an initial assignment (the attribute value, if any, is overridden)
    ia_targets = []
    if rng.random() < 0.5 and const_ps:
        pid = rng.choice([p for p in RULE_P[:3] if p not in pids] or ["ia_p"])
        pid = "iap_" + pid
        params.append([pid, rng.choice([None, "9"])])
        g = GM(rng, const_ps, floaty=floaty)
        inits.append([pid, uses_all(rng, g, g.num(1), rng.sample(const_ps, 1))])
        ia_targets.append(pid)
    if stratum == "initname" and const_ps:
        # an initial assignment on p together with a rule-defined parameter called init_<p>
        p = const_ps[0]
        g = GM(rng, const_ps[1:] or [], floaty=False)
        inits.append([p, ["AST_PLUS", [g.num(1), ["cn", "3"]]]])
        rp = f"init_{p}"
        params.append([rp, None])
        g2 = GM(rng, [s["id"] for s in species] + const_ps[1:], floaty=False)
        rules.append([rp, ["AST_TIMES", [g2.num(1), ["cn", "2"]]]])
    # (not for hasOnlySubstanceUnits species given as concentration: pysbml scales their initial assignment by
    #  the compartment although the symbol denotes the amount — third party, left out)
    ia_species = [s for s in species if not (s["hosu"] and not s["isAmount"])]
    if rng.random() < 0.3 and ia_species:
        s = rng.choice(ia_species)
        g = GM(rng, const_ps, floaty=floaty)
        inits.append([s["id"], g.num(1)])
        if rng.random() < 0.5:
            s["init"] = None
    # function definitions
    fundefs = []
    funs = []
    for i in range(rng.choice([0, 1, 2])):
        fid = FUN_IDS[i]
        ps = ["a", "b"][: rng.choice([1, 2])]
        g = GM(rng, ps, floaty=floaty, funs=funs, formal=True)
        body = uses_all(rng, g, g.num(2), ps)
        fundefs.append({"id": fid, "params": ps, "body": body})
        funs.append((fid, len(ps)))
    if stratum == "selfapply":
        # a function definition applied to its own result: the importer's sympy terms hold unevaluated nestings
        # (Abs(Abs(k))) that any later substitution re-evaluates (F-C17-15)
        body = rng.choice([["AST_FUNCTION_ABS", [["AST_DIVIDE", [["ci", "a"], ["AST_PLUS", [["AST_FUNCTION_ABS", [["ci", "a"]]], ["cn", "1"]]]]]]],
                           ["AST_PLUS", [["AST_FUNCTION_ABS", [["ci", "a"]]], ["cn", "1"]]],
                           ["AST_FUNCTION_MAX", [["AST_FUNCTION_ABS", [["ci", "a"]]], ["cn", "1/2"]]]])
        fundefs.append({"id": "selfap", "params": ["a"], "body": body})
        funs.append(("selfap", 1))
        params.append(["nest", None])
        rules.append(["nest", ["call", "selfap", [["call", "selfap", [["ci", rng.choice(const_ps)]]]]]])
    sym = [s["id"] for s in species] + [p for p, _ in params if p not in [r[0] for r in rules]] + [c for c, _ in comps]
    # rule-defined parameters
    rule_ps = []
    for rp in rng.sample(RULE_P[:3], rng.choice([0, 1, 2])):
        if kw and rng.random() < 0.5:
            rp = rng.choice(KEYWORD_IDS[8:])
        if rp in [p for p, _ in params]:
            continue
        g = GM(rng, sym + rule_ps, floaty=floaty, funs=funs)
        params.append([rp, None])
        rules.append([rp, g.num(2)])
        rule_ps.append(rp)
    # reactions
    rxns = []
    avail = sym + rule_ps + [r[0] for r in rules if r[0] not in rule_ps]
    # pysbml replaces the compartment symbol of an amount-typed species by 1 inside kinetic laws (it assumes laws of
    # the form C * f(concentrations)); outside the `mixed` stratum laws do not mention compartments
    comp_ids = {c for c, _ in comps}
    law_names = [n for n in avail if n not in comp_ids]
    nr = rng.choice([1, 2, 3])
    rids = rng.sample(RXN_IDS, nr)
    if kw:
        rids[0] = rng.choice(["def", "pass", "lambda"]) if rids[0] not in sids + pids else rids[0]
        if rids[0] in sids + pids + [c for c, _ in comps] + [p for p, _ in params]:
            rids[0] = "R9"
    sref_n = 0
    for rid in rids:
        parts = rng.sample(species, rng.choice([1, min(2, len(species))]))
        reactants, products = [], []
        for sp in parts:
            side = reactants if rng.random() < 0.5 else products
            if rng.random() < 0.25 and const_ps:
                sref_n += 1
                sref_id = f"sr{sref_n}_{sp['id']}" if stratum != "srefkw" else rng.choice(["pass", "in", "is", "x__46__y"]) + ("" if sref_n == 1 else str(sref_n))
                g = GM(rng, const_ps, floaty=False)
                rules.append([sref_id, ["AST_PLUS", [["AST_FUNCTION_ABS", [g.num(1)]], ["cn", "1"]]]])
                side.append([sp["id"], None, sref_id])
            else:
                side.append([sp["id"], rng.choice(STOICH), None])
        g = GM(rng, law_names, floaty=floaty, funs=funs)
        law = g.num(2)
        if stratum == "mixed":
            law = ["AST_TIMES", [["ci", comps[0][0]], law]]
        law = uses_all(rng, g, law, [sp["id"] for sp in parts][:1])
        if stratum == "shadow":
            p0 = ["ci", pids[0]]
            law = ["AST_PLUS", [law, ["AST_FUNCTION_ABS", [p0]], ["AST_FUNCTION_MAX", [p0, ["cn", "1"]]],
                                ["AST_FUNCTION_MIN", [p0, ["cn", "3"]]], ["AST_FUNCTION_CEILING", [p0]]]]
        rxns.append({"id": rid, "reactants": reactants, "products": products, "law": law})
    if stratum == "gennames":
        # a reaction called like a helper function the importer generates: <R>_stoich_<S> for a reaction R acting
        # on S (declared before or after it), init_<x> for an x with an initial assignment
        r0 = rxns[0]
        s0 = (r0["reactants"] + r0["products"])[0][0]
        g = GM(rng, law_names, floaty=False, funs=funs)
        other = rng.choice(species)["id"]
        twin = {"id": f"{r0['id']}_stoich_{s0}", "reactants": [], "products": [[other, rng.choice(["1", "2", "1/2"]), None]],
                "law": uses_all(rng, g, g.num(1), [other])}
        rxns.insert(rng.choice([0, 1, len(rxns)]), twin)
        ia_ids = [k for k, _ in inits]
        if not ia_ids and const_ps:
            p0 = const_ps[0]
            inits.append([p0, ["AST_PLUS", [["cn", "3"], ["cn", "1/2"]]]])
            ia_ids = [p0]
        for x in ia_ids[:1]:
            g = GM(rng, law_names, floaty=False, funs=funs)
            other = rng.choice(species)["id"]
            rxns.insert(rng.choice([0, len(rxns)]),
                        {"id": f"init_{x}", "reactants": [[other, "1", None]], "products": [],
                         "law": uses_all(rng, g, g.num(1), [other])})
    if stratum == "gencollide" and const_ps:
        # names the importer generates itself meeting each other: init_<x> / <x>_ / <r>_stoich_<s> / a reaction
        # called init.  Every helper function must stay the function of its own component.
        def ia(names):
            g = GM(rng, names, floaty=False)
            return ["AST_PLUS", [["AST_TIMES", [g.num(1), ["cn", rng.choice(["2", "3", "1/2"])]]], ["cn", rng.choice(["1", "5", "7/2"])]]]

        variant = rng.choice(["init_twins", "init_twins", "init_rxn_stoich", "stoich_twins"])
        p = const_ps[0]
        others = const_ps[1:]
        s0 = species[0]["id"]
        if variant == "init_twins":
            # p and p_ both carry an initial assignment, and a rule-defined quantity or a reaction is called init_<p>
            inits[:] = [kv for kv in inits if kv[0] != p]
            inits.append([p, ia(others)])
            params.append([p + "_", rng.choice([None, "4"])])
            inits.append([p + "_", ia(others)])
            if rng.random() < 0.3:
                params.append([p + "__", None])
                inits.append([p + "__", ia(others)])
            if rng.random() < 0.6:
                params.append([f"init_{p}", None])
                rules.append([f"init_{p}", ia([s0] + others)])
                if rng.random() < 0.4:
                    params.append([f"init_{p}_", None])
                    rules.append([f"init_{p}_", ia([s0] + others)])
            else:
                g = GM(rng, law_names, floaty=False, funs=funs)
                rxns.insert(rng.choice([0, len(rxns)]), {"id": f"init_{p}", "reactants": [[s0, "1", None]], "products": [],
                                                          "law": uses_all(rng, g, g.num(1), [s0])})
        elif variant == "init_rxn_stoich":
            # a reaction called init with a rule-defined coefficient on s0 (-> init_stoich_<s0>) next to a
            # parameter stoich_<s0> with an initial assignment (-> init_stoich_<s0>)
            g = GM(rng, law_names, floaty=False, funs=funs)
            sref_n += 1
            sref_id = f"sr{sref_n}_{s0}"
            rules.append([sref_id, ["AST_PLUS", [["AST_FUNCTION_ABS", [GM(rng, const_ps, floaty=False).num(1)]], ["cn", "1"]]]])
            rxns.insert(rng.choice([0, len(rxns)]), {"id": "init", "reactants": [], "products": [[s0, None, sref_id]],
                                                      "law": uses_all(rng, g, g.num(1), [s0])})
            params.append([f"stoich_{s0}", rng.choice([None, "2"])])
            inits.append([f"stoich_{s0}", ia(const_ps)])
        else:
            # species s and s_ both with a rule-defined coefficient in R, and a reaction called R_stoich_<s>
            r0 = rxns[0]
            twin = dict(species[0], id=s0 + "_", init=species[0]["init"] or "2")
            species.append(twin)
            r0["reactants"] = [x for x in r0["reactants"] if x[0] != s0]
            r0["products"] = [x for x in r0["products"] if x[0] != s0]
            for sid in (s0, s0 + "_"):
                sref_n += 1
                sref_id = f"sr{sref_n}_{sid}"
                rules.append([sref_id, ["AST_PLUS", [["AST_FUNCTION_ABS", [GM(rng, const_ps, floaty=False).num(1)]],
                                                     ["cn", rng.choice(["1", "2", "3"])]]]])
                (r0["reactants"] if rng.random() < 0.5 else r0["products"]).append([sid, None, sref_id])
            g = GM(rng, law_names, floaty=False, funs=funs)
            rxns.insert(rng.choice([0, len(rxns)]), {"id": f"{r0['id']}_stoich_{s0}", "reactants": [],
                                                      "products": [[s0, rng.choice(["1", "2"]), None]],
                                                      "law": uses_all(rng, g, g.num(1), [s0])})
    if stratum == "sparse":
        # documents with none of some container
        variant = rng.choice(["species_only", "no_reactions", "no_params", "bare"])
        sp_ids = [s_["id"] for s_ in species]
        if variant == "species_only":
            params, inits, rules, fundefs = [], [kv for kv in inits if kv[0] in sp_ids and False], [], []
            g = GM(rng, sp_ids, floaty=False)
            rxns = [{"id": "R1", "reactants": [[sp_ids[0], "1", None]], "products": [], "law": uses_all(rng, g, g.num(2), sp_ids[:1])}]
        elif variant == "no_reactions":
            species, rxns = [], []
            rules = [kv for kv in rules if not (set(math_names(kv[1])) & set(sp_ids))]
            rules = [kv for kv in rules if kv[0] in [p_ for p_, _ in params]]
            inits = [kv for kv in inits if kv[0] not in sp_ids]
        elif variant == "no_params":
            params, inits, rules = [], [], []
            g = GM(rng, sp_ids, floaty=False, funs=funs)
            rxns = [{"id": rid, "reactants": [[sp_ids[0], rng.choice(STOICH), None]], "products": [[sp_ids[-1], "1", None]],
                     "law": uses_all(rng, g, g.num(2), sp_ids[:1])} for rid in rids[:2]]
        else:
            params, inits, rules, fundefs = [[pids[0], "2"]], [], [], []
            rxns = [{"id": "R1", "reactants": [[sp_ids[0], "1", None]], "products": [],
                     "law": ["AST_TIMES", [["ci", pids[0]], ["ci", sp_ids[0]]]]}]
        for s_ in species:
            if s_["init"] is None and s_["id"] not in [k for k, _ in inits]:
                s_["init"] = "1"
        while True:  # drop what lost its definition
            defined = ({s_["id"] for s_ in species} | {c for c, _ in comps} | {p_ for p_, v_ in params if v_ is not None}
                       | {k for k, _ in rules} | {k for k, _ in inits if k in [p_ for p_, _ in params]})
            rules2 = [kv for kv in rules if set(math_names(kv[1])) <= defined and kv[0] in [p_ for p_, _ in params]]
            inits2 = [kv for kv in inits if set(math_names(kv[1])) <= defined]
            params2 = [pv for pv in params if pv[1] is not None or pv[0] in [k for k, _ in rules2] + [k for k, _ in inits2]]
            if (rules2, inits2, params2) == (rules, inits, params):
                break
            rules, inits, params = rules2, inits2, params2
    near = []
    if stratum == "nearequal":
        # relational conditions between two quantities, evaluated at states where they are equal, differ in the
        # 12th-13th digit, or differ clearly: MathML relations are exact
        comp_size = {c: Fraction(v) for c, v in comps}
        pvals = {p_: Fraction(v_) for p_, v_ in params if v_ is not None and p_ not in [k for k, _ in inits]}
        rels = ["AST_RELATIONAL_EQ", "AST_RELATIONAL_NEQ", "AST_RELATIONAL_EQ", "AST_RELATIONAL_NEQ",
                "AST_RELATIONAL_LT", "AST_RELATIONAL_LEQ", "AST_RELATIONAL_GT", "AST_RELATIONAL_GEQ"]
        for r_ in rxns:
            sid = (r_["reactants"] + r_["products"])[0][0]
            if pvals and rng.random() < 0.6:
                pn = rng.choice(sorted(pvals))
                target, tval = ["ci", pn], pvals[pn]
            else:
                c_ = rng.choice(["1", "2", "1/2", "3"])
                target, tval = ["cn", c_], Fraction(c_)
            if tval == 0:
                target, tval = ["cn", "1"], Fraction(1)
            cond = [rng.choice(rels), [["ci", sid], target] if rng.random() < 0.7 else [target, ["ci", sid]]]
            if rng.random() < 0.25:
                cond = ["AST_LOGICAL_NOT", [cond]]
            r_["law"] = ["AST_FUNCTION_PIECEWISE", [r_["law"], cond, ["AST_PLUS", [["AST_TIMES", [r_["law"], ["cn", "2"]]], ["cn", "1"]]]]]
            near.append((sid, tval))
    if stratum == "idcollide":
        # two distinct legal SBML ids that pysbml's name_to_py maps to one Python name (the mapping is injective
        # only on ids without `__` that are not `<keyword>_`: Props/C17.lean, C17_name_mapping_injective)
        a_, b_ = rng.choice([("if", "if_"), ("class", "class_"), ("x__46__y", "xy"), ("n__45__1", "n_1"), ("lambda_", "lambda")])
        params.append([a_, "2"])
        params.append([b_, "5"])
        rxns[0]["law"] = ["AST_PLUS", [rxns[0]["law"], ["AST_TIMES", [["ci", a_], ["AST_PLUS", [["ci", b_], ["cn", "1"]]]]]]]
    if stratum == "shadow" and next(_shadow_turn2) % 3 == 2:
        # the same for the id of a reaction: its function is defined at module level under that name (F-C17-14)
        rxns[-1]["id"] = rng.choice([i for i in SHADOW_IDS if i != pids[0]])
    finding = {"mixed": "F-C17-4", "srefkw": "F-C17-5", "compkw": "F-C17-6", "idcollide": "F-C17-10",
               "boolnum": "F-C17-11"}.get(stratum)
    if stratum == "boundary" and any(sp["fixed"] and sp["hosu"] and Fraction(dict(comps)[sp["comp"]]) != 1 for sp in species):
        # third party: a boundary species with hasOnlySubstanceUnits in a compartment of size != 1 (F-C17-12)
        finding = "F-C17-12"
    if stratum == "shadow" and rxns[-1]["id"] in SHADOW_IDS:
        finding = "F-C17-14"
    if stratum == "boolnum":
        # L3v2 lets a truth value stand for 0 / 1 (suite case 01288: the kinetic law <true/>): as a factor or a summand
        r = rng.choice(rxns)
        cond = rng.choice([["csym", "true"], ["csym", "false"],
                           ["AST_RELATIONAL_LT", [["ci", species[0]["id"]], ["cn", rng.choice(["1", "2", "3"])]]],
                           ["AST_RELATIONAL_GEQ", [["ci", species[0]["id"]], ["ci", pids[0]]]]])
        r["law"] = rng.choice([cond, ["AST_TIMES", [r["law"], cond]], ["AST_PLUS", [r["law"], cond]]]) \
            if cond[0] == "csym" else rng.choice([["AST_TIMES", [r["law"], cond]], ["AST_PLUS", [r["law"], cond]]])
    if stratum == "srefkw" and sref_n == 0:
        finding = None
    all_ids = ([c for c, _ in comps] + [s["id"] for s in species] + [p for p, _ in params] + [f["id"] for f in fundefs]
               + [r["id"] for r in rxns] + [x[2] for r in rxns for x in r["reactants"] + r["products"] if x[2]])
    if len(set(all_ids)) != len(all_ids):
        return gen_doc(rng, stratum=stratum)  # ids of a document are unique: draw again
    states = [[[s["id"], rng.choice(["0", "1", "2", "3", "4", "1/2", "3/2", "6"])] for s in species] for _ in range(3)]
    if near:
        states.append([list(x) for x in states[0]])
        for st in states:
            for sid, tval in near:
                sp = next(x for x in species if x["id"] == sid)
                delta = rng.choice([Fraction(0), Fraction(1, 2 ** 40), -Fraction(1, 2 ** 40), Fraction(1, 2 ** 36),
                                    -Fraction(1, 2 ** 33), Fraction(1, 2 ** 31), Fraction(1, 4)])
                sym_v = tval * (1 + delta)
                amount = sym_v if sp["hosu"] else sym_v * comp_size[sp["comp"]]
                for x in st:
                    if x[0] == sid:
                        x[1] = str(amount)
    doc = {"comps": comps, "species": species, "params": params, "fundefs": fundefs, "inits": inits, "rules": rules,
           "rxns": rxns}
    if any(sp.get("fixed") for sp in species):
        # a boundary species may be imported as a parameter: the states keep the amount the document gives it
        try:
            spec = DocSpec(doc)
            for sp in species:
                if sp.get("fixed"):
                    a = _val(spec.init_amount(sp["id"]))
                    for st in states:
                        for x in st:
                            if x[0] == sp["id"]:
                                x[1] = a
        except (ZeroDivisionError, ValueError, OverflowError, RecursionError, KeyError):
            return gen_doc(rng, stratum=stratum)
    prev_doc = None
    if stratum == "rewrite":
        # the document that was at this path before: the same text but for one digit (same byte length), or an
        # unrelated document
        import copy

        prev_doc = copy.deepcopy(doc)
        digits = [pr for pr in prev_doc["params"] if pr[1] in ("0", "1", "2", "3", "7")]
        sdig = [sp for sp in prev_doc["species"] if sp["init"] in ("0", "1", "2", "3", "6")]
        if digits and rng.random() < 0.8:
            pr = rng.choice(digits)
            pr[1] = rng.choice([v for v in ("1", "2", "3", "5", "7") if v != pr[1]])
        elif sdig:
            sp = rng.choice(sdig)
            sp["init"] = rng.choice([v for v in ("1", "2", "3", "4", "6") if v != sp["init"]])
        else:
            prev_doc = gen_doc(rng, stratum="exact")["doc"]
    return {"kind": stratum, "doc": doc, "states": states, "watch": [r[0] for r in rules], "finding": finding,
            "prev_doc": prev_doc, "keep_mtime": rng.random() < 0.7, "raw": raw, "stem": rng.choice(["model", "Model-A", "my model", "m.v2", "BIOMD0000000012", "x_y"])}


# ---------------------------------------------------------------------------------------------- oracle S


class DocSpec:
    """order-free reading of a document description (floats)"""

    def __init__(self, doc):
        self.d = doc
        self.comp = {c: float(Fraction(v)) for c, v in doc["comps"]}
        self.sp = {s["id"]: s for s in doc["species"]}
        self.par = dict(doc["params"])
        self.fd = {f["id"]: f for f in doc["fundefs"]}
        self.init_math = dict(doc["inits"])
        self.rule = {}
        for k, m in doc["rules"]:
            self.rule[k] = m
        self.rx = {r["id"]: r for r in doc["rxns"]}

    # -- math
    def ev(self, m, env, loc=None):
        t = m[0]
        if t == "ci":
            if loc is not None and m[1] in loc:
                return loc[m[1]]
            return env(m[1])
        if t == "cn":
            return float(Fraction(m[1]))
        if t == "csym":
            return {"pi": math.pi, "e": math.e, "true": True, "false": False}[m[1]]
        if t == "call":
            f = self.fd[m[1]]
            args = [self.ev(a, env, loc) for a in m[2]]
            return self.ev(f["body"], env, dict(zip(f["params"], args)))
        kids = m[1]
        if t == "AST_FUNCTION_PIECEWISE":
            i = 0
            while i + 1 < len(kids):
                if self.ev(kids[i + 1], env, loc):
                    return self.ev(kids[i], env, loc)
                i += 2
            return self.ev(kids[-1], env, loc)
        if t == "AST_LOGICAL_AND":
            return all(self.ev(k, env, loc) for k in kids)
        if t == "AST_LOGICAL_OR":
            return any(self.ev(k, env, loc) for k in kids)
        if t == "AST_LOGICAL_XOR":
            return sum(1 for k in kids if self.ev(k, env, loc)) % 2 == 1
        xs = [self.ev(k, env, loc) for k in kids]
        if t == "AST_LOGICAL_NOT":
            return not xs[0]
        xs = [float(x) for x in xs]
        if t == "AST_PLUS":
            return sum(xs)
        if t == "AST_TIMES":
            return math.prod(xs)
        if t == "AST_MINUS":
            return -xs[0] if len(xs) == 1 else xs[0] - xs[1]
        if t == "AST_DIVIDE":
            return xs[0] / xs[1]
        if t in ("AST_POWER", "AST_FUNCTION_POWER"):
            return xs[0] ** xs[1]
        if t == "AST_FUNCTION_ABS":
            return abs(xs[0])
        if t == "AST_FUNCTION_CEILING":
            return float(math.ceil(xs[0]))
        if t == "AST_FUNCTION_FLOOR":
            return float(math.floor(xs[0]))
        if t == "AST_FUNCTION_MAX":
            return max(xs)
        if t == "AST_FUNCTION_MIN":
            return min(xs)
        if t == "AST_FUNCTION_QUOTIENT":
            return float(math.floor(xs[0] / xs[1]))
        if t == "AST_FUNCTION_REM":
            return xs[0] - xs[1] * math.floor(xs[0] / xs[1])
        if t == "AST_FUNCTION_ROOT":
            return math.sqrt(xs[-1]) if len(xs) == 1 or xs[0] == 2 else xs[1] ** (1 / xs[0])
        if t == "AST_FUNCTION_LN":
            return math.log(xs[0])
        if t == "AST_FUNCTION_LOG":
            return math.log10(xs[-1]) if len(xs) == 1 or xs[0] == 10 else math.log(xs[1], xs[0])
        if t == "AST_FUNCTION_EXP":
            return math.exp(xs[0])
        if t.startswith("AST_RELATIONAL_"):
            op = {"LT": lambda a, b: a < b, "LEQ": lambda a, b: a <= b, "GT": lambda a, b: a > b,
                  "GEQ": lambda a, b: a >= b, "EQ": lambda a, b: a == b, "NEQ": lambda a, b: a != b}[t[15:]]
            return all(op(a, b) for a, b in zip(xs, xs[1:]))
        fn = {"AST_FUNCTION_SIN": math.sin, "AST_FUNCTION_COS": math.cos, "AST_FUNCTION_TANH": math.tanh,
              "AST_FUNCTION_ARCTAN": math.atan}[t]
        return fn(xs[0])

    # -- symbols
    def V(self, sid):
        return self.comp[self.sp[sid]["comp"]]

    def sym_of_amount(self, sid, a):
        return a if self.sp[sid]["hosu"] else a / self.V(sid)

    def amount_of_sym(self, sid, x):
        return x if self.sp[sid]["hosu"] else x * self.V(sid)

    def init_sym(self, n, depth=0):
        """value of symbol n at t = 0"""
        if depth > 50:
            raise RecursionError
        env = lambda k: self.init_sym(k, depth + 1)  # noqa: E731
        if n in self.init_math:
            return float(self.ev(self.init_math[n], env))
        if n in self.sp:
            s = self.sp[n]
            a = float(Fraction(s["init"]))
            amount = a if s["isAmount"] else a * self.V(n)
            return self.sym_of_amount(n, amount)
        if n in self.comp:
            return self.comp[n]
        if n in self.rule:
            return float(self.ev(self.rule[n], env))
        if n in self.par and self.par[n] is not None:
            return float(Fraction(self.par[n]))
        if n in self.rx:
            return float(self.ev(self.rx[n]["law"], env))
        raise KeyError(n)

    def init_amount(self, sid):
        return self.amount_of_sym(sid, self.init_sym(sid))

    def value(self, n, amounts, depth=0):
        if depth > 50:
            raise RecursionError
        env = lambda k: self.value(k, amounts, depth + 1)  # noqa: E731
        if n in amounts:
            return self.sym_of_amount(n, amounts[n])
        if n in self.comp:
            return self.comp[n]
        if n in self.rule:
            return float(self.ev(self.rule[n], env))
        if n in self.par:
            return self.init_sym(n)
        if n in self.rx:
            return float(self.ev(self.rx[n]["law"], env))
        raise KeyError(n)

    def coef(self, ref, amounts):
        _, st, rid = ref
        if rid is not None and rid in self.rule:
            return self.value(rid, amounts)
        return float(Fraction(st))

    def rhs(self, sid, amounts):
        if self.sp[sid].get("fixed"):
            return 0.0  # boundaryCondition / constant: reactions do not change it
        tot = 0.0
        for r in self.d["rxns"]:
            net = sum(self.coef(x, amounts) for x in r["products"] if x[0] == sid) - sum(
                self.coef(x, amounts) for x in r["reactants"] if x[0] == sid)
            if net != 0:
                tot += net * self.value(r["id"], amounts)
        return tot

    def numbers(self, states, watch):
        out = {"init": {}, "at": []}
        for s in self.sp:
            out["init"][s] = _val(self.init_amount(s))
        for p in self.par:
            if p not in self.rule:
                out["init"][p] = _val(self.init_sym(p))
        for st in states:
            am = {k: float(Fraction(v)) for k, v in st}
            out["at"].append({"vals": {w: _val(self.value(w, am)) for w in watch},
                              "rhs": {s: _val(self.rhs(s, am)) for s in self.sp}})
        return out


# ---------------------------------------------------------------------------------------------- writing documents


def to_ast(m):
    import libsbml

    t = m[0]
    if t == "ci":
        n = libsbml.ASTNode(libsbml.AST_NAME)
        n.setName(m[1])
        return n
    if t == "cn":
        q = Fraction(m[1])
        if q.denominator == 1:
            n = libsbml.ASTNode(libsbml.AST_INTEGER)
            n.setValue(int(q))
        else:
            n = libsbml.ASTNode(libsbml.AST_REAL)
            n.setValue(float(q))
        return n
    if t == "csym":
        return libsbml.ASTNode({"pi": libsbml.AST_CONSTANT_PI, "e": libsbml.AST_CONSTANT_E,
                                "true": libsbml.AST_CONSTANT_TRUE, "false": libsbml.AST_CONSTANT_FALSE}[m[1]])
    if t == "call":
        n = libsbml.ASTNode(libsbml.AST_FUNCTION)
        n.setName(m[1])
        for a in m[2]:
            n.addChild(to_ast(a))
        return n
    n = libsbml.ASTNode(getattr(libsbml, t))
    for a in m[1]:
        n.addChild(to_ast(a))
    return n


def write_doc(doc, path: Path, raw=None):
    import libsbml

    d = libsbml.SBMLDocument(libsbml.SBMLNamespaces(3, 2))
    m = d.createModel()
    m.setId("generated")

    def ok(rc):
        if rc != libsbml.LIBSBML_OPERATION_SUCCESS:
            raise RuntimeError(f"harness: libsbml refused an element ({rc})")

    for cid, size in doc["comps"]:
        c = m.createCompartment()
        ok(c.setId(cid))
        c.setSize(float(Fraction(size)))
        c.setConstant(True)
        c.setSpatialDimensions(3)
    for s in doc["species"]:
        sp = m.createSpecies()
        ok(sp.setId(s["id"]))
        sp.setCompartment(s["comp"])
        sp.setConstant(False)
        sp.setBoundaryCondition(bool(s.get("fixed")))
        sp.setHasOnlySubstanceUnits(s["hosu"])
        if s["init"] is not None:
            (sp.setInitialAmount if s["isAmount"] else sp.setInitialConcentration)(float(Fraction(s["init"])))
    ruled = {k for k, _ in doc["rules"]}
    for pid, val in doc["params"]:
        p = m.createParameter()
        ok(p.setId(pid))
        p.setConstant(pid not in ruled)
        if val is not None:
            p.setValue(float(Fraction(val)))
    for f in doc["fundefs"]:
        fd = m.createFunctionDefinition()
        ok(fd.setId(f["id"]))
        lam = libsbml.ASTNode(libsbml.AST_LAMBDA)
        for p in f["params"]:
            lam.addChild(to_ast(["ci", p]))
        lam.addChild(to_ast(f["body"]))
        ok(fd.setMath(lam))
    for sym, mm in doc["inits"]:
        ia = m.createInitialAssignment()
        ok(ia.setSymbol(sym))
        ok(ia.setMath(to_ast(mm)))
    for var, mm in doc["rules"]:
        ar = m.createAssignmentRule()
        ok(ar.setVariable(var))
        ok(ar.setMath(to_ast(mm)))
    for r in doc["rxns"]:
        rx = m.createReaction()
        ok(rx.setId(r["id"]))
        rx.setReversible(False)
        for lst, mk in ((r["reactants"], rx.createReactant), (r["products"], rx.createProduct)):
            for sp, st, sid in lst:
                sr = mk()
                sr.setSpecies(sp)
                sr.setConstant(sid is None)
                if st is not None:
                    sr.setStoichiometry(float(Fraction(st)))
                if sid is not None:
                    ok(sr.setId(sid))
        ok(rx.createKineticLaw().setMath(to_ast(r["law"])))
    path.parent.mkdir(parents=True, exist_ok=True)
    if not libsbml.writeSBMLToFile(d, str(path)):
        raise RuntimeError("harness: cannot write document")
    if raw:
        text = path.read_text()
        for pid, (short, full) in raw.items():
            old = f'<parameter id="{pid}" value="{short}"'
            if text.count(old) != 1:
                raise RuntimeError(f"harness: cannot patch the literal of {pid}")
            text = text.replace(old, f'<parameter id="{pid}" value="{full}"')
        path.write_text(text)


# ---------------------------------------------------------------------------------------------- real code

_counter = itertools.count()


def eval_imported(m, case, imp):
    """numbers of the imported model in amounts, keyed by the document's ids"""
    doc = case["doc"]
    comp = {c: float(Fraction(v)) for c, v in doc["comps"]}
    names = set(m.get_variable_names())
    a0 = m.get_args()
    all_names = set(a0.index)
    conc_repr = {}
    for s in doc["species"]:
        n = imp.get(s["id"], s["id"])
        # `<n>_amount` next to it: <n> is the concentration; `<n>_conc` next to it: <n> is the amount; no companion (a
        # constant species kept as a parameter): <n> is what the identifier means in math
        conc_repr[s["id"]] = f"{n}_amount" in all_names or (f"{n}_conc" not in all_names and not s["hosu"])
    out = {"init": {}, "at": [], "missing": []}
    ic = m.get_initial_conditions()
    for s in doc["species"]:
        n = imp.get(s["id"], s["id"])
        if n not in names:
            if s.get("fixed") and n in all_names:
                # a boundary / constant species may come back as a parameter (or a quantity derived from one)
                v = float(a0[n])
                out["init"][s["id"]] = _val(v * comp[s["comp"]] if conc_repr[s["id"]] else v)
                continue
            out["missing"].append(s["id"])
            continue
        v = float(ic[n])
        out["init"][s["id"]] = _val(v * comp[s["comp"]] if conc_repr[s["id"]] else v)
    ruled = {k for k, _ in doc["rules"]}
    for p, _ in doc["params"]:
        if p in ruled:
            continue
        n = imp.get(p, p)
        if n not in all_names:
            out["missing"].append(p)
            continue
        out["init"][p] = _val(a0[n])
    # a parameter nothing changes may come back as a state variable with derivative 0 (pysbml does that for
    # constant="false"): it keeps its initial value in every state, and its derivative is checked to be 0
    extra = {imp.get(p, p): p for p, _ in doc["params"] if imp.get(p, p) in names}
    for st in case["states"]:
        vs = {n: float(ic[n]) for n in extra}
        for sid, a in st:
            n = imp.get(sid, sid)
            s = next(x for x in doc["species"] if x["id"] == sid)
            if n not in names:
                continue  # a fixed species that is no state variable: the states keep its initial amount
            a = float(Fraction(a))
            vs[n] = a / comp[s["comp"]] if conc_repr[sid] else a
        args = m.get_args(variables=vs)
        rhs = m.get_right_hand_side(variables=vs)
        for n, p in extra.items():
            if float(rhs[n]) != 0.0 and f"{p}:derivative" not in out["missing"]:
                out["missing"].append(f"{p}:derivative")
        vals = {}
        for w in case["watch"]:
            n = imp.get(w, w)
            vals[w] = _val(args[n]) if n in args.index else None
        rr = {}
        for s in doc["species"]:
            n = imp.get(s["id"], s["id"])
            if n in rhs.index:
                v = float(rhs[n])
                rr[s["id"]] = _val(v * comp[s["comp"]] if conc_repr[s["id"]] else v)
            elif s.get("fixed") and n in all_names:
                rr[s["id"]] = "0"  # not a state variable: constant
            else:
                rr[s["id"]] = None
        out["at"].append({"vals": vals, "rhs": rr})
    return out


def source_consistent(m) -> bool:
    """the source the model's functions report (inspect.getsource: what export / code generation read) still
    defines those functions"""
    import scipy  # noqa: F401

    for comp in list(m.get_raw_reactions().values()) + list(m.get_raw_derived().values()):
        fn = comp.fn
        try:
            src = inspect.getsource(fn)
        except (OSError, TypeError):
            return False
        ns: dict = {"math": math, "scipy": sys.modules.get("scipy")}
        try:
            exec(compile(src, "<c17-src>", "exec"), ns)  # noqa: S102
        except Exception:  # noqa: BLE001
            return False
        g = ns.get(fn.__name__)
        if g is None:
            return False
        n = fn.__code__.co_argcount
        if g.__code__.co_argcount != n:
            return False
        for base in (1.5, 2.25):
            args = [base + 0.5 * i for i in range(n)]
            try:
                a = fn(*args)
            except Exception:  # noqa: BLE001
                continue
            try:
                b = g(*args)
            except Exception:  # noqa: BLE001
                return False
            if not (a == b or (a != a and b != b)):
                return False
    return True


def _cleanup(paths, prefixes):
    from mxlpy.paths import default_tmp_dir

    gen = default_tmp_dir(None, remove_old_cache=False)
    for p in paths:
        try:
            p.unlink()
        except OSError:
            pass
    for pre in prefixes:
        for p in gen.glob(f"{pre}*.py"):
            try:
                p.unlink()
            except OSError:
                pass
        for k in [k for k in sys.modules if k.startswith(pre)]:
            sys.modules.pop(k, None)


def _observe_read(m, path):
    """(stem, digest of the file's bytes, sha1 of the module text), module name — None for a model without functions"""
    import hashlib

    fns = [c.fn for c in list(m.get_raw_reactions().values()) + list(m.get_raw_derived().values())]
    if not fns:
        return None
    mod = fns[0].__module__
    text = Path(sys.modules[mod].__file__).read_text()
    return [path.stem, hashlib.sha256(path.read_bytes()).hexdigest()[:DIGEST_LEN[0]], hashlib.sha1(text.encode()).hexdigest()], mod


def real_worker(job):
    import warnings

    warnings.filterwarnings("ignore")
    import logging

    logging.disable(logging.WARNING)
    from mxlpy import sbml

    case, imp = job
    wid = f"{os.getpid()}_{next(_counter)}"
    path = SCRATCH / wid / f"c17w{wid} {case['stem']}.xml"
    out: dict = {}
    try:
        if case.get("prev_doc") is not None:
            # the path has been read before in this process, holding another document; the new file may keep
            # the old time stamp (copy with preserved times, archive extraction, same clock second)
            write_doc(case["prev_doc"], path)
            st = path.stat()
            try:
                mprev = sbml.read(path)
                out_prev = _observe_read(mprev, path)
            except Exception:  # noqa: BLE001
                out_prev = None
            write_doc(case["doc"], path, case.get("raw"))
            if case.get("keep_mtime"):
                os.utime(path, ns=(st.st_atime_ns, st.st_mtime_ns))
        elif case.get("xml_path"):
            # a document of the SBML test suite: the original text is what the importer reads
            path.parent.mkdir(parents=True, exist_ok=True)
            shutil.copyfile(case["xml_path"], path)
        else:
            write_doc(case["doc"], path, case.get("raw"))
        try:
            m = sbml.read(path)
        except Exception as e:  # noqa: BLE001
            return {"err": "import:" + type(e).__name__, "msg": str(e)[:200]}
        try:
            out = eval_imported(m, case, imp)
            fns = [c.fn for c in list(m.get_raw_reactions().values()) + list(m.get_raw_derived().values())]
            out["module"] = fns[0].__module__ if fns else None
            out["stem"] = path.stem
            if case.get("prev_doc") is not None and fns and out_prev is not None:
                # what the session model speaks about: the two reads of this path (stem, digest, code), the module names
                now = _observe_read(m, path)
                if now is not None:
                    out["session"] = {"reads": [out_prev[0], now[0]], "modules": [out_prev[1], now[1]]}
        except Exception as e:  # noqa: BLE001
            return {"err": "eval:" + type(e).__name__, "msg": str(e)[:200]}
        try:
            # mxlpy's own stage: pysbml's transformed model (its input) and the module it wrote (its output)
            if fns:
                module_file = sys.modules[fns[0].__module__].__file__
            else:
                from mxlpy.paths import default_tmp_dir

                module_file = max(default_tmp_dir(None, remove_old_cache=False).glob(f"mb_c17w{wid}_*.py"),
                                  key=lambda p: p.stat().st_mtime_ns)
            pmodel, mod = c17gen.glue_observation(path, module_file)
            out["glue"] = {"pmodel": pmodel, "module": mod}
        except Exception as e:  # noqa: BLE001
            out["glue_err"] = f"{type(e).__name__}: {str(e)[:200]}"
        return out
    finally:
        _cleanup([path], [f"mb_c17w{wid}"])
        shutil.rmtree(path.parent, ignore_errors=True)


#: number of hex digits of the content digest in the module name (read from the source by translate/c17.py in setup)
DIGEST_LEN = [12]


def pair_worker(job):
    """two documents whose stems normalise alike, one session: A, then B, then A again"""
    import warnings

    warnings.filterwarnings("ignore")
    import logging

    logging.disable(logging.WARNING)
    from mxlpy import sbml

    (ca, cb), (ia, ib) = job
    wid = f"{os.getpid()}_{next(_counter)}"
    stem_a, stem_b = ca["pair_stems"]
    pa = SCRATCH / f"{wid}a" / f"c17p{wid}{stem_a}.xml"
    pb = SCRATCH / f"{wid}b" / f"c17p{wid}{stem_b}.xml"
    try:
        write_doc(ca["doc"], pa)
        write_doc(cb["doc"], pb)
        try:
            import hashlib

            def observed(m, p):
                """what the session model speaks about: stem, digest of the bytes, module name, text of the module file"""
                mod = next(iter(m.get_raw_reactions().values())).fn.__module__
                text = Path(sys.modules[mod].__file__).read_text()
                return [p.stem, hashlib.sha256(p.read_bytes()).hexdigest()[:DIGEST_LEN[0]], hashlib.sha1(text.encode()).hexdigest()], mod

            ma = sbml.read(pa)
            first = eval_imported(ma, ca, ia)
            sa, mod_a = observed(ma, pa)
            mb = sbml.read(pb)
            b = eval_imported(mb, cb, ib)
            sb, mod_b = observed(mb, pb)
            again = eval_imported(ma, ca, ia)
            file_a_now = hashlib.sha1(Path(sys.modules[mod_a].__file__).read_text().encode()).hexdigest()
            return {"a": first, "b": b, "a_again": again, "a_source_ok": source_consistent(ma),
                    "b_source_ok": source_consistent(mb),
                    "modules": [mod_a, mod_b], "session": [sa, sb], "a_file_intact": file_a_now == sa[2],
                    "stems": [pa.stem, pb.stem]}
        except Exception as e:  # noqa: BLE001
            return {"err": type(e).__name__, "msg": str(e)[:200]}
    finally:
        _cleanup([pa, pb], [f"mb_c17p{wid}"])
        shutil.rmtree(pa.parent, ignore_errors=True)
        shutil.rmtree(pb.parent, ignore_errors=True)


_pool = None


def pool():
    global _pool
    if _pool is None:
        _pool = mp.get_context("fork").Pool(min(16, os.cpu_count() or 4))
    return _pool


# ---------------------------------------------------------------------------------------------- comparison


def close17(a, b, tight: bool) -> str:
    """'exact' | 'close' | 'diff'.  tight (strata without transcendental functions / general division): relative
    1e-12 with an absolute floor of 1e-15, so that small quantities (fine stoichiometries) are not waved through;
    otherwise the 1e-9 rule of C08"""
    if not tight:
        return close(a, b)
    if a == b:
        return "exact"
    if a is None or b is None:
        return "diff"
    try:
        x, y = float(Fraction(a)), float(Fraction(b))
    except (ValueError, ZeroDivisionError):
        return "diff"
    return "close" if abs(x - y) <= max(1e-15, 1e-12 * max(abs(x), abs(y))) else "diff"


def snap(numbers, ref, stats=None, fill_none=False, exact_init=(), tight=False):
    """numbers within tolerance of `ref` (same shape) are replaced by ref's strings
    (`exact_init`: names whose initial value must be the very same double — the attribute values the
    `digits` stratum wrote; values COMPUTED from them go through float arithmetic and are compared to tolerance)"""
    def one(v, r, exact=False):
        if exact and v is not None and r is not None:
            return v
        if v is None and fill_none:
            return r
        if v is None or r is None:
            return v
        c = close17(v, r, tight)
        if stats is not None:
            stats[c] = stats.get(c, 0) + 1
        return r if c != "diff" else v

    out = {"init": {k: one(numbers["init"].get(k), r, k in exact_init) for k, r in ref["init"].items()}, "at": []}
    for a, ra in zip(numbers["at"], ref["at"]):
        out["at"].append({"vals": {k: one(a["vals"].get(k), r) for k, r in ra["vals"].items()},
                          "rhs": {k: one(a["rhs"].get(k), r) for k, r in ra["rhs"].items()}})
    return out


def lean_numbers(j):
    return {"init": {k: lean_val(v) for k, v in j["init"]},
            "at": [{"vals": {k: lean_val(v) for k, v in a["vals"]}, "rhs": {k: lean_val(v) for k, v in a["rhs"]}}
                   for a in j["at"]]}


def spec_numbers(case):
    return DocSpec(case["doc"]).numbers(case["states"], case["watch"])


def judge_doc(ctx, case, R, M, S=None, what="imported model differs from the document"):
    small = {k: case.get(k) for k in ("kind", "doc", "states", "watch", "finding", "stem", "raw", "prev_doc", "keep_mtime")}
    if case.get("xml_path"):
        small["xml_path"], small["suite"] = case["xml_path"], case.get("suite")
    S = S or spec_numbers(case)
    stats: dict = {}
    if M is not None:
        Mv = snap(lean_numbers(M), S, stats, fill_none=True)
        if json.dumps(Mv, sort_keys=True) != json.dumps(S, sort_keys=True):
            ctx.add_drift(small, S, Mv, "Lean document semantics differs from the Python reading of the document")
    if "err" in R:
        Rv = {"err": R["err"]}
    elif R.get("missing"):
        Rv = {"missing": R["missing"]}
    else:
        # exact only for parameters that carry one of the long literals and are not overridden by an assignment
        assigned = {k for k, _ in case["doc"].get("inits", [])} | {k for k, _ in case["doc"].get("rules", [])}
        exact = set(case.get("raw") or {}) - assigned if case["kind"] == "digits" else ()
        Rv = snap(R, S, stats, exact_init=exact, tight=case["kind"] not in ("float", "digits", "mixed", "suite", "selfapply"))
    for k, v in stats.items():
        ctx.hist[f"numbers {k}"] = ctx.hist.get(f"numbers {k}", 0) + v
    finding = case["finding"]
    if finding is None and Rv == {"err": "import:AttributeError"} and _uses(case["doc"], "AST_LOGICAL_XOR") \
            and _uses(case["doc"], "AST_FUNCTION_PIECEWISE"):
        finding = "F-C17-8"  # sympy: 'Xor' object has no attribute '_eval_as_set' (piecewise terms under an xor condition)
    if finding is None and Rv == {"err": "import:TypeError"} and bool_as_number(case["doc"]):
        finding = "F-C17-11"  # sympy: BooleanAtom not allowed in this context (suite case 01288)
    return ctx.judge(small, Rv, S, None, finding=finding, what=what)


def doc_constructs(doc) -> list[str]:
    """SBML constructs a document uses (what the generator / the suite sample reaches; printed into the evidence)"""
    c = set()
    if len(doc["comps"]) > 1:
        c.add("several compartments")
    if any(Fraction(v) != 1 for _, v in doc["comps"]):
        c.add("compartment size != 1")
    for sp in doc["species"]:
        c.add("species " + ("amount" if sp["isAmount"] else "concentration") + (" hasOnlySubstanceUnits" if sp["hosu"] else ""))
        if sp["init"] is None:
            c.add("species without value attribute")
    sids = {sp["id"] for sp in doc["species"]}
    pids = {p for p, _ in doc["params"]}
    if doc["fundefs"]:
        c.add("function definition")
    if any(k in sids for k, _ in doc["inits"]):
        c.add("initial assignment on species")
    if any(k in pids for k, _ in doc["inits"]):
        c.add("initial assignment on parameter")
    if any(k in pids for k, _ in doc["rules"]):
        c.add("assignment rule on parameter")
    if any(k not in pids for k, _ in doc["rules"]):
        c.add("assignment rule on species reference")
    for r in doc["rxns"]:
        for x in r["reactants"] + r["products"]:
            if x[1] is not None and Fraction(x[1]).denominator != 1:
                c.add("fractional stoichiometry")
        if not r["reactants"] or not r["products"]:
            c.add("reaction with one side")
        if {x[0] for x in r["reactants"]} & {x[0] for x in r["products"]}:
            c.add("species on both sides")
    text = json.dumps([x for _, x in doc["inits"]] + [x for _, x in doc["rules"]] + [r["law"] for r in doc["rxns"]]
                      + [f["body"] for f in doc["fundefs"]])
    for node in sorted(c17suite.MATH_TYPES):
        if f'"{node}"' in text:
            c.add("math " + node[4:].lower())
    comp_ids = {k for k, _ in doc["comps"]}
    if any(_math_names(r["law"]) & comp_ids for r in doc["rxns"]):
        c.add("compartment in kinetic law")
    return sorted(c)


def _is_bool(m) -> bool:
    return (m[0] == "csym" and m[1] in ("true", "false")) or m[0].startswith("AST_RELATIONAL_") or m[0].startswith("AST_LOGICAL_")


def _bool_in_numeric(m, numeric: bool) -> bool:
    """a truth-valued node where a number is expected"""
    if m[0] in ("ci", "cn"):
        return False
    if _is_bool(m):
        if numeric:
            return True
        return m[0] != "csym" and any(_bool_in_numeric(k, m[0].startswith("AST_RELATIONAL_")) for k in m[1])
    if m[0] == "csym":
        return False
    if m[0] == "call":
        return any(_bool_in_numeric(k, True) for k in m[2])
    if m[0] == "AST_FUNCTION_PIECEWISE":
        kids = m[1]
        return any(_bool_in_numeric(k, not (i % 2 == 1 and i < len(kids) - (len(kids) % 2))) for i, k in enumerate(kids))
    return any(_bool_in_numeric(k, True) for k in m[1])


def bool_as_number(doc) -> bool:
    maths = [x for _, x in doc["inits"]] + [x for _, x in doc["rules"]] + [r["law"] for r in doc["rxns"]] + [
        f["body"] for f in doc["fundefs"]]
    return any(_bool_in_numeric(x, True) for x in maths)


def _uses(doc, node_type: str) -> bool:
    return f'"{node_type}"' in json.dumps(doc)


# ---------------------------------------------------------------------------------------------- shrinking


def _calls(m):
    if m[0] == "call":
        yield m[1]
        for a in m[2]:
            yield from _calls(a)
    elif m[0] not in ("ci", "cn", "csym"):
        for a in m[1]:
            yield from _calls(a)


def _num_kids(m):
    t = m[0]
    if t in ("ci", "cn", "csym"):
        return []
    if t == "call":
        return list(m[2])
    if t == "AST_FUNCTION_PIECEWISE":
        return [k for i, k in enumerate(m[1]) if i % 2 == 0 or i == len(m[1]) - 1]
    if t.startswith("AST_RELATIONAL") or t.startswith("AST_LOGICAL"):
        return []
    return list(m[1])


def _candidates(case):
    import copy

    d = case["doc"]
    if len(case["states"]) > 1:
        c = copy.deepcopy(case)
        c["states"] = c["states"][:1]
        yield c
    for i in range(len(d["rxns"])):
        if len(d["rxns"]) > 1:
            c = copy.deepcopy(case)
            del c["doc"]["rxns"][i]
            yield c
    maths = [m for _, m in d["inits"]] + [m for _, m in d["rules"]] + [r["law"] for r in d["rxns"]] + [
        f["body"] for f in d["fundefs"]]
    used = {n for m in maths for n in math_names(m)}
    used |= {x[2] for r in d["rxns"] for x in r["reactants"] + r["products"] if x[2]}
    called = {f for m in maths for f in _calls(m)}
    for i, (v, _) in enumerate(d["rules"]):
        if v not in used:
            c = copy.deepcopy(case)
            del c["doc"]["rules"][i]
            c["doc"]["params"] = [p for p in c["doc"]["params"] if p[0] != v]
            c["watch"] = [w for w in c["watch"] if w != v]
            yield c
    for i, f in enumerate(d["fundefs"]):
        if f["id"] not in called:
            c = copy.deepcopy(case)
            del c["doc"]["fundefs"][i]
            yield c
    for i in range(len(d["inits"])):
        c = copy.deepcopy(case)
        sym = c["doc"]["inits"][i][0]
        del c["doc"]["inits"][i]
        for sp in c["doc"]["species"]:
            if sp["id"] == sym and sp["init"] is None:
                sp["init"] = "1"
        c["doc"]["params"] = [[p, ("1" if p == sym and v is None else v)] for p, v in c["doc"]["params"]]
        yield c
    for i, r in enumerate(d["rxns"]):
        for kid in _num_kids(r["law"]):
            c = copy.deepcopy(case)
            c["doc"]["rxns"][i]["law"] = kid
            yield c
    for i, (_, m) in enumerate(d["rules"]):
        for kid in _num_kids(m):
            c = copy.deepcopy(case)
            c["doc"]["rules"][i][1] = kid
            yield c


def shrink(ctx, viol, budget: int = 40):
    from vlib.framework import Ctx

    case, what = viol["case"], viol.get("what")
    if "doc" not in case:
        return viol
    spent, progress = 0, True
    while progress and spent < budget:
        progress = False
        for cand in _candidates(case):
            if spent >= budget:
                break
            spent += 1
            try:
                M = lean_docs(ctx, [cand])[0]
                R = real_worker((cand, dict(M["names"]) if M else {}))
                probe = Ctx(ctx.prop, ctx.tier, ctx.seed)
                probe.known, probe.fixed = ctx.known, ctx.fixed
                judge_doc(probe, cand, R, M)
            except Exception:  # noqa: BLE001
                continue
            hit = [v for v in probe.violations if v.get("what") == what]
            if hit:
                case, viol = hit[0]["case"], hit[0]
                progress = True
                break
    return viol


# ---------------------------------------------------------------------------------------------- run


def suite_cases(ctx):
    """stratum `suite`: files of the SBML semantic test suite shipped with the repo that lie inside the document subset
    (quick: a seeded sample, thorough: all of them); the reasons why the other files are outside go into the evidence"""
    inside, why = c17suite.classify()
    for k, v in why.items():
        ctx.hist[f"suite outside: {k}"] = v
    ctx.hist["suite inside"] = len(inside)
    if not inside:
        return []
    pick = inside if ctx.n(0, 1) else ctx.rng.sample(inside, min(40, len(inside)))
    out = []
    for n, f, doc in pick:
        comp_ids = {c for c, _ in doc["comps"]}
        amount_typed = any(sp["isAmount"] and not sp["hosu"] for sp in doc["species"])
        law_names = set()
        for r in doc["rxns"]:
            law_names |= _math_names(r["law"])
        try:
            spec = DocSpec(doc)
            fixed_amounts = {sp["id"]: _val(spec.init_amount(sp["id"])) for sp in doc["species"] if sp.get("fixed")}
        except Exception:  # noqa: BLE001  (the document does not evaluate at t = 0: division by zero, ...)
            ctx.hist["suite outside: initial state not evaluable"] = ctx.hist.get("suite outside: initial state not evaluable", 0) + 1
            continue
        out.append({"kind": "suite", "doc": doc, "states": c17suite.states_for(doc, ctx.rng, fixed_amounts), "watch": [r[0] for r in doc["rules"]],
                    # third party, known: the compartment symbol in the law of an amount-typed species (F-C17-4)
                    "finding": "F-C17-4" if amount_typed and (law_names & comp_ids) else None,
                    "prev_doc": None, "keep_mtime": False, "raw": None, "stem": f"case{n:05d}", "xml_path": str(f), "suite": n})
    return out


def _math_names(m) -> set:
    if m[0] == "ci":
        return {m[1]}
    if m[0] in ("cn", "csym"):
        return set()
    out = set()
    for k in (m[2] if m[0] == "call" else m[1]):
        out |= _math_names(k)
    return out


def lean_docs(ctx, cases):
    if not ctx.driver_ok:
        return [None] * len(cases)
    return driver.call_batch([{"op": "c17", "doc": c["doc"], "states": c["states"], "watch": c["watch"]} for c in cases])


def check_sessions(ctx, cases, Rs):
    """stratum `rewrite`: the two reads of one path against `readAll` — module names, and the file of the second module
    holds the second document's code"""
    todo = [(c, R["session"]) for c, R in zip(cases, Rs) if isinstance(R, dict) and "session" in R]
    if not todo or not ctx.driver_ok:
        return
    Ms = driver.call_batch([{"op": "c17", "session": s_["reads"]} for _, s_ in todo])
    for (c, s_), ms in zip(todo, Ms):
        ctx.hist["session checks (rewrite)"] = ctx.hist.get("session checks (rewrite)", 0) + 1
        if ms["handles"] != s_["modules"] or ms["module_names"] != s_["modules"] or not ms["intact"][1][0]:
            ctx.add_drift({k: c.get(k) for k in ("kind", "doc", "prev_doc", "states", "watch", "stem", "keep_mtime")},
                          s_, ms, "two reads of one path: module names / file of the second module differ from readAll")


def check_glue(ctx, cases, Rs):
    """mxlpy's own stage on every imported document: `genModule (importSym <pysbml model>)` against the module text"""
    # (stratum `shadow` included: the names each printed body calls travel with the abstraction, `shadowRename` gives the
    #  parameter names of the written functions)
    todo = [(c, R["glue"]) for c, R in zip(cases, Rs) if "glue" in R]
    for c, R in zip(cases, Rs):
        if "glue_err" in R:
            ctx.violation({k: c.get(k) for k in ("kind", "doc", "states", "watch", "stem", "raw", "finding")}, R["glue_err"],
                          "the module written by sbml.read could not be read back as a chain of add_* calls")
    Ms = driver.call_batch([{"op": "c17", "pmodel": g["pmodel"]} for _, g in todo]) if ctx.driver_ok else [None] * len(todo)
    for (c, g), M in zip(todo, Ms):
        c17gen.judge_glue(ctx, {k: c.get(k) for k in ("doc", "states", "watch", "stem", "raw")}, g, M)


def check_free_name(ctx):
    """`_free_name` against `freeName`"""
    try:
        from mxlpy.meta.codegen_mxlpy import _free_name
    except ImportError:
        ctx.notes.append("mxlpy.meta.codegen_mxlpy._free_name not present: naming stage not tied")
        return
    cases = []
    for _ in range(ctx.n(80, 800)):
        pool_ = ["init_a", "init_a_", "init_a__", "a", "r_stoich_x", "r_stoich_x_", "b"]
        taken = ctx.rng.sample(pool_, ctx.rng.choice([0, 1, 2, 3, 4]))
        cases.append([ctx.rng.choice(pool_[:2] + pool_[3:5]), taken])
    Ms = driver.call_batch([{"op": "c17", "free": c} for c in cases]) if ctx.driver_ok else [None] * len(cases)
    for c, M in zip(cases, Ms):
        R = _free_name(c[0], set(c[1]))
        ctx.count({"free": c}, "free_name", True)
        # S: the name itself if free, else the name plus underscores, never a taken one
        if R in c[1] or not R.startswith(c[0]) or set(R[len(c[0]):]) - {"_"} or (c[0] not in c[1] and R != c[0]):
            ctx.violation({"free": c}, R, "_free_name returned a taken or foreign name")
        if M is not None and M["name"] != R:
            ctx.add_drift({"free": c}, R, M, "freeName model differs from _free_name")


def check_stems(ctx):
    from mxlpy.sbml._import import valid_filename

    stems = ["model", "Model-A", "my model", "m.v2", "x_y", "A", "a", "m-1", "m 1", "m--  1", "-lead", "trail_", "a.b",
             "ab", "UPPER_lower", "t\tab", "q__r", "_", "x(1)", "p+q"]
    for _ in range(ctx.n(40, 400)):
        stems.append("".join(ctx.rng.choice("abAB_- .1(") for _ in range(ctx.rng.choice([1, 2, 3, 5, 8]))))
    M = driver.call_batch([{"op": "c17", "stems": stems}])[0] if ctx.driver_ok else None
    for i, s in enumerate(stems):
        R = valid_filename(s)
        ctx.count({"stem": s}, "stem", True)
        if M is not None and "mb_" + M["norm"][i] != R:
            ctx.add_drift({"stem": s}, R, "mb_" + M["norm"][i], "normStem differs from valid_filename")


def setup(ctx):
    ctx.build(PROPS)
    try:
        from translate import c17 as tr
        from vlib.framework import REPO

        DIGEST_LEN[0] = tr.session_facts(REPO)["digest_len"]
    except Exception:  # noqa: BLE001  (a refusing translator has already broken the proof side in ctx.build)
        pass
    ctx.rule = (
        "generated SBML L3v2 documents (1-2 constant compartments of size 1, 2, 1/2, 4; 1-3 species given as amount or "
        "concentration, with or without hasOnlySubstanceUnits; parameters constant / rule-defined / with initial "
        "assignment; 0-2 function definitions, the second may call the first; reactions with constant, fractional and "
        "rule-defined stoichiometry; kinetic laws over + - * / power piecewise n-ary relational and/or/not abs ceiling "
        "floor min max quotient rem, and in the float stratum root ln log exp sin cos tanh arctan pi e; ids incl. "
        "Python keywords, leading underscores, case variants) written with libsbml and read with sbml.read; 3 states; "
        "pairs of documents with equal normalised stems in one session; distinct = distinct (document, states); "
        "non-trivial = import succeeded"
    )
    ctx.assumptions += [
        "parsing and the MathML -> sympy transformation are the third-party pysbml package: exercised, not modelled",
        "numbers compared exactly where double arithmetic is exact, 1e-9 relative otherwise",
        "fluxes are not compared (the importer rescales kinetic laws by compartment sizes); derivatives, rule values "
        "and initial values are",
        "events, rate rules, algebraic rules, non-constant compartments, boundary / constant species, units and "
        "conversion factors are outside the generated subset",
    ]


def strata(ctx):
    n = ctx.n(1, 32)
    return [("exact", 110 * n), ("float", 60 * n), ("keywords", 40 * n), ("initname", 15 * n), ("mixed", 15 * n),
            ("srefkw", 12 * n), ("compkw", 6 * n), ("digits", 12 * n), ("gennames", 24 * n), ("rewrite", 20 * n), ("gencollide", 24 * n), ("sparse", 12 * n), ("nearequal", 24 * n), ("idcollide", 6 * n), ("boolnum", 6 * n), ("boundary", 20 * n), ("shadow", 16 * n), ("selfapply", 9 * n)]


#: ids the generated module uses itself: builtins its function bodies call, modules they reach into
SHADOW_IDS = ["abs", "max", "min", "math"]
_shadow_turn, _shadow_turn2 = itertools.count(), itertools.count()
PAIR_STEMS = [("Model-1", "model 1"), ("A", "a"), ("m.v2", "mv2"), ("x", "x"), ("my  model", "my-model")]


def run(ctx):
    setup(ctx)
    shutil.rmtree(SCRATCH, ignore_errors=True)
    cases = [gen_doc(ctx.rng, stratum=s) for s, c in strata(ctx) for _ in range(c)]
    cases += suite_cases(ctx)
    for i in range(0, len(cases), 256):
        chunk = cases[i:i + 256]
        Ms = lean_docs(ctx, chunk)
        imps = [dict(m["names"]) if m is not None else {} for m in Ms]
        Rs = pool().map(real_worker, list(zip(chunk, imps)), chunksize=4)
        for case, R, M in zip(chunk, Rs, Ms):
            ctx.count({"doc": case["doc"], "states": case["states"]}, case["kind"], "err" not in R)
            for k in doc_constructs(case["doc"]):
                key = f"construct {'suite' if case['kind'] == 'suite' else 'generated'}: {k}"
                ctx.hist[key] = ctx.hist.get(key, 0) + 1
            judge_doc(ctx, case, R, M)
        check_sessions(ctx, chunk, Rs)
        check_glue(ctx, chunk, Rs)
        if len(ctx.violations) > 20:
            break
    # two documents, one session
    pairs = []
    for _ in range(ctx.n(24, 240)):
        a, b = gen_doc(ctx.rng, stratum="exact"), gen_doc(ctx.rng, stratum="exact")
        a["pair_stems"] = b["pair_stems"] = ctx.rng.choice(PAIR_STEMS)
        if ctx.rng.random() < 0.25:
            b = dict(a)  # the same content under the other stem / the same stem in another directory: same digest, same code
        pairs.append((a, b))
    Ma = lean_docs(ctx, [a for a, _ in pairs])
    Mb = lean_docs(ctx, [b for _, b in pairs])
    jobs = [((a, b), (dict(x["names"]) if x else {}, dict(y["names"]) if y else {})) for (a, b), x, y in zip(pairs, Ma, Mb)]
    for (a, b), R, ma_, mb_ in zip(pairs, pool().map(pair_worker, jobs, chunksize=2), Ma, Mb):
        case = {"kind": "pair", "a": {k: a[k] for k in ("doc", "states", "watch")},
                "b": {k: b[k] for k in ("doc", "states", "watch")}, "stems": a["pair_stems"]}
        ctx.count(case, "pair", "err" not in R)
        if "err" in R:
            ctx.violation(case, R, "reading two documents in one session failed")
            continue
        Sa, Sb = spec_numbers(a), spec_numbers(b)
        # digest naming (C17_session_digest_naming): stems that normalise alike share a module exactly when the content is the same
        same = a["doc"] == b["doc"]
        sub = ("same content, " if same else "different content, ") + ("same stem" if a["pair_stems"][0] == a["pair_stems"][1] else "stems normalise alike")
        ctx.hist[f"pair: {sub}"] = ctx.hist.get(f"pair: {sub}", 0) + 1
        S = {"a": Sa, "b": Sb, "a_again": Sa, "a_source_ok": True, "b_source_ok": True, "same_module": same}
        Rv = {"a": snap(R["a"], Sa), "b": snap(R["b"], Sb), "a_again": snap(R["a_again"], Sa),
              "a_source_ok": R["a_source_ok"], "b_source_ok": R["b_source_ok"],
              "same_module": R["modules"][0] == R["modules"][1]}
        # the Lean session model (Model/C17Session.lean) on what was observed: module names, and whether A's file is intact
        Mv = None
        if ctx.driver_ok:
            ms = driver.call_batch([{"op": "c17", "session": R["session"]}])[0]
            if ms["handles"] != R["modules"] or ms["module_names"] != R["modules"]:
                ctx.add_drift(case, R["modules"], ms["handles"], "module names of two reads differ from readAll's handles")
            if ms["intact"][0][0] != R["a_file_intact"]:
                ctx.add_drift(case, R["a_file_intact"], ms["intact"][0], "the file of the first model after the second read: session model differs")
            Mv = dict(Rv, a_source_ok=Rv["a_source_ok"] if ms["intact"][0][0] else False,
                      b_source_ok=Rv["b_source_ok"] if ms["intact"][1][0] else False,
                      same_module=ms["handles"][0] == ms["handles"][1])
        ctx.judge(case, Rv, S, Mv, what="a second document read in the same session interferes with the first model")
    check_stems(ctx)
    check_free_name(ctx)
    c17gen.check_codegen(ctx)
    docs = [v for v in ctx.violations if "case" in v and "doc" in v["case"]]
    if docs:
        from vlib.framework import canon

        v = min(docs, key=lambda v: len(canon(v)))
        small = shrink(ctx, v)
        if small is not v:
            ctx.violations.append(small)
            ctx.notes.append("failing input minimised by delta debugging")
    shutil.rmtree(SCRATCH, ignore_errors=True)
    if not ctx.proof_ok or ctx.drift:
        ctx.notes.append("proof/correspondence broken: the run above is the failing-input search")


def replay(ctx, rp):
    case = rp["case"]
    if "free" in case or "stem" in case and "doc" not in case:
        print("replay of naming cases: rerun the check")
        return
    if case.get("kind") == "codegen":
        M = driver.call_batch([{"op": "c17", "symrepr": case["symrepr"]}])[0] if ctx.driver_ok else None
        R = c17gen.run_real_sym(case["symrepr"])
        print("R =", json.dumps(R)[:3000])
        print("M =", json.dumps(M)[:3000])
        print("S =", json.dumps(c17gen.spec_calls(case["symrepr"]))[:3000])
        c17gen.judge_sym(ctx, case, R, M)
        return
    if case.get("kind") == "import-glue":
        full = dict(case, kind="exact", finding=None, prev_doc=None, stem=case.get("stem") or "model")
        M = lean_docs(ctx, [full])[0]
        R = real_worker((full, dict(M["names"]) if M else {}))
        print("R =", json.dumps(R, indent=1)[:6000])
        check_glue(ctx, [full], [R])
        shutil.rmtree(SCRATCH, ignore_errors=True)
        return
    if case.get("kind") == "pair":
        a = dict(case["a"], kind="exact", finding=None, stem="x", pair_stems=case["stems"])
        b = dict(case["b"], kind="exact", finding=None, stem="x", pair_stems=case["stems"])
        Ma, Mb = lean_docs(ctx, [a])[0], lean_docs(ctx, [b])[0]
        R = pair_worker(((a, b), (dict(Ma["names"]) if Ma else {}, dict(Mb["names"]) if Mb else {})))
        print("R =", json.dumps(R, indent=1)[:3000])
        Sa, Sb = spec_numbers(a), spec_numbers(b)
        if "err" in R:
            ctx.violation(case, R, "reading two documents in one session failed")
            return
        S = {"a": Sa, "b": Sb, "a_again": Sa, "a_source_ok": True, "b_source_ok": True}
        Rv = {"a": snap(R["a"], Sa), "b": snap(R["b"], Sb), "a_again": snap(R["a_again"], Sa),
              "a_source_ok": R["a_source_ok"], "b_source_ok": R["b_source_ok"]}
        ctx.judge(case, Rv, S, None, what="a second document read in the same session interferes with the first model")
        return
    M = lean_docs(ctx, [case])[0]
    R = real_worker((case, dict(M["names"]) if M else {}))
    print("R =", json.dumps(R, indent=1)[:3000])
    print("S =", json.dumps(spec_numbers(case), indent=1)[:3000])
    print("M =", json.dumps(M, indent=1)[:3000])
    judge_doc(ctx, case, R, M)
    shutil.rmtree(SCRATCH, ignore_errors=True)
