"""C03 — op vocabulary shared by the real-code runner, the generators and the shrinker.

Wire form of one op (also what Driver/H_c03.lean decodes):
  VAL = {"v": rat} | {"ia": FN}            FN  = {"args": [names], "e": FExpr}
  COEF = {"c": rat} | FN                   RXN = {"args", "e", "st": [[cpd, COEF]]}
  SUR = {"args", "outs", "es": [FExpr], "st": [[flux, [[cpd, COEF]]]]}

  ["add_parameter", n, VAL]            ["remove_parameter", n]      ["update_parameter", n, VAL|null]
  ["scale_parameter", n, rat]          ["make_parameter_dynamic", n, rat|null, [[flux, rat]]|null]
  ["add_parameters", [[n, VAL]]]       ["remove_parameters", [n]]   ["update_parameters", [[n, VAL]]]
  ["scale_parameters", [[n, rat]]]
  ["add_variable", n, VAL]             ["remove_variable", n, bool] ["update_variable", n, VAL]
  ["make_variable_static", n, rat|null]
  ["add_variables", [[n, VAL]]]        ["remove_variables", [n], bool]  ["update_variables", [[n, VAL]]]
  ["add_derived", n, FN]               ["update_derived", n, FExpr|null, [names]|null]   ["remove_derived", n]
  ["add_reaction", n, RXN]             ["update_reaction", n, FExpr|null, [names]|null, ST|null]  ["remove_reaction", n]
  ["add_readout", n, FN]               ["remove_readout", n]
  ["add_surrogate", n, SUR]            ["update_surrogate", n, SUR|null, args|null, outs|null, st|null]
  ["remove_surrogate", n]
  ["add_data", n, rat]                 ["update_data", n, rat]      ["remove_data", n]
  queries: ["q", "init"] ["q", "pvals"] ["q", "classes"] ["q", "args", VALS|null, t] ["q", "argsro", VALS|null, t]
           ["q", "rhs", VALS|null, t] ["q", "fluxes", VALS|null, t] ["q", "call", t, VALS]
           ["q", "stoich", VALS|null, t] ["q", "stoichvar", name, VALS|null, t]
           ["q", "names", "vars"|"pars"|"rxns"|"readouts"|"surouts"|"survars"|"surrxns"|"unused"]
           ["q", "argnames", FLAGS]  ["q", "argsf", VALS|null, t, FLAGS]  ["q", "rawstoich", name]
           ["q", "argstc", ROWS, FLAGS]  ["q", "fluxestc", ROWS]  ["q", "rhstc", ROWS]  ["q", "eq"]
  VALS = [rat, ...] cycled over the model's current variables in declaration order.
  FLAGS = 9 booleans: include_time, _variables, _parameters, _derived_parameters, _derived_variables, _reactions,
          _surrogate_variables, _surrogate_fluxes, _readouts.     ROWS = [[t, VALS], ...] (distinct times)
  ["fork"]: the history continues on `copy.deepcopy(model)`; the original must stay as it was.
  ["fork", "pickle"]: the same through `pickle.loads(pickle.dumps(model))`.
  A VAL may carry "obj": true — the plural forms then receive a `Parameter` / `Variable` object instead of the bare value.
  ["add_surrogate", n, SUR, args|null, outs|null, st|null]: the keyword form of add_surrogate.
"""
from __future__ import annotations

import json
from fractions import Fraction

from vlib import content as C
from vlib import fexpr

MUTATORS = [
    "add_parameter", "remove_parameter", "update_parameter", "scale_parameter", "make_parameter_dynamic",
    "add_parameters", "remove_parameters", "update_parameters", "scale_parameters",
    "add_variable", "remove_variable", "update_variable", "make_variable_static",
    "add_variables", "remove_variables", "update_variables",
    "add_derived", "update_derived", "remove_derived",
    "add_reaction", "update_reaction", "remove_reaction",
    "add_readout", "remove_readout",
    "add_surrogate", "update_surrogate", "remove_surrogate",
    "add_data", "update_data", "remove_data",
]
PLURAL = {
    "add_parameters": "add_parameter", "remove_parameters": "remove_parameter",
    "update_parameters": "update_parameter", "scale_parameters": "scale_parameter",
    "add_variables": "add_variable", "remove_variables": "remove_variable", "update_variables": "update_variable",
}
KEYS = ["vars", "pars", "derived", "readouts", "rxns", "surs", "data"]


def F(x):
    return fexpr.to_float(Fraction(x))


# --------------------------------------------------------------------------- wire -> real objects
# every compiled function remembers its expression so that a model can be read back into wire form


_FN_MEMO: dict = {}

# the compiled functions live in a module of their own so that `pickle` can store them by reference (a model with
# functions defined in an importable module pickles; nothing of `Model` is special-cased: it has no `__getstate__`)
_FN_MODULE_NAME = "mxlverif_c03_fns"


def _register(f):
    import sys
    import types

    mod = sys.modules.get(_FN_MODULE_NAME)
    if mod is None:
        mod = types.ModuleType(_FN_MODULE_NAME)
        sys.modules[_FN_MODULE_NAME] = mod
    name = f"fn_{len(vars(mod))}"
    f.__module__ = _FN_MODULE_NAME
    f.__name__ = f.__qualname__ = name
    setattr(mod, name, f)
    return f


def mkfn(e, arity, sig=None):
    """a real Python function for `e` (memoised: pure functions may be shared between models).
    Without `sig` it has max(arity, highest argument index + 1) positional parameters; with
    sig = [nargs, ndefaults|null, nkwonly, varargs] it has exactly that signature (what `inspect.getfullargspec`
    reports): the last `ndefaults` positional parameters and all keyword-only ones default to 0.0."""
    if sig is not None:
        if sig[1:] == [None, 0, False] and sig[0] >= fexpr.max_arg(e) + 1:
            arity = sig[0]  # a plain function: the same (memoised) object as without a stated signature
        else:
            return mkfn_sig(e, sig)
    arity = max(arity, fexpr.max_arg(e) + 1)
    key = (json.dumps(e), arity)
    f = _FN_MEMO.get(key)
    if f is None:
        f = _register(fexpr.compile_fn(e, arity))
        f._mxl_e = e
        _FN_MEMO[key] = f
    return f


def mkfn_sig(e, sig):
    key = ("sig", json.dumps(e), json.dumps(sig))
    f = _FN_MEMO.get(key)
    if f is not None:
        return f
    nargs, nd, kw, va = sig
    nd0 = nd or 0
    params = [f"a{i}" + ("=0.0" if i >= nargs - nd0 else "") for i in range(nargs)]
    if va:
        params.append("*rest")
    elif kw:
        params.append("*")
    params += [f"k{i}=0.0" for i in range(kw)]
    n = max(nargs, fexpr.max_arg(e) + 1)
    names = [f"a{i}" for i in range(n)]
    pre = "".join(f"    a{i} = rest[{i - nargs}]\n" for i in range(nargs, n)) if va else ""
    src = f"def f({', '.join(params)}):\n{pre}    return {fexpr.src_expr(e, names)}\n"
    ns: dict = {}
    exec(compile(src, "<mxlverif-c03-sig>", "exec"), ns)  # noqa: S102
    f = _register(ns["f"])
    f._mxl_e = e
    f._mxl_sig = list(sig)
    _FN_MEMO[key] = f
    return f


def fn_of(fj, arity=None):
    """FN = {"args", "e", ["sig"]} -> function"""
    return mkfn(fj["e"], len(fj["args"]) if arity is None else arity, fj.get("sig"))


def bare_fn(x, n_new_args):
    """the function argument of update_derived / update_reaction: a bare FExpr or {"e": FExpr, "sig": SIG};
    without "sig" it gets max(number of NEW args, highest argument index + 1) positional parameters"""
    if isinstance(x, dict):
        return mkfn(x["e"], n_new_args, x.get("sig"))
    return mkfn(x, n_new_args)


def bare_parts(x):
    """(FExpr, sig|None) of the function argument of an update op"""
    if isinstance(x, dict):
        return x["e"], x.get("sig")
    return x, None


def mkmulti(es, arity):
    arity = max([arity] + [fexpr.max_arg(e) + 1 for e in es])
    key = ("multi", json.dumps(es), arity)
    f = _FN_MEMO.get(key)
    if f is None:
        f = _register(fexpr.compile_multi(es, arity))
        f._mxl_es = es
        _FN_MEMO[key] = f
    return f


def mkval(vj):
    from mxlpy.types import InitialAssignment

    if "v" in vj:
        return F(vj["v"])
    return InitialAssignment(fn=fn_of(vj["ia"]), args=list(vj["ia"]["args"]))


def mkpar(vj):
    """element of add_parameters / update_parameters: the bare value, or a `Parameter` object carrying it"""
    from mxlpy.types import Parameter

    return Parameter(value=mkval(vj)) if vj.get("obj") else mkval(vj)


def mkvar(vj):
    from mxlpy.types import Variable

    return Variable(initial_value=mkval(vj)) if vj.get("obj") else mkval(vj)


def clean_val(vj):
    """a VAL without the transport-only "obj" mark"""
    if isinstance(vj, dict) and "obj" in vj:
        return {k: v for k, v in vj.items() if k != "obj"}
    return vj


def default_sig(e, n_args):
    return [max(n_args, fexpr.max_arg(e) + 1), None, 0, False]


def with_sig(fj):
    """FN with its signature spelled out (what `snapshot` reads back from the function object)"""
    if "sig" in fj:
        return fj
    return {**fj, "sig": default_sig(fj["e"], len(fj["args"]))}


def val_with_sig(vj):
    vj = clean_val(vj)
    if isinstance(vj, dict) and "ia" in vj:
        return {**vj, "ia": with_sig(vj["ia"])}
    return vj


FLAG_NAMES = ["include_time", "include_variables", "include_parameters", "include_derived_parameters",
              "include_derived_variables", "include_reactions", "include_surrogate_variables",
              "include_surrogate_fluxes", "include_readouts"]


def flags_kw(fl, skip_time=False):
    return {k: bool(v) for k, v in zip(FLAG_NAMES, fl) if not (skip_time and k == "include_time")}


def tc_frame(m, rows):
    import pandas as pd

    names = m.get_variable_names()
    data = [[F(vals[i % len(vals)]) for i in range(len(names))] for _, vals in rows]
    return pd.DataFrame(data, index=[F(t) for t, _ in rows], columns=names, dtype=float)


def frame_rows(df):
    # positional: a label may occur twice (a reaction named like a surrogate flux is listed by both name getters)
    cols = list(df.columns)
    return [[[c, C.num(v)] for c, v in zip(cols, row)] for row in df.to_numpy().tolist()]


def mkcoef(cj):
    from mxlpy.types import Derived

    if "c" in cj:
        return F(cj["c"])
    return Derived(fn=mkfn(cj["e"], len(cj["args"])), args=list(cj["args"]))


def mkst(st):
    return {c: mkcoef(cj) for c, cj in st}


SUR_OBJS: dict = {}  # surrogate objects the caller of the model keeps hold of (per history): tag -> object


def reset_objects():
    SUR_OBJS.clear()


def mksur(sj, arity=0):
    """a surrogate object for the wire form; `"tag": t` = the caller keeps the object, `"alias": t` = the caller passes
    THAT VERY object again (a new one with the same content when the tagged op is not part of the history)"""
    from mxlpy.surrogates import qss

    if "alias" in sj and sj["alias"] in SUR_OBJS:
        return SUR_OBJS[sj["alias"]]
    obj = qss.Surrogate(
        model=mkmulti(sj["es"], max(len(sj["args"]), arity)),
        args=list(sj["args"]),
        outputs=list(sj["outs"]),
        stoichiometries={f: mkst(st) for f, st in sj["st"]},
    )
    if "tag" in sj:
        SUR_OBJS[sj["tag"]] = obj
    return obj


def resolve_aliases(ops):
    """the history as the Lean model and the oracles read it: objects are values, so passing a kept object again is
    passing its ORIGINAL content (a model must not write into an object its caller holds)"""
    tagged, out = {}, []
    for op in ops:
        if op[0] in ("add_surrogate", "update_surrogate") and isinstance(op[2], dict) and ("tag" in op[2] or "alias" in op[2]):
            d = dict(op[2])
            t, a = d.pop("tag", None), d.pop("alias", None)
            if a is not None and a in tagged:
                d = dict(tagged[a])
            if t is not None:
                tagged[t] = dict(d)
            op = [op[0], op[1], d] + list(op[3:])
        out.append(op)
    return out


def cur_state(m, vals):
    if vals is None:
        return None
    names = m.get_variable_names()
    return {k: F(vals[i % len(vals)]) for i, k in enumerate(names)}


class _Rec:
    """the real model behind a recorder: every PUBLIC method / property the query code reaches for is written down, so
    that the harness can say which entry point of `Model` a query form exercised (compared with the Lean table
    `Query.entry`)"""

    def __init__(self, m, log):
        object.__setattr__(self, "_m", m)
        object.__setattr__(self, "_log", log)

    def __getattr__(self, name):
        if not name.startswith("_"):
            self._log.append(name)
        return getattr(self._m, name)

    def __call__(self, *a, **kw):
        self._log.append("__call__")
        return self._m(*a, **kw)

    def __eq__(self, other):
        self._log.append("__eq__")
        return self._m == other

    __hash__ = None


LAST_ENTRY = [None]  # the first public entry point the last `run_query` reached for


def run_query(m0, q):
    """q = ["q", kind, ...] -> canonical answer.  `m` is the recorder around the model (principal calls), `m0` the model
    itself (auxiliary calls that only shape the arguments)"""
    log: list = []
    m = _Rec(m0, log)
    try:
        return _run_query(m, m0, q)
    finally:
        LAST_ENTRY[0] = log[0] if log else None


def _run_query(m, m0, q):
    try:
        kind = q[1]
        if kind == "init":
            return {"ok": [[k, C.num(v)] for k, v in m.get_initial_conditions().items()]}
        if kind == "pvals":
            return {"ok": sorted([k, C.num(v)] for k, v in m.get_parameter_values().items())}
        if kind == "classes":
            return {"ok": [list(m.get_derived_parameter_names()), list(m.get_derived_variable_names())]}
        if kind == "names":
            w = q[2]
            if w == "vars":
                return {"ok": list(m.get_variable_names())}
            if w == "pars":
                return {"ok": list(m.get_parameter_names())}
            if w == "rxns":
                return {"ok": list(m.get_reaction_names())}
            if w == "readouts":
                return {"ok": list(m.get_readout_names())}
            if w == "surouts":
                return {"ok": list(m.get_surrogate_output_names(include_fluxes=True))}
            if w == "survars":
                return {"ok": list(m.get_surrogate_output_names(include_fluxes=False))}
            if w == "surrxns":
                return {"ok": list(m.get_surrogate_reaction_names())}
            if w == "unused":
                return {"ok": sorted(m.get_unused_parameters())}
            if w.startswith("raw"):
                # the default as_copy=True hands out a deep copy: wrecking it must not reach the model
                d = getattr(m, "get_raw_" + {"rawvars": "variables", "rawpars": "parameters", "rawderived": "derived",
                                             "rawrxns": "reactions", "rawreadouts": "readouts",
                                             "rawsurs": "surrogates"}[w])()
                keys = list(d)
                for v in d.values():
                    if hasattr(v, "args"):
                        v.args = ["wrecked"]
                d.clear()
                return {"ok": keys}
            raise ValueError(q)
        if kind == "argnames":
            return {"ok": list(m.get_arg_names(**flags_kw(q[2])))}
        if kind == "argsf":
            s = m.get_args(cur_state(m0, q[2]), F(q[3]), **flags_kw(q[4]))
            return {"ok": [[k, C.num(v)] for k, v in s.items()]}
        if kind == "rawstoich":
            from mxlpy.types import Derived

            d = m.get_raw_stoichiometries_of_variable(q[2])
            return {"ok": [[k, {"args": list(v.args)} if isinstance(v, Derived) else {"c": C.num(v)}]
                           for k, v in d.items()]}
        if kind == "argstc":
            return {"ok": frame_rows(m.get_args_time_course(tc_frame(m0, q[2]), **flags_kw(q[3], skip_time=True)))}
        if kind == "fluxestc":
            return {"ok": frame_rows(m.get_fluxes_time_course(tc_frame(m0, q[2])))}
        if kind == "rhstc":
            return {"ok": frame_rows(m.get_right_hand_side_time_course(m0.get_args_time_course(tc_frame(m0, q[2]))))}
        if kind == "eq":
            # a newly built model with the same content; units / sources (not part of the wire form) are carried over
            f = fresh_model(snapshot(m0))
            for a in ("_variables", "_parameters", "_derived", "_readouts", "_reactions"):
                for k_, v in getattr(m0, a).items():
                    w = getattr(f, a)[k_]
                    for attr in ("unit", "source"):
                        if hasattr(v, attr):
                            setattr(w, attr, getattr(v, attr))
            return {"ok": bool(m == f)}
        if kind == "stoichvar":
            d = m.get_stoichiometries_of_variable(q[2], cur_state(m0, q[3]), F(q[4]))
            return {"ok": sorted([k, C.num(v)] for k, v in d.items())}
        if kind == "call":
            names = m0.get_variable_names()
            xs = [F(q[3][i % len(q[3])]) for i in range(len(names))]
            return {"ok": [C.num(v) for v in m(F(q[2]), xs)]}
        st, t = cur_state(m0, q[2]), F(q[3])
        if kind == "args":
            s = m.get_args(st, t)
            return {"ok": sorted([k, C.num(v)] for k, v in s.items())}
        if kind == "argsro":
            s = m.get_args(st, t, include_readouts=True)
            return {"ok": sorted([k, C.num(v)] for k, v in s.items())}
        if kind == "fluxes":
            s = m.get_fluxes(st, t)
            return {"ok": [[k, C.num(v)] for k, v in s.items()]}
        if kind == "stoich":
            df = m.get_stoichiometries(st, t)
            return {"ok": C.canon_stoich({c: {r: C.num(df.loc[c, r]) for r in df.columns} for c in df.index})}
        if kind == "rhs":
            s = m.get_right_hand_side(st, t)
            return {"ok": [[k, C.num(v)] for k, v in s.items()]}
        raise ValueError(q)
    except Exception as e:  # noqa: BLE001
        return canon_exc(e)


def canon_exc(e):
    cls = type(e).__name__
    if cls == "MissingDependenciesError":
        return {"err": [cls, C.parse_missing(str(e))]}
    return {"err": [cls]}


def apply_mut(m, op):
    """apply one mutator op to the real model (raises what the model raises)"""
    k = op[0]
    meta = {}
    if op[-1] == "meta":
        # unit= / source= keywords (no query of the property reads them; the branches are exercised)
        import sympy

        op = op[:-1]
        meta = {"unit": sympy.Symbol("u")}
        if k in ("update_parameter", "update_variable"):
            meta["source"] = "somewhere"
    if k == "add_parameter":
        m.add_parameter(op[1], mkval(op[2]))
    elif k == "remove_parameter":
        m.remove_parameter(op[1])
    elif k == "update_parameter":
        m.update_parameter(op[1], None if op[2] is None else mkval(op[2]), **meta)
    elif k == "scale_parameter":
        m.scale_parameter(op[1], F(op[2]))
    elif k == "make_parameter_dynamic":
        m.make_parameter_dynamic(
            op[1],
            initial_value=None if op[2] is None else F(op[2]),
            stoichiometries=None if op[3] is None else {r: F(v) for r, v in op[3]},
        )
    elif k == "add_parameters":
        m.add_parameters({n: mkpar(v) for n, v in op[1]})
    elif k == "remove_parameters":
        m.remove_parameters(list(op[1]))
    elif k == "update_parameters":
        m.update_parameters({n: mkpar(v) for n, v in op[1]})
    elif k == "scale_parameters":
        m.scale_parameters({n: F(v) for n, v in op[1]})
    elif k == "add_variable":
        m.add_variable(op[1], mkval(op[2]))
    elif k == "remove_variable":
        m.remove_variable(op[1], remove_stoichiometries=bool(op[2]))
    elif k == "update_variable":
        m.update_variable(op[1], mkval(op[2]), **meta)
    elif k == "make_variable_static":
        m.make_variable_static(op[1], None if op[2] is None else F(op[2]))
    elif k == "add_variables":
        m.add_variables({n: mkvar(v) for n, v in op[1]})
    elif k == "remove_variables":
        # an iterator, as the signature allows (`variables: Iterable[str]`)
        m.remove_variables(iter(list(op[1])), remove_stoichiometries=bool(op[2]))
    elif k == "update_variables":
        m.update_variables({n: mkvar(v) for n, v in op[1]})
    elif k == "add_derived":
        m.add_derived(op[1], fn=fn_of(op[2]), args=list(op[2]["args"]))
    elif k == "update_derived":
        ar = len(op[3]) if op[3] is not None else 0
        m.update_derived(op[1], None if op[2] is None else bare_fn(op[2], ar), args=None if op[3] is None else list(op[3]),
                         **meta)
    elif k == "remove_derived":
        m.remove_derived(op[1])
    elif k == "add_reaction":
        r = op[2]
        m.add_reaction(op[1], fn=fn_of(r), args=list(r["args"]), stoichiometry=mkst(r["st"]))
    elif k == "update_reaction":
        ar = len(op[3]) if op[3] is not None else 0
        m.update_reaction(
            op[1],
            None if op[2] is None else bare_fn(op[2], ar),
            args=None if op[3] is None else list(op[3]),
            stoichiometry=None if op[4] is None else mkst(op[4]),
            **meta,
        )
    elif k == "remove_reaction":
        m.remove_reaction(op[1])
    elif k == "add_readout":
        m.add_readout(op[1], fn=fn_of(op[2]), args=list(op[2]["args"]))
    elif k == "remove_readout":
        m.remove_readout(op[1])
    elif k == "add_surrogate":
        if len(op) > 3:
            m.add_surrogate(
                op[1],
                # the function takes as many arguments as the overriding `args=` names (arity is not the subject here)
                mksur(op[2], 0 if op[3] is None else len(op[3])),
                args=None if op[3] is None else list(op[3]),
                outputs=None if op[4] is None else list(op[4]),
                stoichiometries=None if op[5] is None else {f: mkst(st) for f, st in op[5]},
            )
        else:
            m.add_surrogate(op[1], mksur(op[2]))
    elif k == "update_surrogate":
        m.update_surrogate(
            op[1],
            None if op[2] is None else mksur(op[2]),
            args=None if op[3] is None else list(op[3]),
            outputs=None if op[4] is None else list(op[4]),
            stoichiometries=None if op[5] is None else {f: mkst(st) for f, st in op[5]},
        )
    elif k == "remove_surrogate":
        m.remove_surrogate(op[1])
    elif k == "add_data":
        m.add_data(op[1], F(op[2]))
    elif k == "update_data":
        m.update_data(op[1], F(op[2]))
    elif k == "remove_data":
        m.remove_data(op[1])
    else:
        raise ValueError(f"unknown op {op}")


def singular_ops(op):
    """the element ops of a plural form, in the order the method applies them"""
    k = op[0]
    s = PLURAL[k]
    if k == "remove_variables":
        return [[s, n, op[2]] for n in op[1]]
    if k == "remove_parameters":
        return [[s, n] for n in op[1]]
    return [[s, n, clean_val(v)] for n, v in op[1]]


# --------------------------------------------------------------------------- canonical wire form of an op


def _as_dict(pairs):
    """a pair list read the way the call receives it — as a Python dict: a key given twice keeps its first position
    and its last value"""
    d = {}
    for k, v in pairs:
        d[k] = v
    return [[k, v] for k, v in d.items()]


def _canon_sur_st(st):
    return None if st is None else _as_dict([[f, _as_dict(inner)] for f, inner in st])


def canon_op(op):
    """the op with every stoichiometry written once per key (the real call is made with dicts built from the pair
    lists; the Lean model and the oracles are given the same thing)"""
    k = op[0]
    meta = op[-1] == "meta"
    body = list(op[:-1]) if meta else list(op)
    if k == "add_reaction":
        body[2] = {**body[2], "st": _as_dict(body[2]["st"])}
    elif k == "update_reaction" and body[4] is not None:
        body[4] = _as_dict(body[4])
    elif k in ("add_surrogate", "update_surrogate"):
        if body[2] is not None:
            body[2] = {**body[2], "st": _canon_sur_st(body[2]["st"])}
        if len(body) > 5:
            body[5] = _canon_sur_st(body[5])
    elif k == "make_parameter_dynamic" and body[3] is not None:
        body[3] = _as_dict(body[3])
    return body + (["meta"] if meta else [])


# --------------------------------------------------------------------------- public methods the check knows nothing about

KNOWN_PUBLIC = set(PLURAL) | set(PLURAL.values()) | {
    "make_parameter_dynamic", "make_variable_static", "add_derived", "update_derived", "remove_derived", "add_reaction",
    "update_reaction", "remove_reaction", "add_readout", "remove_readout", "add_surrogate", "update_surrogate",
    "remove_surrogate", "add_data", "update_data", "remove_data",
    # readers the model answers (Mxl.C03.modelledEntries) and readers named out of scope (Mxl.C03.outOfScope)
    "ids", "get_initial_conditions", "get_parameter_values", "get_derived_parameter_names", "get_derived_variable_names",
    "get_derived_parameters", "get_derived_variables", "get_args", "get_right_hand_side", "get_fluxes", "__call__",
    "get_stoichiometries", "get_stoichiometries_of_variable", "get_variable_names", "get_parameter_names",
    "get_reaction_names", "get_readout_names", "get_surrogate_output_names", "get_surrogate_reaction_names",
    "get_unused_parameters", "get_raw_variables", "get_raw_parameters", "get_raw_derived", "get_raw_reactions",
    "get_raw_readouts", "get_raw_surrogates", "get_arg_names", "get_raw_stoichiometries_of_variable",
    "get_args_time_course", "get_fluxes_time_course", "get_right_hand_side_time_course",
    "__repr__", "parameters", "variables", "derived", "reactions", "check_units",
}


def unknown_public():
    """public functions / properties written in the body of the real `class Model` that are neither a mutator the
    model has an op for nor a reader it answers / names as out of scope (dataclass-generated dunders are not
    written in model.py and do not count)"""
    import inspect

    from mxlpy import Model

    out = []
    for n, v in vars(Model).items():
        if n.startswith("_") and not (n.startswith("__") and n.endswith("__")):
            continue
        f = v.fget if isinstance(v, property) else v
        if not inspect.isfunction(f) or not f.__code__.co_filename.endswith("model.py"):
            continue
        if n not in KNOWN_PUBLIC:
            out.append(n)
    return sorted(out)


# argument lists tried on a method nobody has described (names of the BASE model of c03gen and new names)
PROBE_ARGS = [[], ["k"], ["x"], ["r1"], ["dp"], ["n1"], ["k", "5"], ["x", "5"], ["k", "n1"], ["x", "n1"], ["r1", "n1"],
              ["n1", "5"], [{"k": "5"}], [{"x": "5"}], [["k"]], [["x"]]]


def _probe_arg(a):
    if isinstance(a, dict):
        return {k: _probe_arg(v) for k, v in a.items()}
    if isinstance(a, list):
        return [_probe_arg(v) for v in a]
    try:
        return F(a)
    except (ValueError, ZeroDivisionError):
        return a


def apply_call(m, op):
    """["call", name, args]: a public method the model does not know, called with plain arguments"""
    from mxlpy import Model

    if isinstance(vars(Model).get(op[1]), property):
        getattr(m, op[1])
    else:
        getattr(m, op[1])(*[_probe_arg(a) for a in op[2]])


# --------------------------------------------------------------------------- real model -> wire


def _fn_wire(obj):
    w = {"args": list(obj.args), "e": obj.fn._mxl_e}
    # the number of positional parameters is part of the function: a fresh model gets the same function
    sig = getattr(obj.fn, "_mxl_sig", None)
    if sig is None:
        sig = getattr(obj.fn, "_mxl_plain_sig", None)
        if sig is None:
            import inspect

            # (memoised on the function object: the harness' functions are immutable and shared)
            sig = [len(inspect.getfullargspec(obj.fn).args), None, 0, False]
            obj.fn._mxl_plain_sig = sig
    w["sig"] = list(sig)
    return w


def _val_wire(v):
    from mxlpy.types import InitialAssignment

    if isinstance(v, InitialAssignment):
        return {"ia": _fn_wire(v)}
    return {"v": C.num(v)}


def _coef_wire(v):
    from mxlpy.types import Derived

    if isinstance(v, Derived):
        return {"args": list(v.args), "e": v.fn._mxl_e}
    return {"c": C.num(v)}


def snapshot(m):
    """the model's current content in wire form (functions by their expressions)"""
    return {
        "vars": [[k, _val_wire(v.initial_value)] for k, v in m._variables.items()],
        "pars": [[k, _val_wire(v.value)] for k, v in m._parameters.items()],
        "derived": [[k, _fn_wire(v)] for k, v in m._derived.items()],
        "readouts": [[k, _fn_wire(v)] for k, v in m._readouts.items()],
        "rxns": [
            [k, {**_fn_wire(v), "st": [[c, _coef_wire(f)] for c, f in v.stoichiometry.items()]}]
            for k, v in m._reactions.items()
        ],
        "surs": [
            [k, {"args": list(s.args), "outs": list(s.outputs), "es": s.model._mxl_es,
                 "st": [[f, [[c, _coef_wire(x)] for c, x in st.items()]] for f, st in s.stoichiometries.items()]}]
            for k, s in m._surrogates.items()
        ],
        "data": [[k, C.num(v)] for k, v in m._data.items()],
    }


def build_ops(content):
    """add-ops that build `content` container by container (the fresh model S)"""
    ops = []
    for k, v in content.get("data", []):
        ops.append(["add_data", k, v])
    for k, v in content.get("vars", []):
        ops.append(["add_variable", k, v])
    for k, v in content.get("pars", []):
        ops.append(["add_parameter", k, v])
    for k, v in content.get("derived", []):
        ops.append(["add_derived", k, v])
    for k, v in content.get("rxns", []):
        ops.append(["add_reaction", k, v])
    for k, v in content.get("surs", []):
        ops.append(["add_surrogate", k, v])
    for k, v in content.get("readouts", []):
        ops.append(["add_readout", k, v])
    return ops


def fresh_model(content):
    """S: a newly built real Model with this content. Raises if the content cannot be built."""
    from mxlpy import Model

    m = Model()
    for op in build_ops(content):
        apply_mut(m, op)
    return m


def keylists(m):
    return [list(m._variables), list(m._parameters), list(m._derived), list(m._readouts),
            list(m._reactions), list(m._surrogates), list(m._data)]


def ids_of(m):
    return sorted([k, v] for k, v in m.ids.items())
