"""C15 — steady-state results are steady states; absence is reported as failure (DESIGN §6/C15, design.d/C15.md).

R  real `Simulator(model[, y0]).simulate_to_steady_state(tolerance, rel_norm).get_result()` (and
   `scan.steady_state` rows) on linear networks whose flow over one integrator step (100 time units) is an exactly
   known rational affine map: rate constants are multiples of ln(2)/100, so every mode decays by 2^-m per step.
M  Lean model (driver op "c15"): `ssRun` with the loop facts read from int_scipy.py, on the exact flow `y -> C y + d`,
   followed by the modelled `simulate_to_steady_state` / `get_result` / scan-row plumbing.
S  oracle from the closed-form solution y(100 n) = x* + P diag(2^(-m n)) z0 (Fractions, independent of the driver):
   first n whose consecutive difference is below the tolerance, state within the proved bound of x*, balanced
   fluxes; networks without a steady state (constant influx, growth, rotation) must give NoSteadyState / NaN rows.
The integrator is trusted and inexact (LSODA, rtol 1e-6): inputs whose decisive difference is within 5 % of the
tolerance are skipped and counted; for tolerances below 1e-6*max(1,|x*|) the stop index is accepted in a window (see lenient()).
"""
from __future__ import annotations

import concurrent.futures as cf
import contextlib
import math
import os
from fractions import Fraction as F
from functools import partial

from vlib import driver

PROPS = ["MxlVerif.Props.C15"]
LN2_100 = math.log(2.0) / 100.0
OMEGA = math.atan2(4.0, 3.0) / 100.0  # rotation by the 3-4-5 angle per step


# ----------------------------------------------------------------------------- exact linear algebra
def matmul(A, B):
    return [[sum(a * b for a, b in zip(row, col)) for col in zip(*B)] for row in A]


def matvec(A, v):
    return [sum(a * b for a, b in zip(row, v)) for row in A]


def inverse(P):
    n = len(P)
    M = [[F(x) for x in row] + [F(int(i == j)) for j in range(n)] for i, row in enumerate(P)]
    for c in range(n):
        p = next(r for r in range(c, n) if M[r][c] != 0)
        M[c], M[p] = M[p], M[c]
        M[c] = [x / M[c][c] for x in M[c]]
        for r in range(n):
            if r != c and M[r][c] != 0:
                M[r] = [x - M[r][c] * y for x, y in zip(M[r], M[c])]
    return [row[n:] for row in M]


def fro(A):
    return math.sqrt(sum(float(x) ** 2 for row in A for x in row))


def fr(s):
    return F(s)


def derive(case: dict) -> dict:
    """everything both sides need, from the replayable description"""
    kind = case["kind"]
    tol = F(1, 10 ** case["tol_exp"])
    if kind == "stable":
        P = [[F(x) for x in row] for row in case["P"]]
        ms = case["ms"]
        xs = [fr(x) for x in case["xstar"]]
        z0 = [fr(z) for z in case["z0"]]
        Pinv = inverse(P)
        n = len(ms)
        D = [[F(-ms[i]) if i == j else F(0) for j in range(n)] for i in range(n)]
        E = [[F(1, 2 ** ms[i]) if i == j else F(0) for j in range(n)] for i in range(n)]
        Aint = matmul(matmul(P, D), Pinv)
        C = matmul(matmul(P, E), Pinv)
        d = [x - y for x, y in zip(xs, matvec(C, xs))]
        y0 = [x + y for x, y in zip(xs, matvec(P, z0))]
        A = [[LN2_100 * float(a) for a in row] for row in Aint]
        b = [-sum(A[i][j] * float(xs[j]) for j in range(n)) for i in range(n)]
        c = F(1, 2 ** min(ms))
        out = {"A": A, "b": b, "C": C, "d": d, "y0": y0, "xs": xs, "xs0": xs, "tol": tol, "P": P, "Pinv": Pinv, "z0": z0,
               "ms": ms, "kappa": fro(P) * fro(Pinv), "c": float(c)}
        if case.get("shift"):
            # a parameter change between the calls moves the steady state by delta; the search continues from the
            # state the earlier run reached (xs0 / z0 describe the flow BEFORE the change, xs / d the one after)
            xs = [x + fr(dl) for x, dl in zip(xs, case["shift"])]
            out.update(b0=b, xs=xs, d=[x - y for x, y in zip(xs, matvec(C, xs))])
        return out
    if kind == "accumulate":  # dx/dt = b: no steady state
        bb = [F(x) for x in case["b"]]
        n = len(bb)
        I = [[F(int(i == j)) for j in range(n)] for i in range(n)]
        return {"A": [[0.0] * n for _ in range(n)], "b": [float(x) for x in bb], "C": I, "d": [100 * x for x in bb],
                "y0": [F(y) for y in case["y0"]], "xs": None, "tol": tol}
    if kind == "grow":  # dx/dt = +g ln2/100 x: grows by 2^g every step (g = 8, 16: overflows within the budget)
        g = case.get("g", 1)
        return {"A": [[g * LN2_100]], "b": [0.0], "C": [[F(2 ** g)]], "d": [F(0)], "y0": [F(y) for y in case["y0"]],
                "xs": None, "tol": tol}
    if kind == "orbit":  # undamped rotation with period 100/q: returns to itself after every search step (F-C15-5)
        w = 2 * math.pi * case["q"] / 100.0
        I2 = [[F(1), F(0)], [F(0), F(1)]]
        return {"A": [[0.0, -w], [w, 0.0]], "b": [0.0, 0.0], "C": I2, "d": [F(0), F(0)], "y0": [F(y) for y in case["y0"]],
                "xs": None, "tol": tol}
    if kind == "blowup":
        # dx/dt = x^2 on the first variable (x(t) = x0 / (1 - x0 t): finite-time blow-up at 1/x0), the others relax to
        # zs with factor 2^-m per step.  Exact rational flow until the singularity; then the solver must give up.
        ms, zs = case["ms"], [fr(z) for z in case["zs"]]
        n = 1 + len(ms)
        A = [[0.0] * n for _ in range(n)]
        b = [0.0] * n
        for i, (m, z) in enumerate(zip(ms, zs), start=1):
            A[i][i] = -LN2_100 * m
            b[i] = LN2_100 * m * float(z)
        return {"A": A, "b": b, "C": [[F(1, 2 ** m)] for m in ms], "d": zs, "blow": True,
                "y0": [fr(case["x0"])] + [fr(z) for z in case["z0"]], "xs": None, "tol": tol}
    if kind == "rotate":  # undamped rotation by atan2(4,3) per step: the norm of the difference never shrinks
        return {"A": [[0.0, -OMEGA], [OMEGA, 0.0]], "b": [0.0, 0.0], "C": [[F(3, 5), F(-4, 5)], [F(4, 5), F(3, 5)]],
                "d": [F(0), F(0)], "y0": [F(y) for y in case["y0"]], "xs": None, "tol": tol}
    raise ValueError(kind)


# ----------------------------------------------------------------------------- real side
def lin_row(coef, b, *xs):
    return b + sum(c * x for c, x in zip(coef, xs))


def lin_row_shift(coef, b, n, *args):
    """the same row with the steady state moved by the parameters dx_j: sum_j A_ij (x_j - dx_j) + b_i"""
    return b + sum(c * (x - dx) for c, x, dx in zip(coef, args[:n], args[n:]))


def const_par(p):
    return 0.0 * p


def square(x):
    return x * x


def build_model(dv, y0_in_model):
    from mxlpy import Model
    n = len(dv["y0"])
    names = [f"x{i}" for i in range(n)]
    m = Model()
    for nm, v in zip(names, y0_in_model):
        m.add_variable(nm, v)
    m.add_parameter("dummy", 1.0)
    shifts = [f"dx{i}" for i in range(n)]
    for sname in shifts:
        m.add_parameter(sname, 0.0)
    for i in range(n):
        m.add_reaction(f"v{i}", partial(lin_row_shift, dv["A"][i], dv["b0"][i] if "b0" in dv else dv["b"][i], n),
                       args=names + shifts, stoichiometry={names[i]: 1})
    if dv.get("blow"):
        m.add_reaction("vblow", square, args=[names[0]], stoichiometry={names[0]: 1})
    return m, names


@contextlib.contextmanager
def quiet():
    """LSODA writes Fortran warnings to fd 1/2 for the divergent systems"""
    import sys
    sys.stdout.flush()
    sys.stderr.flush()
    saved = os.dup(1), os.dup(2)
    null = os.open(os.devnull, os.O_WRONLY)
    try:
        os.dup2(null, 1)
        os.dup2(null, 2)
        yield
    finally:
        os.dup2(saved[0], 1)
        os.dup2(saved[1], 2)
        for fd in (*saved, null):
            os.close(fd)


def real_case(case: dict) -> dict:
    import numpy as np
    import pandas as pd
    from mxlpy import Simulator, scan

    dv = derive(case)
    y0 = [float(y) for y in dv["y0"]]
    tol = float(dv["tol"])
    user = case.get("y0mode") == "user"
    model, names = build_model(dv, [7.25] * len(y0) if user else y0)
    out = {}
    with quiet():
        sim = Simulator(model, y0=dict(zip(names, y0)) if user else None)
        prior = case.get("prior")
        if prior:  # earlier successful calls on the SAME simulator
            if prior[0] == "simulate":
                sim.simulate(prior[1], steps=prior[2])
            else:
                sim.simulate_time_course(np.linspace(0, prior[1], prior[2] + 1))
            held = sim.get_result().unwrap_or_err().variables
            out_start = {"t": float(held.index[-1]), "y": [float(x) for x in held.iloc[-1][names]]}
        else:
            out_start = None
        if case.get("override"):
            sim.update_variable(names[0], float(F(case["override"])))
        if case.get("shift"):  # the user changes a parameter on the same simulator, then searches again
            sim.update_parameters({f"dx{i}": float(F(dl)) for i, dl in enumerate(case["shift"])})
        sim.simulate_to_steady_state(tolerance=tol, rel_norm=case["rel"])
        if case.get("post"):  # a later call must not wash an error away
            try:
                sim.simulate(case["post"], steps=2)
            except ValueError:  # only reachable when the search wrongly succeeded (end time before the stored one)
                pass
        res = sim.get_result()
        val = res.value
        if case.get("late_par"):
            # the user goes on with the simulator / model after taking the result: the result's (lazily computed) fluxes
            # must still be those of ITS parameters
            sim.update_parameter("dx0", float(F(case["late_par"])))
        if type(val).__name__ == "Simulation":
            v = val.variables
            fl = val.fluxes
            out = {"outcome": "steady", "t": float(v.index[-1]), "rows": int(v.shape[0]),
                   "y": [float(x) for x in v.iloc[-1][names]], "flux": [float(x) for x in fl.iloc[-1]],
                   "start": out_start}
        else:
            out = {"outcome": type(val).__name__}
            out["start"] = out_start
            try:
                res.unwrap_or_err()
                out["unwrap"] = "returned"
            except Exception as e:  # noqa: BLE001
                out["unwrap"] = type(e).__name__
        if case.get("scan"):
            model2, _ = build_model(dv, y0)
            sc = scan.steady_state(model2, to_scan=pd.DataFrame({"dummy": [1.0, 2.0]}), parallel=False,
                                   rel_norm=case["rel"])
            rows = sc.variables[names].to_numpy()
            out["scan_rows"] = [None if bool(np.isnan(r).any()) else [float(x) for x in r] for r in rows]
    return out


# ----------------------------------------------------------------------------- oracle (closed form)
MAX_STEPS = 1000  # python oracle only; the Lean side reads max_steps / step_size from the source
STEP = 100


def norm_sq(v):
    return sum(x * x for x in v)


def start_of(case, dv, r):
    """(t_start, y_start): the state the simulator holds when the search is called — after an earlier call the last
    stored row of the REAL run (the floats as exact Fractions; `expected_start` checks them against the closed form),
    with the user's override applied; else (0, y0)"""
    st = r.get("start")
    if st is None:
        return F(0), list(dv["y0"])
    y = [F(v) for v in st["y"]]
    if case.get("override"):
        y[0] = F(case["override"])
    return F(st["t"]), y


def expected_start(case, dv):
    """closed form (floats) of the state a run over [0, T] reaches, independent of the real run"""
    T = case["prior"][1]
    y0 = [float(y) for y in dv["y0"]]
    kind = case["kind"]
    if kind == "stable":
        z = [float(zi) * 2.0 ** (-m * T / 100.0) for zi, m in zip(dv["z0"], dv["ms"])]
        return [float(x) + sum(float(p) * zz for p, zz in zip(row, z)) for x, row in zip(dv["xs0"], dv["P"])]
    if kind == "accumulate":
        return [y + b * T for y, b in zip(y0, dv["b"])]
    if kind == "grow":
        return [y0[0] * 2.0 ** (T / 100.0)]
    co, si = math.cos(OMEGA * T), math.sin(OMEGA * T)
    return [co * y0[0] - si * y0[1], si * y0[0] + co * y0[1]]


def start_ok(case, dv, r):
    st = r["start"]
    exp = expected_start(case, dv)
    scale = max(1.0, max(abs(e) for e in exp))
    return st["t"] == float(case["prior"][1]) and all(abs(a - e) <= 1e-4 * scale for a, e in zip(st["y"], exp))


def flow(dv, y_start):
    """y_start, y(100), y(200), ... on the exact flow (Fractions): closed form for the stable networks (a different
    computation path from the model's iteration), iteration of the affine map for the others"""
    yield list(y_start)
    if dv.get("blow"):
        y = list(y_start)
        while True:
            if 100 * y[0] >= 1:  # the singularity lies within this step: no state, the solver gives up
                yield None
                return
            y = [y[0] / (1 - 100 * y[0])] + [z + (a - z) * c[0] for a, z, c in zip(y[1:], dv["d"], dv["C"])]
            yield y
    if dv["xs"] is None:
        y = list(y_start)
        while True:
            y = [a + b for a, b in zip(matvec(dv["C"], y), dv["d"])]
            yield y
    z0 = matvec(dv["Pinv"], [a - x for a, x in zip(y_start, dv["xs"])])
    n = 0
    while True:
        n += 1
        z = [zi * F(1, 2 ** (m * n)) for zi, m in zip(z0, dv["ms"])]
        yield [x + y for x, y in zip(dv["xs"], matvec(dv["P"], z))]


def oracle(case, dv, y_start, max_steps=MAX_STEPS):
    """first n in 1..max_steps with ||diff|| < tol on the exact flow from y_start (None: none within the budget — the
    criterion is evaluated over the WHOLE budget for every family); ratios ||diff||/tol up to there; the state
    before the decisive step"""
    tol2 = dv["tol"] ** 2
    ratios = []
    it = flow(dv, y_start)
    prev = next(it)
    for n in range(1, max_steps + 1):
        cur = next(it)
        if cur is None:
            return None, ratios, prev, n
        dvv = [b - a for a, b in zip(prev, cur)]
        if case["rel"]:
            if any(a == 0 for a in prev):
                ratios.append(float("inf"))
                prev = cur
                continue
            dvv = [x / a for x, a in zip(dvv, prev)]
        q = norm_sq(dvv) / tol2
        ratios.append(math.sqrt(float(q)) if q < 10 ** 300 else float("inf"))
        if q < 1:
            return n, ratios, prev, None
        prev = cur
    return None, ratios, prev, None


def bound(case, dv, before):
    """C15_contraction_close in eigen-coordinates, carried to the Euclidean norm by kappa(P); plus what the
    integrator itself may be off (LSODA rtol 1e-6 accumulated over the run)"""
    scale = 1.0
    if case["rel"]:
        scale = max(abs(float(x)) for x in before)
    xs_inf = max(abs(float(x)) for x in dv["xs"])
    return dv["kappa"] * dv["c"] / (1 - dv["c"]) * float(dv["tol"]) * scale + 2e-5 * max(1.0, xs_inf)


def noise_of(case, dv):
    """LSODA runs with rtol 1e-6: states, hence consecutive differences, carry errors of about 1e-6 * |y|"""
    return 1e-6 * (1.0 if case["rel"] else max(1.0, max(abs(float(x)) for x in dv["xs"])))


def lenient(case, dv):
    """the stop index is only predictable when the tolerance is well above the integrator's own error"""
    return float(dv["tol"]) < 2 * noise_of(case, dv)


def prior_rows(case):
    p = case.get("prior")
    return 0 if not p else p[2] + 1


def canon_real(case, dv, r, orc):
    n_exact, ratios, before, t_start = orc[:4]
    o = {}
    if case.get("prior"):
        o["start_ok"] = start_ok(case, dv, r)
    if "scan_rows" in r:
        o["scan"] = ["nan" if x is None else "state" for x in r["scan_rows"]]
    if r["outcome"] != "steady":
        o["outcome"] = r["outcome"]
        if "unwrap" in r:
            o["unwrap"] = r["unwrap"]
        return o
    # reported time = (time the search started at) + step_size * n, in ABSOLUTE time
    steps = (F(r["t"]) - t_start) / STEP
    n = int(steps) if steps.denominator == 1 else str(steps)
    o.update(outcome="steady", n=n, t=str(F(r["t"])), rows=r["rows"])
    if dv["xs"] is not None:
        bd = bound(case, dv, before)
        dist = math.sqrt(sum((a - float(b)) ** 2 for a, b in zip(r["y"], dv["xs"])))
        o["close"] = dist <= bd
        amax = max(abs(a) for row in dv["A"] for a in row)
        o["balanced"] = max(abs(f) for f in r["flux"]) <= amax * len(r["y"]) * bd + 1e-12
        if n_exact is not None and lenient(case, dv) and isinstance(n, int):
            # tolerance not above the integrator's own accuracy: the index is decided by integration noise; accept
            # any index from the first step whose exact difference is below tol + 2*noise
            lim = 1 + 2 * noise_of(case, dv) / float(dv["tol"])
            n_lo = next(i + 1 for i, x in enumerate(ratios) if x < lim)
            if n_lo <= n <= MAX_STEPS:
                o["n"] = n_exact
                o["t"] = str(t_start + STEP * n_exact)
    else:
        o["close"] = False
        o["balanced"] = False
    return o


def canon_model(case, dv, m, orc):
    n_exact, ratios, before, t_start = orc[:4]
    loop = m["loop"]
    o = {}
    if case.get("prior"):
        o["start_ok"] = True  # the earlier run is not part of the model: it is fed the state that run reached
    if case.get("scan"):
        o["scan"] = ["nan" if m["row"] is None else "state"] * 2
    if loop["outcome"] != "steady":
        o.update(outcome=m["result"][1], unwrap=m["result"][1])
        return o
    rows = m["result"][1]
    o.update(outcome="steady", n=loop["n"], t=str(F(rows[-1][0])), rows=len(rows))
    if dv["xs"] is not None:
        y = [F(x) for x in loop["y"]]
        dist = math.sqrt(float(norm_sq([a - b for a, b in zip(y, dv["xs"])])))
        o["close"] = dist <= bound(case, dv, before)
        o["balanced"] = o["close"]
    else:
        o["close"] = False
        o["balanced"] = False
    return o


def spec(case, dv, orc):
    n_exact, ratios, before, t_start = orc[:4]
    o = {}
    if case.get("prior"):
        o["start_ok"] = True
    if orc[4] is not None and n_exact is None:
        # the trajectory reaches a singularity within the budget: the solver cannot pass it, the search must end in the
        # solver's failure — never in a state
        o.update(outcome="IntegrationFailure", unwrap="IntegrationFailure")
        if case.get("scan"):
            o["scan"] = ["nan", "nan"]
        return o
    if dv["xs"] is None or n_exact is None:
        # a network WITHOUT a steady state must be reported as failure whatever the criterion says; a stable one that
        # does not meet the criterion within the budget likewise
        o.update(outcome="NoSteadyState", unwrap="NoSteadyState")
        if case.get("scan"):
            o["scan"] = ["nan", "nan"]
        return o
    o.update(outcome="steady", n=n_exact, t=str(t_start + STEP * n_exact), rows=prior_rows(case) + 1, close=True,
             balanced=True)
    if case.get("scan"):
        o["scan"] = ["state", "state"]
    return o


def model_request(case, dv, r):
    q = lambda x: str(F(x))  # noqa: E731
    t_start, y_start = start_of(case, dv, r)
    rq = {"op": "c15", "copies": "gen", "C": [[q(x) for x in row] for row in dv["C"]], "d": [q(x) for x in dv["d"]],
          "y0": [q(x) for x in y_start], "orig": [q(x) for x in dv["y0"]], "tol": q(dv["tol"]), "rel": case["rel"],
          "prior": prior_rows(case), "t0": q(t_start)}
    if dv.get("blow"):
        rq["blowup"] = True
    if case["kind"] == "accumulate":
        rq["acc"] = True  # the driver also evaluates the theorems' boundary predicates (class of F-C15-2 / F-C15-4)
    if case.get("override"):  # update_variables: a new integrator at shifted time 0, results shifted by the time reached
        rq.update(t0="0", shift=q(t_start))
    return rq


# ----------------------------------------------------------------------------- generator
def gen_stable(rng):
    n = rng.choice([1, 1, 2, 2, 3])
    while True:
        P = [[1 if i == j else (rng.choice([-1, 0, 1, 1]) if j < i else 0) for j in range(n)] for i in range(n)]
        if rng.random() < 0.4 and n > 1:  # not only triangular: mix the last row into the first
            P[0] = [a + b for a, b in zip(P[0], P[n - 1])]
        ms = rng.sample([1, 2, 3, 4, 6], n)
        xstar = [rng.choice(["1/2", "1", "3/2", "2", "3", "5"]) for _ in range(n)]
        z0 = [rng.choice([-3, -2, -1, 1, 2, 4, 6]) for _ in range(n)]
        case = {"kind": "stable", "P": P, "ms": ms, "xstar": xstar, "z0": z0, "tol_exp": rng.randint(3, 9),
                "rel": rng.random() < 0.4, "y0mode": rng.choice(["default", "user"])}
        if rng.random() < 0.2:  # start every variable at exactly 0 (empty network filling up)
            case["z0"] = [str(-v) for v in matvec(inverse([[F(x) for x in row] for row in P]), [fr(x) for x in xstar])]
        return case


def gen_case(rng):
    r = rng.random()
    if r < 0.72:
        c = gen_stable(rng)
    elif r < 0.84:
        n = rng.choice([1, 2])
        # also a slow drift (2^-30, 2^-20 per time unit): below some tolerances per search step, above others
        c = {"kind": "accumulate", "b": [rng.choice([1, 2, 5, "1/1073741824", "1/1048576"]) for _ in range(n)],
             "y0": [rng.choice([0, 0, 1, 2, 10]) for _ in range(n)]}
    elif r < 0.89:
        c = {"kind": "grow", "y0": [rng.choice([1, 2])], "g": rng.choice([1, 1, 8, 16])}
    elif r < 0.93:
        nz = rng.choice([0, 0, 1])
        c = {"kind": "blowup", "x0": rng.choice(["1/250", "1/150", "1/350", "1/125", "1", "2", "3/2"]),
             "ms": rng.sample([1, 2, 3], nz), "zs": [rng.choice(["1", "2"]) for _ in range(nz)],
             "z0": [rng.choice(["5", "3", "0"]) for _ in range(nz)]}
    else:
        c = {"kind": "rotate", "y0": [rng.choice([3, 4, 10]), rng.choice([1, 4])]}
    if c["kind"] != "stable":
        c.update(tol_exp=rng.randint(3, 9), rel=rng.random() < 0.4, y0mode=rng.choice(["default", "user"]))
    c["scan"] = c["tol_exp"] == 6 and rng.random() < 0.5  # scan.steady_state only offers the default tolerance
    # multi-step use of ONE simulator: results of an earlier call are already stored / a later call follows
    if c["kind"] == "stable" and rng.random() < 0.25:
        c["late_par"] = "5"  # a parameter change AFTER the result was taken, before its fluxes are read
    r = rng.random()
    if c["kind"] == "blowup" or c.get("g", 1) > 1:
        pass  # an earlier run over the singularity / into overflow fails by itself: not this property
    elif r < 0.25:
        # short and LONG earlier runs (longer than any search needs), optionally a parameter change in between
        c["prior"] = [rng.choice(["simulate", "time_course"]), rng.choice([1, 5, 20, 500, 3000, 20000]), rng.choice([1, 3, 6])]
        c["scan"] = False  # scan.steady_state starts fresh simulators: a different start state
        if c["kind"] == "stable" and rng.random() < 0.5:
            c["shift"] = [str(rng.choice([F(1, 2), 1, 2, -F(1, 4)])) for _ in c["ms"]]
        if rng.random() < 0.3:  # the user overrides a variable after the earlier run (results are time-shifted)
            c["override"] = str(rng.choice([1, 3, F(1, 2), 8]))
    elif r < 0.3 and c["kind"] != "stable":
        c["post"] = rng.choice([1, 5])
    return c


FIXED = [
    # F-C15-5: undamped oscillators with period 100 and 50 (x' = -w y, y' = w x): "steady" at t = 100 with non-zero fluxes
    {"kind": "orbit", "q": 1, "y0": [3, 4], "tol_exp": 3, "rel": False, "y0mode": "default", "scan": False},
    {"kind": "orbit", "q": 2, "y0": [3, 4], "tol_exp": 4, "rel": True, "y0mode": "user", "scan": False},
    # F-C15-4: a drift slower than the tolerance per search step (dx/dt = 2^-30, tolerance 1e-6) is reported as steady;
    # the same drift is refused at tolerance 1e-9
    {"kind": "accumulate", "b": ["1/1073741824"], "y0": [1], "tol_exp": 6, "rel": False, "y0mode": "default", "scan": True},
    {"kind": "accumulate", "b": ["1/1073741824"], "y0": [1], "tol_exp": 9, "rel": False, "y0mode": "default", "scan": False},
    # F-C15-3: finite-time blow-up (dx/dt = x^2): the solver gives up, its frozen state must not be reported as steady
    {"kind": "blowup", "x0": "1", "ms": [], "zs": [], "z0": [], "tol_exp": 6, "rel": False, "y0mode": "default", "scan": True},
    {"kind": "blowup", "x0": "1/250", "ms": [1], "zs": ["1"], "z0": ["5"], "tol_exp": 3, "rel": True, "y0mode": "user",
     "scan": False},
    {"kind": "grow", "y0": [1], "g": 16, "tol_exp": 6, "rel": False, "y0mode": "default", "scan": False},
    # the result's fluxes are read after the user has changed a parameter on the simulator
    {"kind": "stable", "P": [[1, 0], [1, 1]], "ms": [1, 2], "xstar": ["2", "1"], "z0": ["-2", "1"], "tol_exp": 5,
     "rel": False, "y0mode": "default", "scan": False, "late_par": "5"},
    # F-C15-2: a variable that accumulates for ever meets the RELATIVE criterion once 100*|b|/|y| < tol: at the first
    # step from a large value, at the very last step of the budget from 200, after an earlier long run
    {"kind": "accumulate", "b": [1], "y0": [100001], "tol_exp": 3, "rel": True, "y0mode": "default", "scan": False},
    {"kind": "accumulate", "b": [1], "y0": [200], "tol_exp": 3, "rel": True, "y0mode": "user", "scan": False},
    {"kind": "accumulate", "b": [1], "y0": [100], "tol_exp": 3, "rel": True, "y0mode": "default", "scan": False},
    {"kind": "accumulate", "b": [2], "y0": [10], "tol_exp": 3, "rel": True, "y0mode": "default", "scan": False,
     "prior": ["simulate", 500, 3]},
    {"kind": "accumulate", "b": [1, 2], "y0": [1, 0], "tol_exp": 3, "rel": True, "y0mode": "default", "scan": False,
     "prior": ["time_course", 20000, 6]},
    # a long time course, a parameter change that moves the steady state, then the search on the same simulator
    {"kind": "stable", "P": [[1]], "ms": [2], "xstar": ["2"], "z0": ["3"], "tol_exp": 5, "rel": False,
     "y0mode": "default", "scan": False, "prior": ["simulate", 3000, 3], "shift": ["2"]},
    # sequences on one simulator: a time course first, then a search that cannot succeed; and the reverse order
    {"kind": "accumulate", "b": [1], "y0": [1], "tol_exp": 6, "rel": False, "y0mode": "default", "scan": False,
     "prior": ["simulate", 5, 3]},
    {"kind": "accumulate", "b": [1], "y0": [0], "tol_exp": 6, "rel": True, "y0mode": "default", "scan": False,
     "post": 5},
    {"kind": "stable", "P": [[1, 0], [1, 1]], "ms": [1, 2], "xstar": ["2", "1"], "z0": ["-2", "1"], "tol_exp": 4,
     "rel": True, "y0mode": "default", "scan": False},
    # the round-0 witnesses: dx/dt = 1 from 1, and a slow relaxation 5 -> 1
    {"kind": "accumulate", "b": [1], "y0": [1], "tol_exp": 6, "rel": False, "y0mode": "default", "scan": True},
    {"kind": "stable", "P": [[1]], "ms": [1], "xstar": ["1"], "z0": [4], "tol_exp": 6, "rel": False,
     "y0mode": "default", "scan": True},
    {"kind": "grow", "y0": [1], "tol_exp": 6, "rel": False, "y0mode": "default", "scan": False},
    {"kind": "rotate", "y0": [3, 4], "tol_exp": 3, "rel": True, "y0mode": "user", "scan": False},
]


def shape_of(case):
    n = len(derive(case)["y0"])
    seq = ":after-" + case["prior"][0] if case.get("prior") else (":then-simulate" if case.get("post") else "")
    seq += ":param-change" if case.get("shift") else ""
    seq += ":override" if case.get("override") else ""
    seq += ":fluxes-after-par-change" if case.get("late_par") else ""
    seq += f":x{2 ** case['g']}-per-step" if case.get("g", 1) > 1 else ""
    zero = ":from0" if any(F(y) == 0 for y in derive(case)["y0"]) else ""
    return f"{case['kind']}:dim{n}:tol1e-{case['tol_exp']}:{'rel' if case['rel'] else 'abs'}:{case['y0mode']}{zero}{seq}"


# ----------------------------------------------------------------------------- verdicts
def oracle_case(args):
    case, r = args
    dv = derive(case)
    t_start, y_start = start_of(case, dv, r)
    n_exact, ratios, before, fail_at = oracle(case, dv, y_start)
    return n_exact, ratios, before, t_start, fail_at


def judge_case(ctx, case, r, m, orc):
    dv = derive(case)
    n_exact, ratios = orc[0], orc[1]
    if case["kind"] == "accumulate":
        margin = 1e-6  # dx/dt = b is integrated exactly up to rounding; consecutive ratios differ by >= 1e-3 relative
    elif dv["xs"] is None or lenient(case, dv):
        margin = 0.05
    else:
        margin = max(0.05, noise_of(case, dv) / float(dv["tol"]))
    if any(abs(x - 1) < margin for x in ratios):
        ctx.hist["skipped_near_threshold"] = ctx.hist.get("skipped_near_threshold", 0) + 1
        return
    ctx.count(case, shape_of(case), nontrivial=True)
    if dv["xs"] is not None and lenient(case, dv):
        ctx.hist["index_window_only"] = ctx.hist.get("index_window_only", 0) + 1
    R = canon_real(case, dv, r, orc)
    S = spec(case, dv, orc)
    M = None if m is None else canon_model(case, dv, m, orc)
    finding = None
    if R.get("outcome") == "steady" and R.get("n") == 2 and r.get("start") is None:
        finding = "F-C15-1"
    # F-C15-2 / F-C15-4 (policy findings): the criterion is met by a variable that keeps accumulating.  The class predicate is
    # the hypothesis of the theorems, evaluated by the driver on this input: absolute norm — `accAbsFails` false
    # (C15_accumulation_fails_iff); relative norm, one positive variable — `accRelFails` false (C15_rel_accumulation_fails_iff);
    # relative norm, several variables — some comparison within the budget is small (C15_no_false_success, = the model's run).
    # And only when the independent oracle finds the criterion met at exactly the step the real run reports.
    if case["kind"] == "accumulate" and m is not None and m.get("boundary"):
        bd = m["boundary"]
        predicted = (bd["abs_fails"] is False) if not case["rel"] else \
            ((bd["rel_fails"] is False) if bd["rel_fails"] is not None else m["loop"]["outcome"] == "steady")
        if predicted != (n_exact is not None):
            ctx.violation(case, {"boundary": bd, "oracle_n": n_exact}, "theorem boundary predicate and closed-form oracle disagree")
        if predicted and n_exact is not None and R.get("n") == n_exact and R.get("outcome") == "steady" \
                and R.get("start_ok", True):
            finding = "F-C15-2" if case["rel"] else "F-C15-4"
            key = "rel_criterion_met_while_accumulating" if case["rel"] else "abs_criterion_met_by_slow_drift"
            ctx.hist[key] = ctx.hist.get(key, 0) + 1
    # F-C15-5 (policy): an undamped orbit whose period divides step_size returns to itself after every search step and is reported
    # as steady at the first one (C15_stroboscopic_false_success: step y0 = y0)
    if case["kind"] == "orbit" and n_exact == 1 and R.get("outcome") == "steady" and R.get("n") == 1:
        finding = "F-C15-5"
        ctx.hist["orbit_with_period_dividing_step_size"] = ctx.hist.get("orbit_with_period_dividing_step_size", 0) + 1
    ctx.judge(case, R, S, M, finding=finding,
              what="simulate_to_steady_state(...).get_result() vs closed-form flow from the state the simulator holds")


def evaluate(ctx, cases):
    import mxlpy  # noqa: F401  imported once; forked workers inherit it
    with cf.ProcessPoolExecutor(max_workers=min(16, os.cpu_count() or 4)) as ex:
        Rs = list(ex.map(real_case, cases, chunksize=4))
        Os = list(ex.map(oracle_case, zip(cases, Rs), chunksize=4))
    if ctx.driver_ok:
        Ms = driver.call_batch([model_request(c, derive(c), r) for c, r in zip(cases, Rs)])
    else:
        Ms = [None] * len(cases)
    return Rs, Ms, Os


# ----------------------------------------------------------------------------- scans: rows stay with THEIR parameters
def relax(m, b, xs, x):
    return b + LN2_100 * m * (xs - x)


def scan_model(xs, x0):
    from mxlpy import Model
    return (Model().add_variable("x", x0).add_parameters({"m": 1.0, "b": 0.0, "xs": xs})
            .add_reaction("v", relax, args=["m", "b", "xs", "x"], stoichiometry={"x": 1}))


def gen_scan_case(rng):
    """rows (m, b): m > 0, b = 0 relaxes to xs by 2^-m per step; m = 0, b > 0 accumulates for ever.  Index labels as
    users produce them: default, glued frames (repeated labels), strings, a non-unique column as index."""
    n = rng.randint(2, 6)
    rows = [[0, rng.choice([1, 2])] if rng.random() < 0.3 else [rng.choice([1, 2, 3, 4, 6]), 0] for _ in range(n)]
    style = rng.choice(["range", "concat", "concat", "strings", "constant", "shuffled"])
    if style == "range":
        labels = list(range(n))
    elif style == "concat":
        h = rng.randint(1, n - 1)
        labels = list(range(h)) + list(range(n - h))
    elif style == "strings":
        labels = [rng.choice(["a", "b", "rep 1", "rep_1", "x*2"]) for _ in range(n)]
    elif style == "constant":
        labels = ["run"] * n
    else:
        labels = rng.sample(range(n), n)
    c = {"scan_rows": rows, "labels": labels, "xs": rng.choice([2, 3, 5]), "x0": rng.choice([1, 4]),
         "rel": rng.random() < 0.3, "parallel": rng.random() < 0.25}
    if len(set(map(str, labels))) == n and rng.random() < 0.7:
        # a persistent result cache that already holds SOME rows (an earlier run over a sub-grid), then the full scan
        c["cached_first"] = sorted(rng.sample(range(n), rng.randint(1, n - 1)))
    return c


def real_scan_case(c):
    import numpy as np
    import pandas as pd
    from mxlpy import scan
    import shutil
    from vlib.framework import WORK
    to_scan = pd.DataFrame(c["scan_rows"], columns=["m", "b"], index=c["labels"], dtype=float)
    cdir = WORK / f"c15-scan-{os.getpid()}"
    shutil.rmtree(cdir, ignore_errors=True)
    try:
        with quiet():
            kw = {}
            if c.get("cached_first"):
                from mxlpy.parallel import Cache
                kw["cache"] = Cache(tmp_dir=cdir)
                scan.steady_state(scan_model(float(c["xs"]), float(c["x0"])), to_scan=to_scan.iloc[c["cached_first"]],
                                  parallel=False, rel_norm=c["rel"], **kw)
            sc = scan.steady_state(scan_model(float(c["xs"]), float(c["x0"])), to_scan=to_scan, parallel=c["parallel"],
                                   rel_norm=c["rel"], **kw)
            v = sc.variables
    finally:
        shutil.rmtree(cdir, ignore_errors=True)
    return {"rows": [None if bool(np.isnan(x)) else float(x) for x in v["x"].to_numpy()],
            "index": [list(map(float, t)) if isinstance(t, tuple) else float(t) for t in v.index]}


def judge_scan(ctx, c, r, ms):
    ctx.count(c, f"scan:{len(c['scan_rows'])}rows:labels-{'unique' if len(set(map(str, c['labels']))) == len(c['labels']) else 'repeated'}"
              + (":partly-cached" if c.get("cached_first") else ""))
    tol = 1e-6
    S, M = [], []
    for i, (m, b) in enumerate(c["scan_rows"]):
        S.append("nan" if m == 0 else "close")
        if ms is not None:
            M.append("nan" if ms[i]["row"] is None else "close")
    R = []
    for (m, b), x in zip(c["scan_rows"], r["rows"]):
        if x is None:
            R.append("nan")
        else:
            bd = 2 * tol * (max(abs(x), 1.0) if c["rel"] else 1.0) + 2e-5 * c["xs"]
            R.append("close" if m != 0 and abs(x - c["xs"]) <= bd else f"other({x:.6g})")
    ctx.judge(c, {"rows": R, "index": r["index"]}, {"rows": S, "index": [[float(a), float(b)] for a, b in c["scan_rows"]]},
              None if ms is None else {"rows": M, "index": [[float(a), float(b)] for a, b in c["scan_rows"]]},
              what="scan.steady_state: row i holds the steady state (or NaN) of row i's parameters")


def scan_requests(c):
    q = lambda x: str(F(x))  # noqa: E731
    out = []
    for m, b in c["scan_rows"]:
        if m == 0:
            C, d = [["1"]], [q(100 * b)]
        else:
            C, d = [[q(F(1, 2 ** m))]], [q((1 - F(1, 2 ** m)) * c["xs"])]
        out.append({"op": "c15", "copies": "gen", "C": C, "d": d, "y0": [q(c["x0"])], "tol": "1/1000000", "rel": c["rel"]})
    return out


def run_scans(ctx, cases):
    import mxlpy  # noqa: F401
    with cf.ProcessPoolExecutor(max_workers=min(8, os.cpu_count() or 4)) as ex:
        Rs = list(ex.map(real_scan_case, cases))
    reqs = [scan_requests(c) for c in cases]
    flat = driver.call_batch([q for rq in reqs for q in rq]) if ctx.driver_ok else None
    pos = 0
    for c, r, rq in zip(cases, Rs, reqs):
        ms = None if flat is None else flat[pos:pos + len(rq)]
        pos += len(rq)
        judge_scan(ctx, c, r, ms)


def setup(ctx):
    from translate import c15 as tr
    ctx.translate(tr.generate)
    ctx.build(PROPS)
    ctx.rule = (
        "linear networks dx/dt = A x + b with A = (ln2/100) P diag(-m) P^-1 (P integer unimodular, m distinct in "
        "{1,2,3,4,6}), dims 1-3, default / user y0, tolerances 1e-3..1e-9, abs / rel norm; plus networks without a "
        "steady state (constant influx, doubling growth, undamped rotation). distinct = distinct case descriptions; "
        "non-trivial = not within 5 % of the threshold (those are skipped and counted)"
    )
    ctx.assumptions += [
        "scipy.integrate.ode (LSODA, rtol 1e-6) follows the exact flow to about 1e-6 relative: trusted, not modelled",
        "integrator noise = 1e-6*max(1,|x*|) (1e-6 for the relative norm): inputs whose decisive difference is within max(5 %, noise) of the tolerance are skipped; for tolerance < 2*noise any stop index from the first step with exact difference < tol + 2*noise is accepted",
        "closeness bound = kappa_F(P) * c/(1-c) * tol (* max|y| for the relative norm) + 2e-5 * max(1, |x*|) integrator allowance",
        "the criterion is stroboscopic: a periodic orbit whose period divides step_size=100 is outside the hypothesis of C15_no_false_success",
    ]
    ctx.trusted_base += ["translate/c15.py (loop shape of integrate_to_steady_state -> Gen.copies/maxSteps/stepSize)",
                         "scipy.integrate.ode / LSODA; numpy norm and in-place buffer semantics"]


def run(ctx):
    setup(ctx)
    cases = list(FIXED) + [gen_case(ctx.rng) for _ in range(ctx.n(260, 6000))]
    Rs, Ms, Os = evaluate(ctx, cases)
    for c, r, m, o in zip(cases, Rs, Ms, Os):
        judge_case(ctx, c, r, m, o)
    fixed_scans = [
        # a cache that already holds rows 1 and 3 (an earlier run over a sub-grid), then the full scan
        {"scan_rows": [[1, 0], [0, 1], [3, 0], [2, 0]], "labels": [0, 1, 2, 3], "xs": 3, "x0": 1, "rel": False,
         "parallel": par, "cached_first": [1, 3]} for par in (False, True)
    ] + [{"scan_rows": [[2, 0], [0, 2], [1, 0]], "labels": ["a", "b", "c"], "xs": 2, "x0": 4, "rel": False,
          "parallel": False, "cached_first": [2]}]
    run_scans(ctx, fixed_scans + [gen_scan_case(ctx.rng) for _ in range(ctx.n(28, 300))])
    if not ctx.proof_ok or ctx.drift:
        ctx.notes.append("proof/correspondence broken: the run above is the failing-input search")


def replay(ctx, rp):
    case = rp["case"]
    if "scan_rows" in case:
        run_scans(ctx, [case])
        return
    Rs, Ms, Os = evaluate(ctx, [case])
    print("R =", Rs[0], "\nM =", Ms[0], "\noracle: n =", Os[0][0], "from t =", Os[0][3])
    judge_case(ctx, case, Rs[0], Ms[0], Os[0])
