"""Real module-level rate laws with comparisons (so that inspect.getsource works), used by the
oracle-only boundary stratum of harness/c12.py: symbolic equations vs numeric right-hand side AT the
thresholds, where `<` and `<=` (etc.) differ."""


def pw_le(x, thr, k):
    return k * x if x <= thr else 0.0


def pw_lt(x, thr, k):
    return k * x if x < thr else 0.0


def pw_ge(x, thr, k):
    if x >= thr:
        return k * x
    return 2.0 * k


def pw_gt(x, thr, k):
    if x > thr:
        return k * x
    return 2.0 * k


def pw_window(x, lo, hi, k):
    return k if lo <= x < hi else 0.0


def pw_window2(x, lo, hi, k):
    return k * x if lo < x <= hi else -k


def pw_elif(x, lo, hi, k):
    if x <= lo:
        return 0.0
    elif x >= hi:
        return k * hi
    else:
        return k * x


# both branches of a plain if/else re-bind / read a name bound before the `if` (each branch must see the value from
# BEFORE the if, never what the other branch bound)

def pw_rebind(x, thr, k):
    v = k * x
    if x > thr:
        v = v * 2.0
    else:
        v = v + 1.0
    return v


def pw_rebind_arg(x, thr, k):
    if x >= thr:
        k = k * 2.0
        return k * x
    else:
        return k * x + 1.0


def pw_rebind_tmp(x, lo, hi, k):
    s = k
    if x < lo:
        s = s * x
        return s
    else:
        t = s + hi
        return t * x


def pw_rebind_elif(x, lo, hi, k):
    v = k
    if x < lo:
        v = v * 4.0
        return v
    elif x < hi:
        return v * x
    else:
        v = v + 1.0
        return v * hi
