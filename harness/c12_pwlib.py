"""Real module-level rate laws with comparisons (so that inspect.getsource works), used by the
oracle-only boundary stratum of harness/c12.py: symbolic equations vs numeric right-hand side AT the
thresholds, where `<` and `<=` (etc.) differ."""


def pw_le(x, thr, k):
    return k * x if x <= thr else 0.0


def pw_lt(x, thr, k):
    return k * x if x < thr else 0.0


def pw_ge(x, thr, k):
    if x >= thr:
        return k * x
    return 2.0 * k


def pw_gt(x, thr, k):
    if x > thr:
        return k * x
    return 2.0 * k


def pw_window(x, lo, hi, k):
    return k if lo <= x < hi else 0.0


def pw_window2(x, lo, hi, k):
    return k * x if lo < x <= hi else -k


def pw_elif(x, lo, hi, k):
    if x <= lo:
        return 0.0
    elif x >= hi:
        return k * hi
    else:
        return k * x
