"""Shared by C07 and C11: content generator with named functions, real-model builder, a small
expression parser for the four sympy code printers' syntaxes, exact evaluation, polynomial
normal form (used to make sure every function argument matters after sympy's simplification).

Wire form is vlib.content's (`vars`/`pars`/`derived`/`rxns`), with two optional extras per FN:
  "name": the Python function's `__name__` (same name + same expression = the same function object,
          same name + different expression = two different functions that share a name)
  "bad":  true -> the function is written with a `for` loop, which `fn_to_sympy` cannot translate
"""
from __future__ import annotations

import itertools
import linecache
import re
from fractions import Fraction

from vlib import fexpr
from vlib.fexpr import Inexact, is_dyadic_small, rat_str

_counter = itertools.count()

# --------------------------------------------------------------------------- functions


def poly(e, arity):
    """expression -> {monomial exponents tuple: Fraction} (exact normal form)"""
    tag = e[0]
    if tag == "a":
        m = [0] * arity
        m[e[1]] = 1
        return {tuple(m): Fraction(1)}
    if tag == "c":
        q = Fraction(e[1])
        return {tuple([0] * arity): q} if q else {}
    if tag == "neg":
        return {m: -c for m, c in poly(e[1], arity).items()}
    a, b = poly(e[1], arity), poly(e[2], arity)
    if tag in "+-":
        out = dict(a)
        for m, c in b.items():
            out[m] = out.get(m, 0) + (c if tag == "+" else -c)
        return {m: c for m, c in out.items() if c}
    if tag == "*":
        out = {}
        for m1, c1 in a.items():
            for m2, c2 in b.items():
                m = tuple(x + y for x, y in zip(m1, m2))
                out[m] = out.get(m, 0) + c1 * c2
        return {m: c for m, c in out.items() if c}
    raise ValueError(e)


def depends_on_all(e, arity) -> bool:
    p = poly(e, arity)
    return all(any(m[i] for m in p) for i in range(arity))


def merge_positions(e, idx):
    if e[0] == "a":
        return ["a", idx[e[1]]]
    if e[0] == "c":
        return e
    return [e[0], *[merge_positions(x, idx) for x in e[1:]]]


def depends_on_all_names(e, args) -> bool:
    """every distinct model name passed to the function survives simplification of f(args)"""
    names = list(dict.fromkeys(args))
    return depends_on_all(merge_positions(e, [names.index(a) for a in args]), len(names))


def gen_fn_expr(rng, args, depth=2):
    """random + - * expression of len(args) positions in which every model name matters"""
    arity = len(args)
    for _ in range(50):
        e = fexpr.gen_expr(rng, arity, depth)
        if depends_on_all(e, arity) and depends_on_all_names(e, args):
            return e
    e = ["a", 0] if arity else ["c", "1"]
    for i in range(1, arity):
        e = ["+", e, ["a", i]]
    return e


def compile_named(name: str, e, arity: int, bad=False):
    """real Python function with the given `__name__`; source registered with linecache"""
    argn = [f"a{i}" for i in range(arity)]
    body = fexpr.src_expr(e, argn)
    if bad == "loop":    # a statement kind fn_to_sympy does not know
        src = (f"def {name}({', '.join(argn)}):\n    acc = 0.0\n    for _i in range(1):\n"
               f"        acc = acc + {body}\n    return acc\n")
    elif bad:            # an expression kind fn_to_sympy refuses (list display / subscript)
        src = f"def {name}({', '.join(argn)}):\n    return [{body}][0]\n"
    else:
        src = f"def {name}({', '.join(argn)}):\n    return {body}\n"
    filename = f"<mxlverif-cg-{name}-{next(_counter)}>"
    linecache.cache[filename] = (len(src), None, src.splitlines(True), filename)
    ns: dict = {}
    exec(compile(src, filename, "exec"), ns)  # noqa: S102
    fn = ns[name]
    fn.__module__ = "__main__"
    return fn


class FnPool:
    """one function object per (name, expression, arity, bad): sharing in the wire form is sharing here"""

    def __init__(self):
        self.by = {}
        self.auto = itertools.count()

    def get(self, d):
        arity = len(d["args"])
        name = d.get("name") or f"fn{next(self.auto)}"
        key = (name, repr(d["e"]), arity, d.get("bad") or False)
        if key not in self.by:
            self.by[key] = compile_named(name, d["e"], arity, d.get("bad") or False)
        return self.by[key]


def build_model(content, rng=None):
    """real `Model` from the wire form; kinds interleaved at random when rng is given"""
    from mxlpy import Model
    from mxlpy.types import Derived, InitialAssignment

    from vlib import content as C

    pool = FnPool()
    m = Model()
    for kind, name, p in C.decl_sequence(content, rng):
        if kind in ("var", "par"):
            if "v" in p:
                val = fexpr.to_float(Fraction(p["v"]))
            else:
                val = InitialAssignment(fn=pool.get(p["ia"]), args=list(p["ia"]["args"]))
            (m.add_variable if kind == "var" else m.add_parameter)(name, val)
        elif kind == "derived":
            m.add_derived(name, fn=pool.get(p), args=list(p["args"]))
        elif kind == "rxn":
            st = {}
            for cpd, cj in p["st"]:
                if "c" in cj:
                    v = Fraction(cj["c"])
                    st[cpd] = int(v) if cj.get("int") else fexpr.to_float(v)
                else:
                    st[cpd] = Derived(fn=pool.get(cj), args=list(cj["args"]))
            m.add_reaction(name, fn=pool.get(p), args=list(p["args"]), stoichiometry=st)
        else:
            raise ValueError(kind)
    return m


# --------------------------------------------------------------------------- generator


def gen_content(rng, *, n_vars=(1, 4), n_pars=(0, 3), n_comps=(1, 7), p_ia_par=0.0, p_ia_var=0.0, p_time=0.15,
                all_vars_have_eq=True, p_dyn_coef=0.3, shuffle=True, name_fn=None, p_dup_arg=0.0,
                small=(1, 2, 3)):
    """Random well-formed surrogate-free content (complete and acyclic by construction).
    `name_fn(rng, role) -> str | None` chooses function names (None = fresh unique name)."""
    nv = rng.randint(*n_vars)
    npar = rng.randint(*n_pars)
    vars_, pars, derived, rxns = [], [], [], []
    pool = []
    var_names = [f"x{i}" for i in range(nv)]
    ia_vars = [k for i, k in enumerate(var_names) if i > 0 and rng.random() < p_ia_var]
    for k in var_names:
        if k not in ia_vars:
            vars_.append([k, {"v": str(rng.choice(small))}])
            pool.append(k)
    for i in range(npar):
        k = f"p{i}"
        pars.append([k, {"v": str(rng.choice(list(small) + ["1/2"]))}])
        pool.append(k)
    if rng.random() < p_time:
        pool.append("time")
    if not pool:
        pool.append("time")

    def pick_args(lo=1, hi=3):
        n = rng.randint(lo, hi)
        if rng.random() < p_dup_arg and n >= 2:
            a = [rng.choice(pool) for _ in range(n - 1)]
            a.insert(rng.randrange(n), rng.choice(a))
            return a
        if len(pool) >= n and rng.random() < 0.85:
            return rng.sample(pool, n)
        return [rng.choice(pool) for _ in range(n)]

    def mkfn(role, depth=2, lo=1, hi=3):
        args = pick_args(lo, hi)
        d = {"args": args, "e": gen_fn_expr(rng, args, depth)}
        if name_fn is not None:
            nm = name_fn(rng, role, d)
            if nm:
                d["name"] = nm
        return d

    def mkcoef():
        if rng.random() >= p_dyn_coef:
            return {"c": str(rng.choice([-2, -1, 1, 2, "1/2", "-1/2", 3]))}
        return mkfn("coef", 1, 1, 2)

    kinds = []
    for _ in range(rng.randint(*n_comps)):
        r = rng.random()
        kinds.append("derived" if r < 0.45 else "rxn" if r < 0.9 else "iapar")
    kinds = [k for k in kinds if k != "iapar" or rng.random() < p_ia_par * 5]
    kinds += ["iavar"] * len(ia_vars)
    rng.shuffle(kinds)
    if "rxn" not in kinds:
        kinds.append("rxn")
    cnt = {"derived": 0, "rxn": 0, "iapar": 0}
    ia_iter = iter(ia_vars)
    for kd in kinds:
        if kd == "derived":
            k = f"d{cnt['derived']}"
            cnt["derived"] += 1
            derived.append([k, mkfn("derived")])
            pool.append(k)
        elif kd == "rxn":
            k = f"r{cnt['rxn']}"
            cnt["rxn"] += 1
            f = mkfn("rxn")
            f["st"] = [[c, mkcoef()] for c in rng.sample(var_names, rng.randint(1, min(3, nv)))]
            rxns.append([k, f])
            pool.append(k)
        elif kd == "iapar":
            k = f"q{cnt['iapar']}"
            cnt["iapar"] += 1
            pars.append([k, {"ia": mkfn("ia", 1)}])
            pool.append(k)
        else:
            k = next(ia_iter)
            vars_.append([k, {"ia": mkfn("ia", 1)}])
            pool.append(k)
    if all_vars_have_eq:
        have = {c for _, r in rxns for c, _ in r["st"]}
        for v in var_names:
            if v not in have:
                _, r = rng.choice(rxns)
                r["st"].append([v, mkcoef()])
    if shuffle:
        for lst in (vars_, pars, derived, rxns):
            rng.shuffle(lst)
    return {"vars": vars_, "pars": pars, "derived": derived, "rxns": rxns}


def features(content):
    have = {c for _, r in content["rxns"] for c, _ in r["st"]}
    iap = {k for k, v in content["pars"] if "ia" in v}
    used = set()
    for _, f in content["derived"]:
        used |= set(f["args"])
    for _, r in content["rxns"]:
        used |= set(r["args"])
        for _, c in r["st"]:
            used |= set(c.get("args", []))
    return {
        "ia_par": any("ia" in v for _, v in content["pars"]),
        "ia_par_used": bool(iap & used),
        "ia_var": any("ia" in v for _, v in content["vars"]),
        "var_without_eq": any(k not in have for k, _ in content["vars"]),
        "one_var": len(content["vars"]) == 1,
        "dyn_coef": any("c" not in c for _, r in content["rxns"] for _, c in r["st"]),
    }


def shape_of(content) -> str:
    f = features(content)
    return (f"v{len(content['vars'])}p{len(content['pars'])}d{len(content['derived'])}r{len(content['rxns'])}"
            f"{'+iapar' if f['ia_par'] else ''}{'+iavar' if f['ia_var'] else ''}"
            f"{'+noeq' if f['var_without_eq'] else ''}{'+dyn' if f['dyn_coef'] else ''}")


# --------------------------------------------------------------------------- expression parser

_TOK = re.compile(
    r"\s*(?:(?P<num>(?:\d+\.\d*|\.\d+|\d+)(?:[eE][+-]?\d+)?)(?P<suf>_f64|_i32|_f32)?"
    r"|(?P<name>(?:Math\.|math\.)?[A-Za-z_][A-Za-z_0-9]*)"
    r"|(?P<op>\*\*|\.\^|\.\*|\./|\.powi|\.powf|[-+*/(),^]))"
)


class ParseError(Exception):
    pass


def tokenize(s: str):
    out, pos = [], 0
    s = s.rstrip()
    while pos < len(s):
        m = _TOK.match(s, pos)
        if not m or m.end() == pos:
            raise ParseError(f"cannot tokenize {s[pos:pos + 20]!r}")
        pos = m.end()
        if m.group("num") is not None:
            txt = m.group("num")
            is_int = re.fullmatch(r"\d+", txt) is not None and m.group("suf") in (None, "_i32")
            out.append(("num", Fraction(txt), is_int))
        elif m.group("name") is not None:
            out.append(("name", m.group("name")))
        else:
            out.append(("op", m.group("op")))
    return out


class _P:
    """precedence: + -  <  * / .* ./  <  unary -  <  ** .^ (right assoc)  <  postfix .powi/.powf, calls"""

    def __init__(self, toks):
        self.t, self.i = toks, 0

    def peek(self):
        return self.t[self.i] if self.i < len(self.t) else ("eof",)

    def take(self, op=None):
        tk = self.peek()
        if op is not None and tk != ("op", op):
            raise ParseError(f"expected {op}, found {tk}")
        self.i += 1
        return tk

    def expr(self):
        left = self.term()
        while self.peek() in (("op", "+"), ("op", "-")):
            op = self.take()[1]
            left = (op, left, self.term())
        return left

    def term(self):
        left = self.unary()
        while self.peek() in (("op", "*"), ("op", "/"), ("op", ".*"), ("op", "./")):
            op = self.take()[1].lstrip(".")
            left = (op, left, self.unary())
        return left

    def unary(self):
        if self.peek() == ("op", "-"):
            self.take()
            return ("neg", self.unary())
        if self.peek() == ("op", "+"):
            self.take()
            return self.unary()
        return self.power()

    def power(self):
        base = self.postfix()
        if self.peek() in (("op", "**"), ("op", ".^"), ("op", "^")):
            self.take()
            return ("pow", base, self.unary())
        return base

    def postfix(self):
        a = self.atom()
        while self.peek() in (("op", ".powi"), ("op", ".powf")):
            self.take()
            self.take("(")
            e = self.expr()
            self.take(")")
            a = ("pow", a, e)
        return a

    def atom(self):
        tk = self.take()
        if tk[0] == "num":
            return ("num", tk[1], tk[2])
        if tk[0] == "name":
            if self.peek() == ("op", "("):
                self.take()
                args = []
                if self.peek() != ("op", ")"):
                    args.append(self.expr())
                    while self.peek() == ("op", ","):
                        self.take()
                        args.append(self.expr())
                self.take(")")
                if tk[1] in ("Math.pow", "pow", "math.pow") and len(args) == 2:
                    return ("pow", args[0], args[1])
                raise ParseError(f"unsupported call {tk[1]}")
            return ("name", tk[1])
        if tk == ("op", "("):
            e = self.expr()
            self.take(")")
            return e
        raise ParseError(f"unexpected {tk}")


def parse_expr(s: str):
    p = _P(tokenize(s))
    e = p.expr()
    if p.peek() != ("eof",):
        raise ParseError(f"trailing {p.peek()} in {s!r}")
    return e


def expr_names(e, out=None):
    out = [] if out is None else out
    if e[0] == "name":
        if e[1] not in out:
            out.append(e[1])
    elif e[0] != "num":
        for x in e[1:]:
            expr_names(x, out)
    return out


def strip_ann(e):
    """expression tree without the int/float literal distinction (for cross-language comparison)"""
    if e[0] == "num":
        return ("num", e[1])
    if e[0] == "name":
        return e
    return (e[0], *[strip_ann(x) for x in e[1:]])


class UndefinedName(Exception):
    def __init__(self, name):
        self.name = name


def eval_expr(e, env, guard=True) -> Fraction:
    tag = e[0]
    if tag == "num":
        v = e[1]
    elif tag == "name":
        if e[1] not in env:
            raise UndefinedName(e[1])
        v = env[e[1]]
    elif tag == "neg":
        v = -eval_expr(e[1], env, guard)
    elif tag == "pow":
        b = eval_expr(e[1], env, guard)
        x = eval_expr(e[2], env, guard)
        if x.denominator != 1 or abs(x) > 64:
            raise Inexact("non-integer power")
        if x < 0 and b == 0:
            raise Inexact("0**-n")
        v = b ** int(x)
    else:
        a, b = eval_expr(e[1], env, guard), eval_expr(e[2], env, guard)
        if tag == "+":
            v = a + b
        elif tag == "-":
            v = a - b
        elif tag == "*":
            v = a * b
        elif tag == "/":
            if b == 0:
                raise Inexact("division by zero")
            v = a / b
        else:
            raise ValueError(e)
    if guard and not is_dyadic_small(v):
        raise Inexact(str(v))
    return v


def int_float_mix(e) -> bool:
    """Rust: an integer literal combined arithmetically with an f64 value does not type-check.
    Returns True when the tree has a binary node one side of which is an integer literal and the
    other is not (names are f64)."""
    if e[0] in ("num", "name"):
        return False
    if e[0] == "neg":
        return int_float_mix(e[1])
    if e[0] == "pow":  # x.powi(2): integer exponent is what powi wants
        return int_float_mix(e[1])
    a, b = e[1], e[2]

    def is_int(x):
        return (x[0] == "num" and x[2]) or (x[0] == "neg" and is_int(x[1]))

    if is_int(a) != is_int(b):
        return True
    return int_float_mix(a) or int_float_mix(b)


# --------------------------------------------------------------------------- shrinking of failing inputs


def _referenced(content):
    used = set()
    for _, v in content["vars"] + content["pars"]:
        if "ia" in v:
            used |= set(v["ia"]["args"])
    for _, f in content["derived"]:
        used |= set(f["args"])
    for _, r in content["rxns"]:
        used |= set(r["args"])
        for cpd, c in r["st"]:
            used.add(cpd)
            used |= set(c.get("args", []))
    return used


def shrink_candidates(content):
    """smaller well-formed contents: drop an unreferenced component, a stoichiometry entry, simplify a function"""
    import copy

    used = _referenced(content)
    for kind in ("rxns", "derived", "pars", "vars"):
        for i, (k, _) in enumerate(content[kind]):
            if k in used or (kind == "rxns" and len(content["rxns"]) == 1) or (kind == "vars" and len(content["vars"]) == 1):
                continue
            c = copy.deepcopy(content)
            del c[kind][i]
            yield c
    for i, (_, r) in enumerate(content["rxns"]):
        for j in range(len(r["st"])):
            if len(r["st"]) > 1:
                c = copy.deepcopy(content)
                del c["rxns"][i][1]["st"][j]
                yield c
        for j, (_, cj) in enumerate(r["st"]):
            if "c" not in cj:
                c = copy.deepcopy(content)
                c["rxns"][i][1]["st"][j][1] = {"c": "1"}
                yield c

    def fns(c):
        for _, v in c["vars"] + c["pars"]:
            if "ia" in v:
                yield v["ia"]
        for _, f in c["derived"]:
            yield f
        for _, r in c["rxns"]:
            yield r

    n = sum(1 for _ in fns(content))
    for i in range(n):
        c = copy.deepcopy(content)
        f = list(fns(c))[i]
        simple = ["a", 0]
        for a in range(1, len(f["args"])):
            simple = ["+", simple, ["a", a]]
        if f["e"] != simple and not f.get("bad") and (f.get("name") is None or [g.get("name") for g in fns(content)].count(f.get("name")) == 1):
            f["e"] = simple
            yield c
        names = [g.get("name") for g in fns(content)]
        if len(f["args"]) > 1 and not f.get("bad") and (f.get("name") is None or names.count(f.get("name")) == 1):
            c2 = copy.deepcopy(content)
            f2 = list(fns(c2))[i]
            f2["args"] = f2["args"][:1]
            f2["e"] = ["a", 0]
            yield c2


def shrink(case, still_fails, budget: int = 60):
    """greedy delta debugging over `case["content"]`; `still_fails(case) -> bool` re-runs R and S"""
    import copy

    cur = copy.deepcopy(case)
    spent = 0
    progress = True
    while progress and spent < budget:
        progress = False
        for cand in shrink_candidates(cur["content"]):
            if spent >= budget:
                break
            trial = dict(cur, content=cand)
            spent += 1
            try:
                if still_fails(trial):
                    cur = trial
                    progress = True
                    break
            except Exception:  # noqa: BLE001  a candidate the harness cannot build is just not a witness
                continue
    return cur, spent


def answer_exact(ans, bits: int = 48) -> bool:
    """every rational in a canonical answer is a dyadic of at most `bits` bits, so the real model's double
    arithmetic (including the final stoichiometric sums, which the spec does not guard) was exact"""
    if isinstance(ans, str):
        try:
            return is_dyadic_small(Fraction(ans), bits)
        except (ValueError, ZeroDivisionError):
            return True
    if isinstance(ans, dict):
        return all(answer_exact(v, bits) for v in ans.values())
    if isinstance(ans, (list, tuple)):
        return all(answer_exact(v, bits) for v in ans)
    return True


__all__ = [n for n in dir() if not n.startswith("_")]
_ = rat_str
