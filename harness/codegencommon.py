"""Shared by C07 and C11: content generator with named functions, real-model builder, a small
expression parser for the four sympy code printers' syntaxes, exact evaluation, polynomial
normal form (used to make sure every function argument matters after sympy's simplification).

Wire form is vlib.content's (`vars`/`pars`/`derived`/`rxns`), with two optional extras per FN:
  "name": the Python function's `__name__` (same name + same expression = the same function object,
          same name + different expression = two different functions that share a name)
  "bad":  true -> the function is written with a `for` loop, which `fn_to_sympy` cannot translate
"""
from __future__ import annotations

import copy
import itertools
import linecache
import re
from fractions import Fraction

from vlib import fexpr
from vlib.fexpr import Inexact, is_dyadic_small, rat_str

_counter = itertools.count()

# --------------------------------------------------------------------------- functions


def poly(e, arity):
    """expression -> {monomial exponents tuple: Fraction} (exact normal form)"""
    tag = e[0]
    if tag == "a":
        m = [0] * arity
        m[e[1]] = 1
        return {tuple(m): Fraction(1)}
    if tag == "c":
        q = Fraction(e[1])
        return {tuple([0] * arity): q} if q else {}
    if tag == "neg":
        return {m: -c for m, c in poly(e[1], arity).items()}
    a, b = poly(e[1], arity), poly(e[2], arity)
    if tag in "+-":
        out = dict(a)
        for m, c in b.items():
            out[m] = out.get(m, 0) + (c if tag == "+" else -c)
        return {m: c for m, c in out.items() if c}
    if tag == "*":
        out = {}
        for m1, c1 in a.items():
            for m2, c2 in b.items():
                m = tuple(x + y for x, y in zip(m1, m2))
                out[m] = out.get(m, 0) + c1 * c2
        return {m: c for m, c in out.items() if c}
    raise ValueError(e)


def depends_on_all(e, arity) -> bool:
    p = poly(e, arity)
    return all(any(m[i] for m in p) for i in range(arity))


def merge_positions(e, idx):
    if e[0] == "a":
        return ["a", idx[e[1]]]
    if e[0] == "c":
        return e
    return [e[0], *[merge_positions(x, idx) for x in e[1:]]]


def depends_on_all_names(e, args) -> bool:
    """every distinct model name passed to the function survives simplification of f(args)"""
    names = list(dict.fromkeys(args))
    return depends_on_all(merge_positions(e, [names.index(a) for a in args]), len(names))


def gen_fn_expr(rng, args, depth=2):
    """random + - * expression of len(args) positions in which every model name matters"""
    arity = len(args)
    for _ in range(50):
        e = fexpr.gen_expr(rng, arity, depth)
        if depends_on_all(e, arity) and depends_on_all_names(e, args):
            return e
    e = ["a", 0] if arity else ["c", "1"]
    for i in range(1, arity):
        e = ["+", e, ["a", i]]
    return e


def compile_named(name: str, e, arity: int, bad=False, params=None):
    """real Python function with the given `__name__`; source registered with linecache.  `params`: the names of the
    function's own parameters (default a0, a1, ...) - strata let them coincide with model names at other positions"""
    argn = list(params) if params else [f"a{i}" for i in range(arity)]
    body = fexpr.src_expr(e, argn)
    if bad == "loop":    # a statement kind fn_to_sympy does not know
        src = (f"def {name}({', '.join(argn)}):\n    acc = 0.0\n    for _i in range(1):\n"
               f"        acc = acc + {body}\n    return acc\n")
    elif bad:            # an expression kind fn_to_sympy refuses (list display / subscript)
        src = f"def {name}({', '.join(argn)}):\n    return [{body}][0]\n"
    else:
        src = f"def {name}({', '.join(argn)}):\n    return {body}\n"
    filename = f"<mxlverif-cg-{name}-{next(_counter)}>"
    linecache.cache[filename] = (len(src), None, src.splitlines(True), filename)
    ns: dict = {}
    exec(compile(src, filename, "exec"), ns)  # noqa: S102
    fn = ns[name]
    fn.__module__ = "__main__"
    return fn


def src_expr_x(e, argnames) -> str:
    """source text of an expression of the wider fragment: + - * / % ** neg, constants, arguments and
    ["k", NAME] = a module-level float constant of the function's module"""
    tag = e[0]
    if tag == "a":
        return argnames[e[1]]
    if tag == "k":
        return e[1]
    if tag == "m":          # ["m", "pi" | "e"]: a constant of the math module, written fully qualified
        return f"math.{e[1]}"
    if tag == "c":
        q = Fraction(e[1])
        f = fexpr.to_float(q)
        return repr(f) if f >= 0 else f"({f!r})"
    if tag == "neg":
        return f"(-{src_expr_x(e[1], argnames)})"
    if tag in ("+", "-", "*", "/", "%", "**"):
        return f"({src_expr_x(e[1], argnames)} {tag} {src_expr_x(e[2], argnames)})"
    raise ValueError(e)


def inline_consts(e, consts: dict):
    """the same expression with module constants replaced by their values (what Lean / the spec see)"""
    if e[0] == "k":
        return ["c", str(consts[e[1]])]
    if e[0] in ("a", "c", "m"):
        return e
    return [e[0], *[inline_consts(x, consts) for x in e[1:]]]


def compile_in_module(name: str, src_e, arity: int, floats):
    """real Python function defined in its own (in-memory, registered) module that also has module-level
    floats: some are read by the function, some merely share a name with one of its parameters"""
    import sys
    import types

    argn = [f"a{i}" for i in range(arity)]
    modname = f"mxlverif_cgmod_{next(_counter)}"
    lines = [f"{k} = {fexpr.to_float(Fraction(v))!r}" for k, v in floats]
    if isinstance(src_e, dict):      # statement-level body (conditionals, local imports), see gen_cond_src
        for hname, hsrc in src_e.get("helper_modules", []):
            if hname not in sys.modules:
                hfile = f"<{hname}>"
                linecache.cache[hfile] = (len(hsrc), None, hsrc.splitlines(True), hfile)
                hmod = types.ModuleType(hname)
                hmod.__file__ = hfile
                sys.modules[hname] = hmod
                exec(compile(hsrc, hfile, "exec"), hmod.__dict__)  # noqa: S102
        body = "\n".join("    " + ln for ln in src_e["body"])
        src = "\n".join(lines + src_e.get("module_level", [])) + f"\n\n\ndef {name}({', '.join(argn)}):\n{body}\n"
    else:
        src = "\n".join(lines) + f"\n\n\ndef {name}({', '.join(argn)}):\n    return {src_expr_x(src_e, argn)}\n"
    if "math." in src:
        src = "import math\n" + src
    filename = f"<{modname}>"
    linecache.cache[filename] = (len(src), None, src.splitlines(True), filename)
    mod = types.ModuleType(modname)
    mod.__file__ = filename
    sys.modules[modname] = mod
    exec(compile(src, filename, "exec"), mod.__dict__)  # noqa: S102
    return mod.__dict__[name], mod


class FnPool:
    """one function object per (name, body, arity, bad): sharing in the wire form is sharing here"""

    def __init__(self):
        self.by = {}
        self.mods = []      # (module, floats2) of functions living in their own module
        self.auto = itertools.count()

    def get(self, d):
        arity = len(d["args"])
        name = d.get("name") or f"fn{next(self.auto)}"
        body = d.get("src") or d["e"]
        params = d.get("params")
        if d.get("src") or not params or len(params) != arity or len(set(params)) != arity:
            params = None
        # "copy": another function OBJECT with the same name and the same source text (a helper copied into two modules)
        key = (name, repr(body), arity, d.get("bad") or False, tuple(params or ()), d.get("copy", 0))
        if key not in self.by:
            if d.get("src"):
                fn, mod = compile_in_module(name, d["src"]["e"], arity, d["src"]["floats"])
                self.mods.append((mod, d["src"].get("floats2") or []))
                self.by[key] = fn
            else:
                self.by[key] = compile_named(name, d["e"], arity, d.get("bad") or False, params)
        return self.by[key]

    def mutate(self):
        """session step: the module-level constants take their second values"""
        for mod, floats2 in self.mods:
            for k, v in floats2:
                setattr(mod, k, fexpr.to_float(Fraction(v)))

    def cleanup(self):
        import sys

        for mod, _ in self.mods:
            sys.modules.pop(mod.__name__, None)
            linecache.cache.pop(mod.__file__, None)
        self.mods = []


def cleanup_helpers():
    """remove the helper modules of function-local imports (once per worker call, after every model is done)"""
    import sys

    for k in [k for k in sys.modules if k.startswith("mxlverif_helper_")]:
        sys.modules.pop(k, None)
        linecache.cache.pop(f"<{k}>", None)


def build_model(content, rng=None, pool=None):
    """real `Model` from the wire form; kinds interleaved at random when rng is given"""
    from mxlpy import Model
    from mxlpy.types import Derived, InitialAssignment

    from vlib import content as C

    pool = pool if pool is not None else FnPool()
    m = Model()
    for kind, name, p in C.decl_sequence(content, rng):
        if kind in ("var", "par"):
            if "v" in p:
                val = fexpr.to_float(Fraction(p["v"]))
            else:
                val = InitialAssignment(fn=pool.get(p["ia"]), args=list(p["ia"]["args"]))
            (m.add_variable if kind == "var" else m.add_parameter)(name, val)
        elif kind == "derived":
            m.add_derived(name, fn=pool.get(p), args=list(p["args"]))
        elif kind == "rxn":
            st = {}
            for cpd, cj in p["st"]:
                if "c" in cj:
                    v = Fraction(cj["c"])
                    st[cpd] = int(v) if cj.get("int") else fexpr.to_float(v)
                else:
                    st[cpd] = Derived(fn=pool.get(cj), args=list(cj["args"]))
            m.add_reaction(name, fn=pool.get(p), args=list(p["args"]), stoichiometry=st)
        elif kind == "readout":
            m.add_readout(name, fn=pool.get(p), args=list(p["args"]))
        else:
            raise ValueError(kind)
    return m


# --------------------------------------------------------------------------- generator


def all_fns(content):
    for _, v in content["vars"] + content["pars"]:
        if "ia" in v:
            yield v["ia"]
    for _, f in content["derived"]:
        yield f
    for _, r in content["rxns"]:
        yield r
        for _, cj in r["st"]:
            if "c" not in cj:
                yield cj
    for _, f in content.get("readouts", []):
        yield f


def attach_module_consts(rng, d):
    """put the function into a module of its own with module-level floats: one or two that the body reads
    (with a second value for a later session step) and some that only share a name with a parameter"""
    consts, consts2, src_e = {}, {}, copy.deepcopy(d["e"])
    for i in range(rng.randint(1, 2)):
        k = rng.choice(["KM", "VMAX", "SCALE", "OFFSET"]) + str(i)
        consts[k] = rng.choice(["2", "3", "1/2", "-1"])
        consts2[k] = rng.choice([v for v in ["2", "3", "1/2", "-1", "4"] if v != consts[k]])
        src_e = [rng.choice(["*", "+", "-"]), src_e, ["k", k]] if rng.random() < 0.7 else ["*", ["k", k], src_e]
    shadows = [[f"a{i}", rng.choice(["5", "7", "1/4", "-3"])] for i in range(len(d["args"])) if rng.random() < 0.6]
    src = {"e": src_e, "floats": [[k, v] for k, v in consts.items()] + shadows,
           "floats2": [[k, v] for k, v in consts2.items()]}
    e1, e2 = inline_consts(src_e, consts), inline_consts(src_e, consts2)
    if not (depends_on_all_names(e1, d["args"]) and depends_on_all_names(e2, d["args"])):
        return d        # a constant would cancel an argument: leave the function as it is
    d["src"] = src
    d["e"], d["e2"] = e1, e2
    return d


COND_VALUES = (-2, -1, 0, 1, 2)      # variable / parameter values of the conditional strata


def gen_cond_src(rng, arity):
    """a function body with control flow on its arguments: if / elif / else returns (also without a final else, the
    remaining case returned after the chain), conditional expressions, every comparison operator (also chained,
    also against 0 and against other arguments, so that boundaries and signs are hit at small integer states),
    magnitudes (x**2)**0.5, and a helper imported inside the body while the function's module binds another
    callable to the same name"""
    argn = [f"a{i}" for i in range(arity)]

    def E():
        return fexpr.src_expr(fexpr.gen_expr(rng, arity, 1, consts=(-2, -1, 1, 2, 3)), argn)

    def atom():
        r = rng.random()
        if r < 0.6:
            return rng.choice(argn)
        if r < 0.85:
            return f"({rng.choice(argn)} {rng.choice('+-')} {rng.choice(argn)})"
        return repr(float(rng.choice([-1, 0, 1, 2])))

    def const():
        return repr(float(rng.choice([-1, 0, 0, 0, 1, 2])))

    def C():
        a = atom()
        if rng.random() < 0.15:
            lo, hi = sorted(rng.sample([-2, -1, 0, 1, 2], 2))
            return f"{float(lo)!r} {rng.choice(['<', '<='])} {a} {rng.choice(['<', '<='])} {float(hi)!r}"
        b = const() if rng.random() < 0.6 else rng.choice(argn)
        return f"{a} {rng.choice(['<', '<=', '>', '>=', '<', '<=', '==', '!='])} {b}"

    out = {"module_level": [], "helper_modules": []}
    shape = rng.choice(["ifelse", "elif_else", "elif_noelse", "elif_noelse", "if_return", "if_return", "ifexp",
                        "nested_ifexp", "magnitude", "magnitude", "local_import"])
    # (abs / min / max of a symbolic argument are always refused by fn_to_sympy -- KNOWN_FNS results are wrapped
    #  in sympy.Float -- so they cannot reach generated code; magnitudes are written (x**2)**0.5)
    if shape == "ifelse":
        body = [f"if {C()}:", f"    return {E()}", "else:", f"    return {E()}"]
    elif shape == "elif_else":
        body = [f"if {C()}:", f"    return {E()}", f"elif {C()}:", f"    return {E()}", "else:", f"    return {E()}"]
    elif shape == "elif_noelse":
        body = [f"if {C()}:", f"    return {E()}", f"elif {C()}:", f"    return {E()}"]
        if rng.random() < 0.4:
            body += [f"elif {C()}:", f"    return {E()}"]
        body += [f"return {E()}"]
    elif shape == "if_return":
        guard = f"{rng.choice(argn)} {rng.choice(['<', '<=', '>', '>='])} 0.0" if rng.random() < 0.6 else C()
        body = [f"if {guard}:", f"    return {rng.choice(['0.0', E()])}", f"return {E()}"]
    elif shape == "ifexp":
        body = [f"return {E()} if {C()} else {E()}"]
    elif shape == "nested_ifexp":
        body = [f"return {E()} if {C()} else ({E()} if {C()} else {E()})"]
    elif shape == "magnitude":
        body = [f"return ({rng.choice(argn)} ** 2.0) ** 0.5 + {E()}"]
    else:
        hm = f"mxlverif_helper_{rng.randrange(1 << 40)}"
        out["helper_modules"] = [[hm, "def helper(u, v):\n    return u * v + 1.0\n"]]
        out["module_level"] = ["", "", "def helper(u, v):", "    return u - v"]     # another callable, same name
        a, b = rng.choice(argn), rng.choice(argn)
        body = [f"from {hm} import helper", "", f"return helper({a}, {b}) + {E()}"]
    out["body"] = body
    out["shape"] = shape
    return out


def cond_grid_contents():
    """Seed-independent: one small model (variable x, parameter p, one reaction r(x, p) with dx/dt = -r, one derived
    value) per representative control-flow body and per parameter value in {-1, 0, 1}; to be evaluated at every
    x in {-2, …, 2}: every comparison operator with the threshold in reach, a sign guard, elif chains with and
    without final else, nested / chained conditions, a magnitude, a local import shadowing a module-level name"""
    bodies = []
    for op in ("<", "<=", ">", ">=", "==", "!="):
        bodies.append([f"if a0 {op} a1:", "    return (a0 + 1.0)", "else:", "    return (a0 - 2.0)"])
        bodies.append([f"return (a0 * 2.0) if a0 {op} 0.0 else (a1 - a0)"])
    bodies += [
        ["if a0 < 0.0:", "    return 0.0", "return (a0 * a1)"],
        ["if a0 >= 0.0:", "    return (a0 + a1)", "return (0.0 - a0)"],
        ["if a0 < a1:", "    return (a0 - a1)", "elif a0 <= 1.0:", "    return (a0 * 2.0)", "return (a1 + 3.0)"],
        ["if a0 < -1.0:", "    return 1.0", "elif a0 < 0.0:", "    return 2.0", "elif a0 == 0.0:", "    return 3.0",
         "else:", "    return (a0 + a1)"],
        ["return 1.0 if a0 < a1 else (2.0 if a0 == a1 else 3.0)"],
        ["if -1.0 <= a0 < 1.0:", "    return (a0 + a1)", "else:", "    return (a0 * a1)"],
        ["return (a0 ** 2.0) ** 0.5 + a1"],
        ["return ((a0 - a1) ** 2.0) ** 0.5"],
    ]
    out = []
    for bi, body in enumerate(bodies):
        for pv in ("-1", "0", "1"):
            src = {"body": body, "module_level": [], "helper_modules": [], "shape": f"grid{bi}"}
            out.append(_grid_content(src, pv, f"g{bi}"))
    for pv in ("-1", "0", "1"):
        hm = f"mxlverif_helper_grid{pv.replace('-', 'm')}"
        src = {"body": [f"from {hm} import helper", "", "return helper(a0, a1) + a0"],
               "module_level": ["", "", "def helper(u, v):", "    return u - v"],
               "helper_modules": [[hm, "def helper(u, v):\n    return u * v + 1.0\n"]], "shape": "grid-local-import"}
        out.append(_grid_content(src, pv, "gimp"))
    return out


def _grid_content(src, pv, name):
    fn = {"args": ["x", "p"], "e": ["a", 0], "rich": True, "name": name, "src": {"e": src, "floats": []}}
    der = {"args": ["p", "x"], "e": ["a", 0], "rich": True, "name": name + "d",
           "src": {"e": dict(src, shape=src["shape"] + "-swapped"), "floats": []}}
    return {"vars": [["x", {"v": "1"}]], "pars": [["p", {"v": pv}]], "derived": [["d", der]],
            "rxns": [["r", dict(fn, st=[["x", {"c": "-1"}]])]]}


def eval_rich(e, xs, guard=True):
    """exact value of an expression of the wider fragment (Python semantics of % on rationals); with `guard`
    every intermediate value must be a small dyadic, i.e. double arithmetic is exact at this point"""
    import math

    tag = e[0]
    if tag == "a":
        v = Fraction(xs[e[1]])
    elif tag == "c":
        v = Fraction(e[1])
    elif tag == "m":
        raise Inexact(e[1])
    elif tag == "neg":
        v = -eval_rich(e[1], xs, guard)
    else:
        a, b = eval_rich(e[1], xs, guard), eval_rich(e[2], xs, guard)
        if tag == "+":
            v = a + b
        elif tag == "-":
            v = a - b
        elif tag == "*":
            v = a * b
        elif tag == "/":
            v = a / b
        elif tag == "%":
            v = a - b * math.floor(a / b)
        elif tag == "**":
            v = a ** int(b)
        else:
            raise ValueError(e)
    if guard and not is_dyadic_small(v, 40):
        raise Inexact(str(v))
    return v


def _rich_names(e, argnames, out):
    if e[0] == "a":
        out.add(argnames[e[1]])
    elif e[0] not in ("c", "k", "m"):
        for x in e[1:]:
            _rich_names(x, argnames, out)
    return out


def rich_classes(content) -> set:
    """input-level classes of the wider fragment that hit known third-party defects:
    "recip-modulus": some remainder's divisor is, in sympy's normal form, a bare reciprocal (printed `x % 1/p`);
    "shared-modulus": the two operands of some remainder mention a common model name (sympy's automatic
    simplification of Mod with a common symbolic factor)"""
    import sympy

    out = set()

    def sym(e, names):
        tag = e[0]
        if tag == "a":
            return sympy.Symbol(names[e[1]])
        if tag == "c":
            return sympy.Float(float(Fraction(e[1])))
        if tag == "m":
            return {"pi": sympy.pi, "e": sympy.E, "tau": 2 * sympy.pi}[e[1]]
        if tag == "neg":
            return -sym(e[1], names)
        a, b = sym(e[1], names), sym(e[2], names)
        return {"+": lambda: a + b, "-": lambda: a - b, "*": lambda: a * b, "/": lambda: a / b,
                "%": lambda: a % b, "**": lambda: a ** b}[tag]()

    def walk(e, names):
        if e[0] in ("a", "c", "k", "m"):
            return
        if e[0] == "%":
            if _rich_names(e[1], names, set()) & _rich_names(e[2], names, set()):
                out.add("shared-modulus")
            try:
                d = sym(e[2], names)
                if isinstance(d, sympy.Pow) and d.exp == -1:
                    out.add("recip-modulus")
            except Exception:  # noqa: BLE001  zero division while normalising: the model raises as well
                pass
        for x in e[1:]:
            walk(x, names)

    for f in all_fns(content):
        if f.get("rich") and not isinstance(f["src"]["e"], dict):
            walk(f["src"]["e"], list(f["args"]))
    return out


RICH_VALUES = (1, 2, 4, 8, Fraction(1, 2))     # every variable / parameter value of the wider-fragment strata


def eval_float(e, xs) -> float:
    """double value of an expression of the wider fragment with math constants (Python semantics)"""
    import math

    tag = e[0]
    if tag == "a":
        return float(xs[e[1]])
    if tag == "c":
        return float(Fraction(e[1]))
    if tag == "m":
        return {"pi": math.pi, "e": math.e, "tau": math.tau}[e[1]]
    if tag == "neg":
        return -eval_float(e[1], xs)
    a, b = eval_float(e[1], xs), eval_float(e[2], xs)
    return {"+": lambda: a + b, "-": lambda: a - b, "*": lambda: a * b, "/": lambda: a / b, "%": lambda: a % b,
            "**": lambda: a ** b}[tag]()


def _mods(e):
    if e[0] in ("a", "c", "k", "m"):
        return
    if e[0] == "%":
        yield e
    for x in e[1:]:
        yield from _mods(x)


def gen_math_expr(rng, arity):
    """expressions in which a constant of the math module (math.pi, math.e) is a factor, a summand, a divisor, or - times
    a number - the modulus of a remainder (`x % (2*math.pi)`), over arguments that are variables / parameters.  Values
    are irrational, so the strata using these compare to a relative tolerance; a remainder is only kept when at every
    argument tuple of RICH_VALUES the quotient stays 1e-6 away from an integer (no flip between the model and the
    generated code) and the two operands of a remainder mention disjoint arguments."""
    def M():
        return ["m", rng.choice(["pi", "pi", "e"])]

    def cM():
        r = rng.random()
        if r < 0.4:
            return ["*", ["c", str(rng.choice([2, 3, "1/2"]))], M()]
        if r < 0.6:
            return ["*", M(), ["c", str(rng.choice([2, 4]))]]
        if r < 0.75:
            return ["/", M(), ["c", str(rng.choice([2, 4]))]]
        return M()

    def A(allowed):
        a = ["a", rng.choice(allowed)]
        r = rng.random()
        if r < 0.3 and len(allowed) > 1:
            return [rng.choice(["*", "+"]), a, ["a", rng.choice(allowed)]]
        if r < 0.5:
            return [rng.choice(["*", "+"]), a, ["c", str(rng.choice([2, 3, "1/2"]))]]
        return a

    for _ in range(60):
        idx = list(range(arity))
        kind = rng.choice(["factor", "summand", "divisor", "modulus", "modulus", "modulus-sum", "dividend"])
        if kind == "factor":
            e = ["*", A(idx), cM()] if rng.random() < 0.5 else ["*", cM(), A(idx)]
        elif kind == "summand":
            e = [rng.choice(["+", "-"]), A(idx), cM()]
        elif kind == "divisor":
            e = ["/", A(idx), cM()]
        elif kind == "modulus":
            e = ["%", A(idx), cM()]
        elif kind == "modulus-sum":
            e = ["+", ["%", ["*", A(idx), ["c", "3"]], cM()], ["c", "1"]]
        else:
            e = ["%", ["*", cM(), ["c", str(rng.choice([3, 5]))]], ["c", str(rng.choice([2, 4]))]]
        used = _rich_names(e, [str(i) for i in range(arity)], set())
        for i in range(arity):
            if str(i) not in used:
                e = [rng.choice(["+", "*"]), e, ["a", i]]
        ok = True
        try:
            for xs in itertools.product(RICH_VALUES, repeat=arity):
                eval_float(e, xs)
                for m in _mods(e):
                    q = eval_float(m[1], xs) / eval_float(m[2], xs)
                    if abs(q - round(q)) < 1e-6:
                        ok = False
        except ZeroDivisionError:
            ok = False
        if ok:
            return e
    return ["*", ["a", 0], ["m", "pi"]]


def gen_rich_expr(rng, arity, depth=3, share_mod=False):
    """like `_gen_rich_expr`, but no divisor / modulus vanishes at sampled power-of-two arguments"""
    for _ in range(60):
        e = _gen_rich_expr(rng, arity, depth, share_mod)
        try:    # at EVERY argument tuple the strata can produce: no zero divisor, and double arithmetic is exact
            for xs in itertools.product(RICH_VALUES, repeat=arity):
                eval_rich(e, xs)
        except (ZeroDivisionError, Inexact):
            continue
        return e
    e = ["a", 0]
    for i in range(1, arity):
        e = ["%", ["*", e, ["c", "3"]], ["*", ["a", i], ["c", "2"]]]
    return e


def _gen_rich_expr(rng, arity, depth=3, share_mod=False):
    """expressions beyond + - *: / % ** and unary minus, nested, with products / sums / quotients as operands.
    Unless `share_mod`, the two operands of a remainder mention disjoint arguments (sympy's automatic
    simplification of Mod with a common symbolic factor is unsound, see finding F-C07-10 / F-C11-4)."""
    def leaf(allowed):
        if allowed and rng.random() < 0.75:
            return ["a", rng.choice(allowed)]
        return ["c", str(rng.choice([2, 3, 4, "1/2", "3/2", 5]))]

    def mult(d, allowed):     # a product / quotient / power of arguments and powers of two
        if d == 0 or rng.random() < 0.3:
            if allowed and rng.random() < 0.8:
                return ["a", rng.choice(allowed)]
            return ["c", str(rng.choice([2, 4, "1/2"]))]
        op = rng.choice(["*", "*", "/", "**"])
        if op == "**":
            return ["**", mult(d - 1, allowed), ["c", "2"]]
        return [op, mult(d - 1, allowed), mult(d - 1, allowed)]

    def go(d, allowed):
        if d == 0 or rng.random() < 0.15:
            return leaf(allowed)
        op = rng.choice(["+", "-", "*", "*", "/", "/", "%", "%", "**", "neg"])
        if op == "neg":
            return ["neg", go(d - 1, allowed)]
        if op == "**":
            return ["**", go(d - 1, allowed), ["c", str(rng.choice([2, 3]))]]
        if op == "/":
            return ["/", go(d - 1, allowed), mult(d - 1, allowed)]
        if op == "%" and not share_mod:
            sh = list(allowed)
            rng.shuffle(sh)
            cut = rng.randint(1, len(sh) - 1) if len(sh) >= 2 else len(sh)
            left, right = sh[:cut], sh[cut:]
            if rng.random() < 0.5:
                left, right = right, left
            return ["%", go(d - 1, left), go(d - 1, right)]
        return [op, go(d - 1, allowed), go(d - 1, allowed)]

    e = go(depth, list(range(arity)))
    used = set()

    def collect(x):
        if x[0] == "a":
            used.add(x[1])
        elif x[0] not in ("c", "k", "m"):
            for y in x[1:]:
                collect(y)

    collect(e)
    for i in range(arity):
        if i not in used:
            e = [rng.choice(["+", "*", "%", "/"] if share_mod else ["+", "*", "/"]), e, ["a", i]]
    return e


class Namer:
    """chooses `__name__`s: fresh, shared (the same function object reused with other arguments), colliding
    (another function, same name) or meeting the generator's derived keys"""

    def __init__(self, rng, p_share, p_collide=0.0, p_cross=0.0):
        self.rng, self.p_share, self.p_collide, self.p_cross = rng, p_share, p_collide, p_cross
        self.reg = []  # (name, body dict, arity)
        self.n = 0

    @staticmethod
    def _body(d):
        return {k: copy.deepcopy(d[k]) for k in ("e", "src", "e2", "rich", "params") if k in d}

    def __call__(self, rng, role, d):
        arity = len(d["args"])
        same = [r for r in self.reg if r[2] == arity]
        x = rng.random()
        if same and x < self.p_share:
            name, body, _ = rng.choice(same)
            # share only if every model name passed still matters (f(x, p, x) may cancel x)
            if body.get("rich") or (depends_on_all_names(body["e"], d["args"])
                                    and ("e2" not in body or depends_on_all_names(body["e2"], d["args"]))):
                for k in ("e", "src", "e2", "rich", "params"):
                    d.pop(k, None)
                d.update(copy.deepcopy(body))
                return name
        if same and x < self.p_share + self.p_collide:
            name = rng.choice(same)[0]          # another function, same __name__, same arity
            self.reg.append((name, self._body(d), arity))
            return name
        if same and x < self.p_share + self.p_collide + self.p_cross:
            base = rng.choice(same)[0]          # names that meet the generator's derived keys (same arity)
            name = rng.choice([f"init_{base}", f"r0_stoich_{base}", f"r1_stoich_{base}"])
            while any(r[0] == name and r[2] == arity for r in self.reg) and rng.random() < 0.7:
                name += "_"                     # ... and the names the generator would move on to
            if any(r[0] == name and r[2] != arity for r in self.reg) or len(name) > 40:
                name = f"f{self.n}"
                self.n += 1
        else:
            name = f"f{self.n}"
            self.n += 1
        self.reg.append((name, self._body(d), arity))
        return name


def content_phase2(content):
    """the content after the session step: module constants have their second values"""
    c = copy.deepcopy(content)
    for f in all_fns(c):
        if "e2" in f:
            f["e"] = f.pop("e2")
            merged = dict(map(tuple, f["src"]["floats"]))
            merged.update(dict(map(tuple, f["src"].get("floats2") or [])))
            f["src"]["floats"] = [[k, v] for k, v in merged.items()]
            f["src"]["floats2"] = []
    return c


def has_session(content) -> bool:
    return any("e2" in f for f in all_fns(content))


def gen_content(rng, *, n_vars=(1, 4), n_pars=(0, 3), n_comps=(1, 7), p_ia_par=0.0, p_ia_var=0.0, p_time=0.15,
                all_vars_have_eq=True, p_dyn_coef=0.3, shuffle=True, name_fn=None, p_dup_arg=0.0,
                small=(1, 2, 3), p_modconst=0.0, rich=False, p_param_names=0.0):
    """Random well-formed surrogate-free content (complete and acyclic by construction).
    `name_fn(rng, role) -> str | None` chooses function names (None = fresh unique name)."""
    nv = rng.randint(*n_vars)
    npar = rng.randint(*n_pars)
    vars_, pars, derived, rxns = [], [], [], []
    pool = []
    var_names = [f"x{i}" for i in range(nv)]
    ia_vars = [k for i, k in enumerate(var_names) if i > 0 and rng.random() < p_ia_var]
    for k in var_names:
        if k not in ia_vars:
            vars_.append([k, {"v": str(rng.choice(small))}])
            pool.append(k)
    for i in range(npar):
        k = f"p{i}"
        pars.append([k, {"v": str(rng.choice(list(small) + ["1/2"]))}])
        pool.append(k)
    if rng.random() < p_time:
        pool.append("time")
    if not pool:
        pool.append("time")

    def pick_args(lo=1, hi=3):
        n = rng.randint(lo, hi)
        if rng.random() < p_dup_arg and n >= 2:
            a = [rng.choice(pool) for _ in range(n - 1)]
            a.insert(rng.randrange(n), rng.choice(a))
            return a
        if len(pool) >= n and rng.random() < 0.85:
            return rng.sample(pool, n)
        return [rng.choice(pool) for _ in range(n)]

    base_pool = list(pool)

    def mkfn(role, depth=2, lo=1, hi=3):
        args = pick_args(lo, hi)
        if rich:   # wider fragment: arguments are variables / parameters only (see gen_rich_expr)
            args = [rng.choice(base_pool) for _ in args]
        d = {"args": args, "e": gen_fn_expr(rng, args, depth)}
        if (p_param_names and not rich and rng.random() < p_param_names and "time" not in args
                and len(set(args)) == len(args)):
            # the function's own parameter names coincide with the model names it is called with, at other positions
            # (rotated / reversed), or at the same positions when there is only one
            d["params"] = ((args[1:] + args[:1]) if rng.random() < 0.6 else list(reversed(args))) if len(args) >= 2 else list(args)
        if rich:
            d["rich"] = True
            if rich == "cond":
                d["src"] = {"e": gen_cond_src(rng, len(args)), "floats": []}
            elif rich == "math":
                d["src"] = {"e": gen_math_expr(rng, len(args)), "floats": []}
            else:
                d["src"] = {"e": gen_rich_expr(rng, len(args), depth + 1), "floats": []}
        elif rng.random() < p_modconst:
            d.pop("params", None)
            attach_module_consts(rng, d)
        if name_fn is not None:
            nm = name_fn(rng, role, d)
            if nm:
                d["name"] = nm
        return d

    def mkcoef():
        if rng.random() >= p_dyn_coef:
            return {"c": str(rng.choice([-2, -1, 1, 2, "1/2", "-1/2", 3]))}
        return mkfn("coef", 1, 1, 2)

    kinds = []
    for _ in range(rng.randint(*n_comps)):
        r = rng.random()
        kinds.append("derived" if r < 0.45 else "rxn" if r < 0.9 else "iapar")
    kinds = [k for k in kinds if k != "iapar" or rng.random() < p_ia_par * 5]
    kinds += ["iavar"] * len(ia_vars)
    rng.shuffle(kinds)
    if "rxn" not in kinds:
        kinds.append("rxn")
    cnt = {"derived": 0, "rxn": 0, "iapar": 0}
    ia_iter = iter(ia_vars)
    for kd in kinds:
        if kd == "derived":
            k = f"d{cnt['derived']}"
            cnt["derived"] += 1
            derived.append([k, mkfn("derived")])
            pool.append(k)
        elif kd == "rxn":
            k = f"r{cnt['rxn']}"
            cnt["rxn"] += 1
            f = mkfn("rxn")
            f["st"] = [[c, mkcoef()] for c in rng.sample(var_names, rng.randint(1, min(3, nv)))]
            rxns.append([k, f])
            pool.append(k)
        elif kd == "iapar":
            k = f"q{cnt['iapar']}"
            cnt["iapar"] += 1
            pars.append([k, {"ia": mkfn("ia", 1)}])
            pool.append(k)
        else:
            k = next(ia_iter)
            vars_.append([k, {"ia": mkfn("ia", 1)}])
            pool.append(k)
    if all_vars_have_eq:
        have = {c for _, r in rxns for c, _ in r["st"]}
        for v in var_names:
            if v not in have:
                _, r = rng.choice(rxns)
                r["st"].append([v, mkcoef()])
    if shuffle:
        for lst in (vars_, pars, derived, rxns):
            rng.shuffle(lst)
    return {"vars": vars_, "pars": pars, "derived": derived, "rxns": rxns}


def features(content):
    have = {c for _, r in content["rxns"] for c, _ in r["st"]}
    iap = {k for k, v in content["pars"] if "ia" in v}
    used = set()
    for _, f in content["derived"]:
        used |= set(f["args"])
    for _, r in content["rxns"]:
        used |= set(r["args"])
        for _, c in r["st"]:
            used |= set(c.get("args", []))
    return {
        "ia_par": any("ia" in v for _, v in content["pars"]),
        "ia_par_used": bool(iap & used),
        "ia_var": any("ia" in v for _, v in content["vars"]),
        "var_without_eq": any(k not in have for k, _ in content["vars"]),
        "no_eq": len(have) == 0 and len(content["vars"]) > 0,
        # a component (or `time`) is called like a generated derivative name d<x>dt
        "dname_clash": bool({f"d{k}dt" for k, _ in content["vars"]}
                            & ({k for kind in ("vars", "pars", "derived", "rxns") for k, _ in content[kind]} | {"time"})),
        "one_var": len(content["vars"]) == 1,
        "dyn_coef": any("c" not in c for _, r in content["rxns"] for _, c in r["st"]),
    }


def shape_of(content) -> str:
    f = features(content)
    return (f"v{len(content['vars'])}p{len(content['pars'])}d{len(content['derived'])}r{len(content['rxns'])}"
            f"{'+iapar' if f['ia_par'] else ''}{'+iavar' if f['ia_var'] else ''}"
            f"{'+noeq' if f['var_without_eq'] else ''}{'+dyn' if f['dyn_coef'] else ''}")


# --------------------------------------------------------------------------- expression parser

_TOK = re.compile(
    r"\s*(?:(?P<num>(?:\d+\.\d*|\.\d+|\d+)(?:[eE][+-]?\d+)?)(?P<suf>_f64|_i32|_f32)?"
    r"|(?P<name>(?:Math\.|math\.)?[A-Za-z_][A-Za-z_0-9]*)"
    r"|(?P<op>\*\*|\.\^|\.\*|\./|\.powi|\.powf|[-+*/(),^]))"
)


class ParseError(Exception):
    pass


def tokenize(s: str):
    out, pos = [], 0
    s = s.rstrip()
    while pos < len(s):
        m = _TOK.match(s, pos)
        if not m or m.end() == pos:
            raise ParseError(f"cannot tokenize {s[pos:pos + 20]!r}")
        pos = m.end()
        if m.group("num") is not None:
            txt = m.group("num")
            is_int = re.fullmatch(r"\d+", txt) is not None and m.group("suf") in (None, "_i32")
            out.append(("num", Fraction(txt), is_int))
        elif m.group("name") is not None:
            out.append(("name", m.group("name")))
        else:
            out.append(("op", m.group("op")))
    return out


class _P:
    """precedence: + -  <  * / .* ./  <  unary -  <  ** .^ (right assoc)  <  postfix .powi/.powf, calls"""

    def __init__(self, toks):
        self.t, self.i = toks, 0

    def peek(self):
        return self.t[self.i] if self.i < len(self.t) else ("eof",)

    def take(self, op=None):
        tk = self.peek()
        if op is not None and tk != ("op", op):
            raise ParseError(f"expected {op}, found {tk}")
        self.i += 1
        return tk

    def expr(self):
        left = self.term()
        while self.peek() in (("op", "+"), ("op", "-")):
            op = self.take()[1]
            left = (op, left, self.term())
        return left

    def term(self):
        left = self.unary()
        while self.peek() in (("op", "*"), ("op", "/"), ("op", ".*"), ("op", "./")):
            op = self.take()[1].lstrip(".")
            left = (op, left, self.unary())
        return left

    def unary(self):
        if self.peek() == ("op", "-"):
            self.take()
            return ("neg", self.unary())
        if self.peek() == ("op", "+"):
            self.take()
            return self.unary()
        return self.power()

    def power(self):
        base = self.postfix()
        if self.peek() in (("op", "**"), ("op", ".^"), ("op", "^")):
            self.take()
            return ("pow", base, self.unary())
        return base

    def postfix(self):
        a = self.atom()
        while self.peek() in (("op", ".powi"), ("op", ".powf")):
            self.take()
            self.take("(")
            e = self.expr()
            self.take(")")
            a = ("pow", a, e)
        return a

    def atom(self):
        tk = self.take()
        if tk[0] == "num":
            return ("num", tk[1], tk[2])
        if tk[0] == "name":
            if self.peek() == ("op", "("):
                self.take()
                args = []
                if self.peek() != ("op", ")"):
                    args.append(self.expr())
                    while self.peek() == ("op", ","):
                        self.take()
                        args.append(self.expr())
                self.take(")")
                if tk[1] in ("Math.pow", "pow", "math.pow") and len(args) == 2:
                    return ("pow", args[0], args[1])
                raise ParseError(f"unsupported call {tk[1]}")
            return ("name", tk[1])
        if tk == ("op", "("):
            e = self.expr()
            self.take(")")
            return e
        raise ParseError(f"unexpected {tk}")


def parse_expr(s: str):
    p = _P(tokenize(s))
    e = p.expr()
    if p.peek() != ("eof",):
        raise ParseError(f"trailing {p.peek()} in {s!r}")
    return e


def expr_names(e, out=None):
    out = [] if out is None else out
    if e[0] == "name":
        if e[1] not in out:
            out.append(e[1])
    elif e[0] != "num":
        for x in e[1:]:
            expr_names(x, out)
    return out


def strip_ann(e):
    """expression tree without the int/float literal distinction (for cross-language comparison)"""
    if e[0] == "num":
        return ("num", e[1])
    if e[0] == "name":
        return e
    return (e[0], *[strip_ann(x) for x in e[1:]])


class UndefinedName(Exception):
    def __init__(self, name):
        self.name = name


def eval_expr(e, env, guard=True) -> Fraction:
    tag = e[0]
    if tag == "num":
        v = e[1]
    elif tag == "name":
        if e[1] not in env:
            raise UndefinedName(e[1])
        v = env[e[1]]
    elif tag == "neg":
        v = -eval_expr(e[1], env, guard)
    elif tag == "pow":
        b = eval_expr(e[1], env, guard)
        x = eval_expr(e[2], env, guard)
        if x.denominator != 1 or abs(x) > 64:
            raise Inexact("non-integer power")
        if x < 0 and b == 0:
            raise Inexact("0**-n")
        v = b ** int(x)
    else:
        a, b = eval_expr(e[1], env, guard), eval_expr(e[2], env, guard)
        if tag == "+":
            v = a + b
        elif tag == "-":
            v = a - b
        elif tag == "*":
            v = a * b
        elif tag == "/":
            if b == 0:
                raise Inexact("division by zero")
            v = a / b
        else:
            raise ValueError(e)
    if guard and not is_dyadic_small(v):
        raise Inexact(str(v))
    return v


def int_float_mix(e) -> bool:
    """Rust: an integer literal combined arithmetically with an f64 value does not type-check.
    Returns True when the tree has a binary node one side of which is an integer literal and the
    other is not (names are f64)."""
    if e[0] in ("num", "name"):
        return False
    if e[0] == "neg":
        return int_float_mix(e[1])
    if e[0] == "pow":  # x.powi(2): integer exponent is what powi wants
        return int_float_mix(e[1])
    a, b = e[1], e[2]

    def is_int(x):
        return (x[0] == "num" and x[2]) or (x[0] == "neg" and is_int(x[1]))

    if is_int(a) != is_int(b):
        return True
    return int_float_mix(a) or int_float_mix(b)


# --------------------------------------------------------------------------- shrinking of failing inputs


def _referenced(content):
    used = set()
    for _, v in content["vars"] + content["pars"]:
        if "ia" in v:
            used |= set(v["ia"]["args"])
    for _, f in content["derived"]:
        used |= set(f["args"])
    for _, r in content["rxns"]:
        used |= set(r["args"])
        for cpd, c in r["st"]:
            used.add(cpd)
            used |= set(c.get("args", []))
    return used


def shrink_candidates(content):
    """smaller well-formed contents: drop an unreferenced component, a stoichiometry entry, simplify a function"""
    import copy

    used = _referenced(content)
    for kind in ("rxns", "derived", "pars", "vars"):
        for i, (k, _) in enumerate(content[kind]):
            if k in used or (kind == "rxns" and len(content["rxns"]) == 1) or (kind == "vars" and len(content["vars"]) == 1):
                continue
            c = copy.deepcopy(content)
            del c[kind][i]
            yield c
    for i, (_, r) in enumerate(content["rxns"]):
        for j in range(len(r["st"])):
            if len(r["st"]) > 1:
                c = copy.deepcopy(content)
                del c["rxns"][i][1]["st"][j]
                yield c
        for j, (_, cj) in enumerate(r["st"]):
            if "c" not in cj:
                c = copy.deepcopy(content)
                c["rxns"][i][1]["st"][j][1] = {"c": "1"}
                yield c

    def fns(c):
        for _, v in c["vars"] + c["pars"]:
            if "ia" in v:
                yield v["ia"]
        for _, f in c["derived"]:
            yield f
        for _, r in c["rxns"]:
            yield r

    n = sum(1 for _ in fns(content))
    for i in range(n):
        c = copy.deepcopy(content)
        f = list(fns(c))[i]
        simple = ["a", 0]
        for a in range(1, len(f["args"])):
            simple = ["+", simple, ["a", a]]
        if f["e"] != simple and not f.get("bad") and (f.get("name") is None or [g.get("name") for g in fns(content)].count(f.get("name")) == 1):
            f["e"] = simple
            yield c
        names = [g.get("name") for g in fns(content)]
        if len(f["args"]) > 1 and not f.get("bad") and (f.get("name") is None or names.count(f.get("name")) == 1):
            c2 = copy.deepcopy(content)
            f2 = list(fns(c2))[i]
            f2["args"] = f2["args"][:1]
            f2["e"] = ["a", 0]
            yield c2


def shrink(case, still_fails, budget: int = 60):
    """greedy delta debugging over `case["content"]`; `still_fails(case) -> bool` re-runs R and S"""
    import copy

    cur = copy.deepcopy(case)
    spent = 0
    progress = True
    while progress and spent < budget:
        progress = False
        for cand in shrink_candidates(cur["content"]):
            if spent >= budget:
                break
            trial = dict(cur, content=cand)
            spent += 1
            try:
                if still_fails(trial):
                    cur = trial
                    progress = True
                    break
            except Exception:  # noqa: BLE001  a candidate the harness cannot build is just not a witness
                continue
    return cur, spent


def close(a, b, rel: float = 1e-9) -> bool:
    """canonical answers equal up to a relative tolerance on every number (oracle-only strata)"""
    if isinstance(a, str) and isinstance(b, str):
        if a == b:
            return True
        try:
            x, y = float(Fraction(a)), float(Fraction(b))
        except (ValueError, ZeroDivisionError):
            return False
        return abs(x - y) <= rel * max(1.0, abs(x), abs(y))
    if isinstance(a, dict) and isinstance(b, dict):
        return a.keys() == b.keys() and all(close(a[k], b[k], rel) for k in a)
    if isinstance(a, (list, tuple)) and isinstance(b, (list, tuple)):
        return len(a) == len(b) and all(close(x, y, rel) for x, y in zip(a, b))
    return a == b


def finite_answer(ans) -> bool:
    if isinstance(ans, str):
        return ans not in ("nan", "inf", "-inf")
    if isinstance(ans, dict):
        return "err" not in ans and all(finite_answer(v) for v in ans.values())
    if isinstance(ans, (list, tuple)):
        return all(finite_answer(v) for v in ans)
    return True


def answer_exact(ans, bits: int = 48) -> bool:
    """every rational in a canonical answer is a dyadic of at most `bits` bits, so the real model's double
    arithmetic (including the final stoichiometric sums, which the spec does not guard) was exact"""
    if isinstance(ans, str):
        try:
            return is_dyadic_small(Fraction(ans), bits)
        except (ValueError, ZeroDivisionError):
            return True
    if isinstance(ans, dict):
        return all(answer_exact(v, bits) for v in ans.values())
    if isinstance(ans, (list, tuple)):
        return all(answer_exact(v, bits) for v in ans)
    return True


__all__ = [n for n in dir() if not n.startswith("_")]
_ = rat_str
