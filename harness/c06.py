"""C06 — Python -> symbolic translation is sound: equal everywhere, or refused (DESIGN §6/C06).

R = the real `mxlpy.meta.source_tools.fn_to_sympy` on a generated, really imported Python function (and under
    renamings of its arguments): refused / raised / expression, and the expression's exact values at integer and
    half-integer points including every literal of the function +-1 (own exact evaluator over the S-expression),
S = CPython executing the same function on exact rationals at the same points (the property: equal wherever the
    function has a value; a refusal or an escaping exception satisfies it),
M = the Lean model `Mxl.C06.fnToSympy` (driver) on the encoded function: same status, `evalS` of its result.
Correspondence beyond the verdict: the Lean result rebuilt with sympy's constructors must print (srepr) like the real
result, and the Lean *Python semantics* (`callFn`, what the theorems are about) must agree with CPython.
"""
from __future__ import annotations

import os
import shutil
from fractions import Fraction
from pathlib import Path

from translate import c06 as tr06
from vlib import driver
from vlib.framework import REPO, WORK

from . import c06lib as L
from .corecommon import pool

PROPS = ["MxlVerif.Props.C06"]
FNS_PER_MODULE = 8
SESSION_MOD = {"K1": "1/4", "K2": "4", "K3": "2", "HD": "2"}
SESSION_HELPER = {"HC": "1/2", "HD": "2"}

# priority order matters only among the ids that are listed as "known"
FINDINGS = [
    ("F-C06-16", lambda f, fl, ren, params: "class_attr" in f),
    ("F-C06-10", lambda f, fl, ren, params: "local_import_alias" in f),
    ("F-C06-9", lambda f, fl, ren, params: "call_kw_nopos" in f),
    ("F-C06-3", lambda f, fl, ren, params: "cmp_eqne" in f),
    ("F-C06-4", lambda f, fl, ren, params: (ren is not None and ren != params and set(ren) & set(params)) or "call_user" in f),
    ("F-C06-5", lambda f, fl, ren, params: "tuple_assign" in f),
    ("F-C06-6", lambda f, fl, ren, params: "aug_assign" in f or "opaque_stmt" in f),
    ("F-C06-8", lambda f, fl, ren, params: "call_known" in f),
    ("F-C06-2", lambda f, fl, ren, params: not fl.get("branchesReturn", True)),
    ("F-C06-1", lambda f, fl, ren, params: not fl.get("noBranchRebind", True)),
    ("F-C06-7", lambda f, fl, ren, params: not fl.get("condsAreCmp", True)),
]


def setup(ctx):
    ctx.translate(tr06.generate)
    ctx.build(PROPS)
    ctx.rule = (
        "grammar-generated Python functions (real modules on disk, imported): straight-line assignments, tuple "
        "assignments, if/elif/else with returns and/or assignments in any branch, code after if/else, nested ifs, "
        "conditional expressions, ==/!= and chained comparisons, calls into a helper module (three import styles) and "
        "earlier functions, module constants, known math/numpy functions on constants; plus 'just outside' constructs "
        "(augmented assignment, loops, truthiness tests, bool operators, int globals, wrong arity, bare return) x "
        "renamings (none, rotation of the function's own parameter names, overlapping shift / permutation) x points "
        "(diagonal, every literal +-1, random halves/thirds). distinct = distinct (source, renaming); non-trivial = "
        "translated to an expression and has a branch, call or local assignment"
    )
    ctx.assumptions += [
        "sympy's automatic simplification, Piecewise/And evaluation and subs are trusted (exercised by the point evaluations)",
        "float rounding is not modelled: functions are executed by CPython on exact rationals (class Q), literals are integers/dyadics",
        "non-integer powers, transcendental functions and math.pi-like constants have no value in the Lean model (name-level table check only)",
        "call targets and module constants are resolved by the harness with Python's scoping, not by the Lean model",
    ]
    ctx.trusted_base += [
        "sympy 1.14 (construction-time simplification, Piecewise, relational, subs semantics)",
        "translate/c06.py (reads the operator/compare/KNOWN_FNS tables and three control facts from source_tools.py)",
        "pyMeaning / symMeaning in Model/C06.lean: the stated meaning of math/numpy/sympy function names",
    ]
    try:
        ctx.known_keys = [k for k, _ in tr06._dict(__import__("ast").parse(
            (Path(REPO) / "src/mxlpy/meta/source_tools.py").read_text()), "KNOWN_FNS")]
    except Exception:  # noqa: BLE001
        ctx.known_keys = []


def workdir(ctx) -> Path:
    d = WORK / f"c06_{os.getpid()}"
    d.mkdir(parents=True, exist_ok=True)
    return d


def make_jobs(ctx, nfn: int, wd: Path):
    rng = ctx.rng
    jobs = []
    helper = "c06h"
    g0 = L.Gen(rng, helper)
    # module 0: the fixed templates
    jobs.append({"workdir": str(wd), "mod": "c06m_t", "helper": helper,
                 "sources": {helper: L.HELPER_SRC, "c06g": L.HELPER2_SRC, "c06m_t": g0.header() + L.TEMPLATES},
                 "fns": L.template_names(), "seed": 0, "npoints": 14, "known_keys": ctx.known_keys})
    # closures, decorated functions, partials, lambdas, nested defs, default values (seed-independent)
    jobs.append({"workdir": str(wd), "mod": "c06m_c", "helper": helper, "whole": True,
                 "sources": {helper: L.HELPER_SRC, "c06g": L.HELPER2_SRC, "c06m_c": g0.header() + L.CLOSURE_TEMPLATES},
                 "fns": L.CLOSURE_NAMES, "seed": 0, "npoints": 10, "known_keys": ctx.known_keys})
    # the library's own rate laws (mxlpy.fns), as shipped
    try:
        import ast as _ast
        import mxlpy.fns as _fns

        fn_names = [n.name for n in _ast.parse(Path(_fns.__file__).read_text()).body
                    if isinstance(n, _ast.FunctionDef) and not n.name.startswith("_")]
        jobs.append({"workdir": str(wd), "mod": "mxlpy.fns", "helper": helper, "external": True, "sources": {},
                     "fns": fn_names, "seed": 2, "npoints": 12, "known_keys": ctx.known_keys})
        ctx.extra_cov["mxlpy_fns_functions"] = len(fn_names)
    except Exception as e:  # noqa: BLE001
        ctx.notes.append(f"mxlpy.fns stratum unavailable: {e!r}")
    # function-local imports whose names collide with module-level names of the caller / callee (seed-independent)
    li = L.local_import_sources()
    li_names = [f"li{i}" for i in range(len(li) - 1)]
    ctx.extra_cov["local_import_programs"] = len(li_names)
    jobs.append({"workdir": str(wd), "mod": "c06m_li", "helper": helper,
                 "sources": {helper: L.HELPER_SRC, "c06g": L.HELPER2_SRC, "c06m_li": g0.header() + "\n\n".join(li)},
                 "fns": li_names, "seed": 5, "npoints": 8, "known_keys": ctx.known_keys,
                 "renamings": {n: [None, ["y", "x"]] for n in li_names}})
    # branches of several plain assignments that fall through to `return <name>` (seed-independent)
    mb = L.multi_assign_bodies()
    ctx.extra_cov["multi_assign_branch_programs"] = len(mb)
    for m in range(0, len(mb), 24):
        names_ = [f"ma{m + i}" for i in range(len(mb[m:m + 24]))]
        src = "\n\n".join(f"def {n}(x, y):\n{b}\n" for n, b in zip(names_, mb[m:m + 24]))
        mod = f"c06m_ma{m // 24}"
        jobs.append({"workdir": str(wd), "mod": mod, "helper": helper,
                     "sources": {helper: L.HELPER_SRC, "c06g": L.HELPER2_SRC, mod: g0.header() + src},
                     "fns": names_, "seed": 6, "npoints": 8, "known_keys": ctx.known_keys,
                     "renamings": {n: [None, ["y", "x"]] for n in names_}})
    # function-local imports inside branches (seed-independent)
    lbs = L.branch_import_sources()
    lb_names = [f"lb{i}" for i in range(len(lbs))]
    ctx.extra_cov["branch_import_programs"] = len(lb_names)
    jobs.append({"workdir": str(wd), "mod": "c06m_lb", "helper": helper,
                 "sources": {helper: L.HELPER_SRC, "c06g": L.HELPER2_SRC, "c06m_lb": g0.header() + "\n\n".join(lbs)},
                 "fns": lb_names, "seed": 7, "npoints": 10, "known_keys": ctx.known_keys,
                 "renamings": {n: [None, ["y", "x"]] for n in lb_names}})
    # every legal call shape (positional / keyword / defaults left out) of the helper signatures (seed-independent)
    exprs = ["x", "y", "z", "(x + y)", "(y * 2)", "(z - 1)"]
    srcs, names = [], []
    for sig in L.SIGS:
        vals = {p: exprs[i] for i, (p, _) in enumerate(sig[1] + sig[2])}
        for shape in L.call_shapes(sig):
            n = f"k{len(names)}"
            call = L.render_call("hp." + sig[0], shape, vals)
            body = f"    return {call}" if len(names) % 3 else f"    if x > y:\n        return {call} + x\n    return {call}"
            srcs.append(f"def {n}(x, y, z):\n{body}\n")
            names.append(n)
    ctx.extra_cov["call_shape_programs"] = len(names)
    for m in range(0, len(names), 16):
        mod = f"c06m_k{m // 16}"
        jobs.append({"workdir": str(wd), "mod": mod, "helper": helper,
                     "sources": {helper: L.HELPER_SRC, "c06g": L.HELPER2_SRC, mod: g0.header() + "\n\n".join(srcs[m:m + 16])},
                     "fns": names[m:m + 16], "seed": 3, "npoints": 8, "known_keys": ctx.known_keys,
                     "renamings": {n: [None, ["z", "x", "y"]] for n in names[m:m + 16]}})
    # the helper signatures themselves, with fewer model_args than parameters
    jobs.append({"workdir": str(wd), "mod": helper, "helper": helper, "sources": {helper: L.HELPER_SRC, "c06g": L.HELPER2_SRC},
                 "fns": [sg[0] for sg in L.SIGS], "seed": 4, "npoints": 10, "known_keys": ctx.known_keys,
                 "renamings": {"hdef": [None, ["a"], ["b", "a"], ["p", "q", "r"], ["d", "c", "b", "a"]],
                               "hone": [None, ["m0"], ["r", "a"]], "hkw": [None, ["m0"]], "hmd": [None, ["b", "a"], ["b", "a", "c"]]}})
    # the exhaustive control-flow stratum (seed-independent)
    bodies = L.exhaustive_bodies()
    ctx.extra_cov["exhaustive_control_flow_programs"] = len(bodies)
    for m in range(0, len(bodies), 16):
        names = [f"e{m + i}" for i in range(len(bodies[m:m + 16]))]
        src = "\n\n".join(f"def {n}(x, y):\n{b}\n" for n, b in zip(names, bodies[m:m + 16]))
        mod = f"c06m_e{m // 16}"
        jobs.append({"workdir": str(wd), "mod": mod, "helper": helper,
                     "sources": {helper: L.HELPER_SRC, "c06g": L.HELPER2_SRC, mod: g0.header() + src},
                     "fns": names, "seed": 1, "npoints": 8, "known_keys": ctx.known_keys,
                     "renamings": {n: [None, ["y", "x"]] for n in names}})
    nfixed = len(jobs)
    nmod = (nfn + FNS_PER_MODULE - 1) // FNS_PER_MODULE
    for m in range(nmod):
        g = L.Gen(rng, helper, wild=0.12 if m % 3 else 0.3)
        srcs, names = [], []
        for i in range(FNS_PER_MODULE):
            name = f"f{i}"
            s, _ = g.function(name)
            srcs.append(s)
            names.append(name)
        mod = f"c06m_{m}"
        jobs.append({"workdir": str(wd), "mod": mod, "helper": helper,
                     "sources": {helper: L.HELPER_SRC, "c06g": L.HELPER2_SRC, mod: g.header() + "\n\n".join(srcs)},
                     "fns": names, "seed": rng.randrange(1 << 30), "npoints": 12, "known_keys": ctx.known_keys})
    # session step for every generated module: after the first translation the module-level constants are re-bound
    # (in the module itself and in the helper module it reads through `hp.`), then everything that reads one is
    # translated and executed again in the same process
    for i, j in enumerate(jobs):
        if not j.get("external") and j["mod"] != helper and (i < nfixed or i % 2 == 0):
            j["session"] = {j["mod"]: SESSION_MOD, helper: SESSION_HELPER}
    return jobs, nfixed


def requests_for(res):
    reqs = []
    for ob in res["obs"]:
        ren = ob["rename"]
        syms = res["params"] if ren is None else ren
        pts = [{"env": [[s, v] for s, v in zip(syms, p)], "args": list(p[: len(syms)])} for p in res["points"]]
        reqs.append({"op": "c06", "prog": res["prog"], "fn": res["q"],
                     "margs": None if ren is None else [["sym", s] for s in ren], "points": pts,
                     **({"cb": [{"b": c["b"], "rest": c["rest"]} for c in res.get("cb", [])]} if ren is None else {})})
    return reqs


EXACT_FNS = {"abs", "pos", "sign", "floor", "ceil", "min", "max", "add", "pow", "mod", "gt", "ge", "lt", "le"}


def has_opaque(j) -> bool:
    if isinstance(j, list):
        if j and j[0] == "const":
            return True
        if j and j[0] == "app" and j[1] not in EXACT_FNS:
            return True
        return any(has_opaque(x) for x in j)
    return False


NONVALS = ("undef", "nonnum", "inexact", None)


def close(a, b) -> bool:
    if isinstance(a, bool) or isinstance(b, bool) or a in NONVALS or b in NONVALS:
        return False
    x, y = Fraction(a), Fraction(b)
    return abs(x - y) <= Fraction(1, 10**9) * max(1, abs(x), abs(y))


def m_obs(resp, mask, R):
    tr = resp["tr"]
    if "ok" in tr:
        if has_opaque(tr["ok"]):
            # sqrt/exp/pi...: no value in the Lean model; the structural comparison is the tie for these
            return {"status": "expr", "vals": R.get("vals")}
        return {"status": "expr", "vals": [resp["vals"][i] for i in mask]}
    if "fuel" in tr:
        return {"status": "fuel"}
    return {"status": "noexpr"}  # refused (returns None) or an escaping exception: not distinguished in the comparison


def judge_fn(ctx, job, res, resps):
    if "error" in res:
        ctx.hist["encode_error"] = ctx.hist.get("encode_error", 0) + 1
        ctx.notes.append(f"encoder failed on {res['fn']}: {res['error']}")
        return
    feats = set(res["features"])
    for ob, resp in zip(res["obs"], resps if resps is not None else [None] * len(res["obs"])):
        ren = ob["rename"]
        py = ob.get("py", res["py"])
        mask = [i for i, v in enumerate(py) if v not in ("undef", "nonnum", "inexact")]
        case = {"sources": {} if job.get("external") else
                {**{n: v for n, v in job["sources"].items() if n != job["mod"]}, job["mod"]: res["min_src"]},
                **({"session": job["session"]} if res.get("session2") else {}),
                "external": bool(job.get("external")),
                "mod": job["mod"], "helper": job["helper"], "fn": res["fn"],
                "rename": ren, "points": res["points"], "src": res["src"]}
        status = ob["status"]
        if status == "expr":
            rv = [ob["vals"][i] for i in mask]
            sv = [py[i] for i in mask]
            for i, (a, b) in enumerate(zip(rv, sv)):
                if a != b and close(a, b):
                    # sympy folded a constant quotient into a Float (1/3.0): equal up to rounding, which is not modelled
                    rv[i] = b
                    ctx.hist["float_tolerance_points"] = ctx.hist.get("float_tolerance_points", 0) + 1
            R = {"status": "expr", "vals": rv}
            S = {"status": "expr", "vals": sv}
        else:
            R = {"status": "noexpr"}
            S = R
        M = None
        flags = {}
        if resp is not None:
            M = m_obs(resp, mask, R)
            flags = resp["flags"]
            if M.get("vals") and status == "expr":
                # the model is exact; CPython may have computed a literal-only call in floats
                M["vals"] = [b if (a != b and close(a, b)) else a for a, b in zip(M["vals"], S["vals"])]
                M["vals"] = [b if (a != b and close(a, b)) else a for a, b in zip(M["vals"], R["vals"])]
                # sympy's simplification (x/x -> 1, 0*x -> 0) can only make the real result more defined than the
                # unsimplified model expression
                more = sum(1 for a, b in zip(M["vals"], R["vals"]) if a == "undef" and b != "undef")
                if more:
                    ctx.hist["simplification_more_defined_points"] = ctx.hist.get("simplification_more_defined_points", 0) + more
                    M["vals"] = [b if a == "undef" else a for a, b in zip(M["vals"], R["vals"])]
            if "local_import_unencoded" in feats:
                # `import a.b` without alias, relative / star imports: not encoded, judged by the oracle alone
                ctx.hist["model_silent:local_import"] = ctx.hist.get("model_silent:local_import", 0) + 1
                M = None
            elif status != "expr" and M["status"] == "expr":
                # the real translator gives up where the model has an expression: sympy evaluates eagerly while the
                # expression is built and can fail on the way (nan / zoo in a comparison after 0/0 in a folded piece,
                # Piecewise.eval recursing during subs, sqrt of a negative constant, ...).  Refusing is always allowed by
                # the property; the model has no opinion — unless it happens often (checked at the end of the run)
                kind = ("sympy_recursion" if status == "raised:RecursionError" else
                        "opaque_domain" if has_opaque(resp["tr"]["ok"]) else "real_refuses_more")
                ctx.hist["model_silent:" + kind] = ctx.hist.get("model_silent:" + kind, 0) + 1
                M = None
            elif status == "expr" and M["status"] == "noexpr":
                # sympy's constant folding can erase a sub-expression that would have been refused (a piece after a
                # literally true condition is never looked at); the model refuses: no opinion, not drift — unless it
                # happens often (checked at the end of the run)
                ctx.hist["model_silent:refuses_more"] = ctx.hist.get("model_silent:refuses_more", 0) + 1
                M = None
        cands = [fid for fid, pred in FINDINGS if pred(feats, flags, ren, res["params"])]
        finding = next((fid for fid in cands if fid in ctx.known), None)
        # a call with keyword arguments only has no Python semantics in the Lean model: outside the theorem's domain
        # the theorems have no side condition any more; outside the model are only function-local imports (oracle-only)
        # classes (instantiated by `_get_inner_object`) are outside the model: F-C06-16, judged by the oracle alone
        in_domain = "local_import_unencoded" not in feats and "class_attr" not in feats
        if "class_attr" in feats:
            M = None
        if res.get("session2"):
            ctx.hist["session:second_translation"] = ctx.hist.get("session:second_translation", 0) + 1
        nontrivial = status == "expr" and bool(feats & {"if", "ifexp", "call_user", "tuple_assign"} or "=" in res["src"])
        ctx.count({"src": res["src"], "rename": ren}, "", nontrivial)
        for f in feats:
            ctx.hist["feat:" + f] = ctx.hist.get("feat:" + f, 0) + 1
        ctx.hist["status:" + status.split(":")[0]] = ctx.hist.get("status:" + status.split(":")[0], 0) + 1
        ctx.hist["domain:" + ("in" if in_domain else "out")] = ctx.hist.get("domain:" + ("in" if in_domain else "out"), 0) + 1
        ctx.hist["rename:" + ("none" if ren is None else "perm" if set(ren) == set(res["params"]) else "other")] = \
            ctx.hist.get("rename:" + ("none" if ren is None else "perm" if set(ren) == set(res["params"]) else "other"), 0) + 1
        ctx.extra_cov["points_evaluated"] = ctx.extra_cov.get("points_evaluated", 0) + len(mask)
        what = f"{res['fn']} rename={ren}"
        if in_domain and finding is not None:
            # inside the domain of C06_sound_partial nothing is excused
            finding = None
        verdict = ctx.judge(case, R, S, M, finding=finding, what=what)
        if (verdict == "violation" and not job.get("shrunk") and not job.get("external") and not res.get("session2")
                and ctx.extra_cov.get("shrunk", 0) < 3):
            ctx.extra_cov["shrunk"] = ctx.extra_cov.get("shrunk", 0) + 1
            try:
                sh = shrink_case(ctx, job, res, ob)
            except Exception as e:  # noqa: BLE001
                ctx.notes.append(f"shrinking failed: {e!r}")
                sh = None
            if sh is not None and len(sh[1]["src"]) < len(res["src"]):
                j2, r2, rs2 = sh
                j2["shrunk"] = True
                before = len(ctx.violations)
                judge_fn(ctx, j2, r2, rs2)
                if len(ctx.violations) > before:
                    ctx.violations.pop(before - 1)  # keep the shrunk one instead of the original
        if resp is None or M is None:
            continue
        # structural correspondence (model drift if the real result is right but the model's shape differs)
        if verdict == "ok" and status == "expr" and "ok" in resp["tr"]:
            same, ms = L.struct_equal(ob["srepr"], resp["tr"]["ok"])
            if same:
                ctx.hist["struct:same"] = ctx.hist.get("struct:same", 0) + 1
            else:
                # same values at every point but another shape (sympy simplified during subs, …): reported, not drift
                ctx.hist["struct:differs"] = ctx.hist.get("struct:differs", 0) + 1
                if len(ctx.extra_cov.setdefault("struct_differs_samples", [])) < 3:
                    ctx.extra_cov["struct_differs_samples"].append({"src": res["src"], "rename": ren, "real": ob["srepr"], "model": ms})
        # the entry points the theorems are stated over (trBody / trLoop / trExpr / trArgs), run directly by the driver:
        # they must give what `fnToSympy` gives (and that is what was just compared with the real result)
        ent = resp.get("entry")
        if ren is None and ent is not None and "ok" in resp["tr"] and not ent["other_params"]:
            for k in ("body", "loop", "expr"):
                if ent[k] is None:
                    continue
                ctx.hist["entry:" + k] = ctx.hist.get("entry:" + k, 0) + 1
                if ent[k] != resp["tr"]:
                    ctx.add_drift(case, resp["tr"], ent[k], f"Lean {k} entry point differs from fnToSympy")
            if ent["args"] is not None:
                ctx.hist["entry:args"] = ctx.hist.get("entry:args", 0) + 1
                if "ok" not in ent["args"]:
                    ctx.add_drift(case, resp["tr"], ent["args"], "a call was translated although its arguments are not")
        # helper level: the real `_check_branch` / `_always_returns` on every (branch, rest) pair of this function
        # against the model's `branchOk`, the generated conditions (`checkBranchG`) and `bodyReturns`; the `ast` class of
        # every top-level statement against the class the model constructor stands for
        if ren is None and res.get("cb") and resp.get("cb"):
            for c, mc in zip(res["cb"], resp["cb"]):
                ctx.hist["helper:_check_branch:" + ("accepts" if c["real_ok"] else "refuses")] = \
                    ctx.hist.get("helper:_check_branch:" + ("accepts" if c["real_ok"] else "refuses"), 0) + 1
                if not (mc["ok"] == mc["gen"] == c["real_ok"]) or (c["real_ret"] is not None and mc["ret"] != c["real_ret"]):
                    ctx.add_drift(case, {"_check_branch": c["real_ok"], "_always_returns": c["real_ret"]}, mc,
                                  "real _check_branch / _always_returns vs Lean branchOk / checkBranchG / bodyReturns")
        if ren is None and resp.get("classes") is not None and res.get("stmt_classes"):
            canon = {"Expr": "Pass", "Import": "ImportFrom"}
            for rc, mcls in zip(res["stmt_classes"], resp["classes"][res.get("n_pre", 0):]):
                ctx.hist["helper:stmt_class"] = ctx.hist.get("helper:stmt_class", 0) + 1
                if mcls == "<any other class>":
                    continue  # encoder: a statement kind (or an Assign target shape) the model has no constructor for
                if canon.get(rc, rc) != mcls:
                    ctx.add_drift(case, rc, mcls, "ast class of a statement vs the class its model constructor stands for")
            if (res.get("ret_class") and resp.get("ret_class") and resp["ret_class"] != "<any other class>"
                    and not res.get("n_pre")):
                ctx.hist["helper:expr_class"] = ctx.hist.get("helper:expr_class", 0) + 1
                if res["ret_class"] != resp["ret_class"]:
                    ctx.add_drift(case, res["ret_class"], resp["ret_class"], "ast class of the returned expression vs the model constructor's")
        # the Lean Python semantics against CPython
        if ren is None:
            for i, (a, b) in enumerate(zip(resp["py"], py)):
                if a == "undef":
                    if b not in ("undef", "nonnum", "inexact"):
                        ctx.hist["pysem:outside_model"] = ctx.hist.get("pysem:outside_model", 0) + 1
                    continue
                ctx.hist["pysem:compared"] = ctx.hist.get("pysem:compared", 0) + 1
                if b == "undef" and "call_known" in feats:
                    # numpy scalar artefacts (np.abs(1) is an np.int64, and np.int64 ** -1 raises): CPython has no value
                    # where the exact model has one; counted and rate-bounded at the end of the run
                    ctx.hist["pysem:cpython_undefined_numpy"] = ctx.hist.get("pysem:cpython_undefined_numpy", 0) + 1
                    continue
                if a != b and not close(a, b):
                    ctx.add_drift(dict(case, point=res["points"][i]), {"cpython": b}, {"lean_callFn": a}, what + " python-semantics")


def _stmt_paths(fn_node):
    """every statement of the function body, innermost last, as (container list, index)"""
    import ast

    out = []

    def walk(lst):
        for i, st in enumerate(lst):
            out.append((lst, i))
            for fld in ("body", "orelse"):
                sub = getattr(st, fld, None)
                if isinstance(sub, list) and sub and isinstance(sub[0], ast.stmt):
                    walk(sub)

    walk(fn_node.body)
    return out


def shrink_case(ctx, job, res, ob):
    """delta debugging over statements: delete a statement (with its block), or replace an if by its body, as long as
    the real translator still disagrees with CPython on the recorded points.  Returns (job, res, resps) of the smallest
    function found, re-evaluated by all three sides."""
    import ast
    import copy

    fname, ren = res["fn"], ob["rename"]
    src = res["min_src"]
    wd = workdir(ctx)

    def evaluate(source):
        j = {"workdir": str(wd / "shrink"), "mod": job["mod"], "helper": job["helper"],
             "sources": {**{n: v for n, v in job["sources"].items() if n != job["mod"]}, job["mod"]: source},
             "fns": [fname], "seed": 0, "npoints": 12, "known_keys": ctx.known_keys,
             "points": {fname: res["points"]}, "renamings": {fname: [ren]}}
        try:
            (r,) = L.evaluate_module(j)
        except Exception:  # noqa: BLE001  (the candidate does not compile / import)
            return None
        if "error" in r:
            return None
        return j, r

    def disagrees(r):
        o = r["obs"][0]
        if o["status"] != "expr":
            return False
        for a, b in zip(o["vals"], r["py"]):
            if b in NONVALS:
                continue
            if a != b and not close(a, b):
                return True
        return False

    best = evaluate(src)
    if best is None or not disagrees(best[1]):
        return None
    progress = True
    budget = 60
    while progress and budget > 0:
        progress = False
        tree = ast.parse(best[0]["sources"][job["mod"]])
        fn_node = next(n for n in tree.body if isinstance(n, ast.FunctionDef) and n.name == fname)
        for k in range(len(_stmt_paths(fn_node))):
            for mode in ("delete", "unwrap"):
                t2 = copy.deepcopy(tree)
                f2 = next(n for n in t2.body if isinstance(n, ast.FunctionDef) and n.name == fname)
                lst, i = _stmt_paths(f2)[k]
                if mode == "delete":
                    if len(lst) == 1:
                        continue
                    del lst[i]
                else:
                    if not isinstance(lst[i], ast.If):
                        continue
                    lst[i:i + 1] = lst[i].body
                budget -= 1
                cand = evaluate(ast.unparse(t2) + "\n")
                if cand is not None and disagrees(cand[1]):
                    best = cand
                    progress = True
                    break
                if budget <= 0:
                    break
            if progress or budget <= 0:
                break
    j, r = best
    resps = driver.call_batch(requests_for(r)) if ctx.driver_ok else None
    return j, r, resps


def run_jobs(ctx, jobs):
    results = pool().map(L.evaluate_module, jobs, chunksize=1)
    reqs, index = [], []
    for ji, (job, rl) in enumerate(zip(jobs, results)):
        for ri, res in enumerate(rl):
            if "error" in res:
                continue
            rq = requests_for(res)
            index.append((ji, ri, len(reqs), len(rq)))
            reqs += rq
    resps = None
    if ctx.driver_ok:
        try:
            resps = driver.call_batch(reqs, timeout=1200)
        except driver.DriverError as e:
            ctx.notes.append(f"driver failed: {e}")
            ctx.driver_ok = False
            ctx.proof_ok = False
            ctx.broken_obligations.append("driver rejected a request (wire format)")
    where = {(ji, ri): (a, n) for ji, ri, a, n in index}
    for ji, (job, rl) in enumerate(zip(jobs, results)):
        for ri, res in enumerate(rl):
            rs = None
            if resps is not None and (ji, ri) in where:
                a, n = where[(ji, ri)]
                rs = resps[a:a + n]
            judge_fn(ctx, job, res, rs)


def run(ctx):
    setup(ctx)
    wd = workdir(ctx)
    try:
        n = ctx.n(1600, 60000)
        if not ctx.proof_ok:
            n = max(n, 6000)
        done = 0
        chunk = 4000
        first = True
        while done < n:
            k = min(chunk, n - done)
            jobs, nfixed = make_jobs(ctx, k, wd)
            if not first:
                jobs = jobs[nfixed:]
            first = False
            run_jobs(ctx, jobs)
            done += k
            if len(ctx.violations) > 40:
                break
        silent = ctx.hist.get("model_silent:refuses_more", 0)
        if silent > 0.01 * max(1, ctx.hist.get("status:expr", 0)):
            ctx.add_drift({"model_silent:refuses_more": silent}, "expr", "noexpr",
                          "the model refuses functions the real translator accepts too often to be constant-folding erasure")
        silent2 = sum(ctx.hist.get("model_silent:" + k, 0) for k in ("real_refuses_more", "sympy_recursion", "opaque_domain"))
        if silent2 > 0.01 * max(1, ctx.evaluations):
            ctx.add_drift({"model_silent:real_refuses_more": silent2}, "noexpr", "expr",
                          "the real translator refuses functions the model translates too often to be sympy evaluation errors")
        npu = ctx.hist.get("pysem:cpython_undefined_numpy", 0)
        if npu > 0.002 * max(1, ctx.hist.get("pysem:compared", 0)):
            ctx.add_drift({"pysem:cpython_undefined_numpy": npu}, "undef", "value",
                          "the Lean Python semantics has values where CPython raises, too often to be numpy scalar artefacts")
        if not ctx.proof_ok or ctx.drift:
            ctx.notes.append("proof/correspondence broken: the run above is the failing-input search")
    finally:
        shutil.rmtree(wd, ignore_errors=True)


def replay(ctx, rp):
    case = rp["case"]
    wd = workdir(ctx)
    try:
        job = {"workdir": str(wd), "mod": case["mod"], "helper": case["helper"], "sources": case["sources"],
               "external": case.get("external", False),
               **({"session": case["session"], "session_only": True} if case.get("session") else {}),
               "fns": [case["fn"]], "seed": 0, "npoints": 12, "known_keys": ctx.known_keys,
               "points": {case["fn"]: case["points"]}, "renamings": {case["fn"]: [case["rename"]]}}
        res = L.evaluate_module(job)[-1]
        print(case.get("src", ""))
        if case.get("session"):
            print("session: translated once, then module constants re-bound to", case["session"], "and translated again")
        print("rename =", case["rename"])
        if "error" in res:
            print("encoder error", res["error"])
            return
        resps = driver.call_batch(requests_for(res)) if ctx.driver_ok else None
        ob = res["obs"][0]
        print("points =", res["points"])
        print("S (CPython, exact) =", res["py"])
        print("R status =", ob["status"], "| expr =", ob.get("str"), "| vals =", ob.get("vals"))
        if resps:
            print("M tr =", resps[0]["tr"], "| vals =", resps[0]["vals"], "| flags =", resps[0]["flags"])
        judge_fn(ctx, job, res, resps)
    finally:
        shutil.rmtree(wd, ignore_errors=True)
