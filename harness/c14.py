"""C14 — protocols: each step's parameter values hold exactly over its interval (DESIGN §6/C14).

R: the real `make_protocol` + `Simulator.simulate_protocol` / `simulate_protocol_time_course`, fresh or
   continuing an earlier history (overrides, parameter updates, earlier protocols), on the
   switch-time sensitive ODE of harness.c04.
M: Lean impl-faithful model `Mxl.C14.runP` (dict-keyed cumulative sums, DataFrame column order,
   index shift, outer join, half-open selection, on top of the C04 machine).
S: Lean specification `Mxl.C14.Spec.runP`: a protocol *is* the explicit list of (update parameters;
   simulate to T+d1+..+di) calls, the time-course form asks per step for the requested points in
   (T_{i-1}, T_i] plus T_i; run on the absolute-time machine of C04.
Exact: outcomes, per-segment index, per-segment parameters (`raw_parameters`), current parameters.
1e-6 relative: states against the closed-form evaluation of the prescribed flow composition.
"""
from __future__ import annotations

import itertools
from fractions import Fraction

from vlib.framework import canon

from . import c04, c04grid

PROPS = ["MxlVerif.Props.C14"]
F = Fraction


def _q(x):
    return c04.fs(x)


def wf_steps(steps):
    """positive durations (Mxl.C14.wfSteps).  Which parameters a step names, and in which order, is free: the steps
    are dicts, and a step only sets the parameters it names."""
    return all(F(d) > 0 for d, _ in steps)


def legal(case):
    return all(wf_steps(op[1]) for op in case["ops"] if op[0] in ("proto", "ptc", "protoF", "ptcF"))


# ----------------------------------------------------------------------------- generator
DUR = ["1/4", "1/2", "3/4", "1", "3/2", "2"]
VALS = {"k": ["0", "1/2", "1", "2", "2"], "u": ["0", "1", "1", "3"], "w": ["0", "2", "-1"]}


def gen_steps(rng, illegal=False):
    if rng.random() < 0.01:
        return []  # an empty protocol: simulate_protocol does nothing, the time-course form cannot shift its index
    n = rng.randint(1, 5)
    keys = rng.sample(["k", "u", "w"], rng.randint(1, 3))
    style = rng.random()
    steps = []
    for _ in range(n):
        kv = [[k, rng.choice(VALS[k])] for k in keys]
        if len(kv) > 1 and style < 0.3 and rng.random() < 0.5:
            rng.shuffle(kv)  # the same parameters listed in another order: the same protocol
        elif 0.3 <= style < 0.5:
            # steps naming different parameters: a step only sets the ones it names
            kv = [[k, rng.choice(VALS[k])] for k in rng.sample(["k", "u", "w"], rng.randint(1, 3))]
        steps.append([rng.choice(DUR), kv])
    if style > 0.97:
        for s in steps[rng.randrange(n):]:
            s[1] = s[1] + [["nope", "1"]]  # unknown parameter: KeyError when that step is reached
    if illegal:
        i = rng.randrange(n)
        steps[i][0] = "0" if rng.random() < 0.55 else rng.choice(["-1/2", "-1/4", "-1"])
    return steps


def boundaries(steps, start):
    out, t = [], F(start)
    for d, _ in steps:
        t += F(d)
        out.append(t)
    return out


def gen_points(rng, steps, start, rel):
    """grids on boundaries, between, beyond the end, before the start"""
    bs = boundaries(steps, 0 if rel else start)
    base = F(0) if rel else F(start)
    end = bs[-1] if bs else base
    style = rng.random()
    pool = set()
    for _ in range(rng.randint(1, 6)):
        r = rng.random()
        if r < 0.3 and bs:
            pool.add(rng.choice(bs))
        elif r < 0.8:
            pool.add(base + F(rng.randint(0, max(0, int((end - base) * 8)) + 2), 8))
        elif r < 0.9:
            pool.add(end + F(rng.randint(1, 6), 4))
        else:
            pool.add(max(F(0), base - F(rng.randint(0, 4), 4)))
    pts = sorted(pool)
    if style > 0.95:
        rng.shuffle(pts)
    elif style > 0.92 and pts:
        pts.append(pts[rng.randrange(len(pts))])
    elif style > 0.90:
        pts = []
    return [_q(t) for t in pts]


def gen_prefix(rng):
    """earlier history that the protocol continues"""
    ops, now = [], F(0)
    for _ in range(rng.choice([0, 0, 1, 2, 3])):
        r = rng.random()
        if r < 0.4:
            now += F(rng.randint(1, 8), 4)
            ops.append(["sim", _q(now), rng.choice([1, 2, 4])])
        elif r < 0.55:
            a = now + F(rng.randint(1, 6), 4)
            b = a + F(rng.randint(1, 6), 4)
            ops.append(["tc", [_q(a), _q(b)]])
            now = b
        elif r < 0.75:
            ops.append(["var", [[rng.choice(c04.VARS), rng.choice(["0", "1", "5/2", "8"])]]])
        elif r < 0.86:
            ops.append(["par", [[rng.choice(["k", "u", "w"]), rng.choice(["0", "1/2", "1", "2"])]]])
        elif r < 0.9:
            # round 4: scale_parameter, or a simulate whose solver reports failure (the protocol is then ignored)
            if rng.random() < 0.7:
                ops.append(["scale", [[rng.choice(["k", "u", "w"]), rng.choice(["2", "1/2", "0", "3/2"])]]])
            else:
                ops.append(["simF", _q(now + F(rng.randint(1, 8), 4)), 2])
        elif r < 0.95:
            ops.append(["clear"])
            now = F(0)
        else:
            ops.append(["steady", "?"])
    return ops, now


def gen_case(rng):
    pars = [["k", rng.choice(["0", "1/2", "1", "2"])], ["u", rng.choice(["0", "1", "2"])], ["w", rng.choice(["0", "1", "3"])]]
    ops, now = gen_prefix(rng)
    for _ in range(rng.choice([1, 1, 1, 2])):
        steps = gen_steps(rng, illegal=rng.random() < 0.12)
        if rng.random() < 0.45:
            tpps = rng.choice([1, 2, 4, 4, 8, None, 3])
            ops.append(["proto", steps, tpps])
        else:
            rel = rng.random() < 0.4
            ops.append(["ptc", steps, gen_points(rng, steps, now, rel), rel])
        failing = rng.random() < 0.08
        if failing:
            # round 4b: the solver fails INSIDE the protocol call, in step k (0-based; k = len(steps): in none)
            ops[-1] = [ops[-1][0] + "F", *ops[-1][1:], rng.randint(0, len(steps))]
        if wf_steps(steps) and not failing:
            now = (boundaries(steps, now) or [now])[-1]
        r = rng.random()
        if r < 0.25:
            ops.append(["var", [[rng.choice(c04.VARS), rng.choice(["0", "1", "4"])]]])
        elif r < 0.35:
            now += F(rng.randint(1, 4), 2)
            ops.append(["sim", _q(now), 2])
    return {"pars": pars, "ops": ops, "fluxes": True}


P1 = [["1", [["k", "1"]]], ["2", [["k", "2"]]]]
P2 = [["1/2", [["k", "2"], ["u", "0"]]], ["1/2", [["u", "1"], ["k", "1"]]], ["1", [["k", "2"], ["u", "0"]]]]
GRIDS = [["1/2", "1", "5/2", "3", "4"], ["1/4"], ["3"], ["0", "1/2"], ["7/2", "4"], ["1", "3/2", "2"], ["1/2", "5/2", "3", "9/2"],
         ["5/2", "1/2"], ["0"], []]
P3 = [["1", [["k", "1"]]], ["1/2", [["u", "3"]]], ["3/2", [["u", "1"], ["k", "2"]]]]  # steps naming different parameters
PREFIXES = [[], [["sim", "2", 2]], [["sim", "2", 2], ["var", [["x", "1"]]]], [["sim", "1", 1], ["par", [["u", "3"]]]],
            [["ptc", P1, ["1/2", "3"], False]], [["var", [["z", "5"]]]], [["sim", "2", 2], ["clear"]],
            [["steady", "?"]], [["steady", "?"], ["var", [["x", "1"]]]]]


def exhaustive_cases():
    for pre, prot in itertools.product(PREFIXES, [P1, P2, P3]):
        for tpps in (1, 4):
            yield {"pars": c04.PARS0, "ops": [*pre, ["proto", prot, tpps]], "fluxes": True}
        for grid, rel in itertools.product(GRIDS, [False, True]):
            yield {"pars": c04.PARS0, "ops": [*pre, ["ptc", prot, grid, rel]], "fluxes": True}
            yield {"pars": c04.PARS0, "ops": [*pre, ["ptc", prot, grid, rel], ["sim", "8", 2]], "fluxes": True}
        # round 4b: the solver fails in step k of the call (every k, incl. "none"), followed by a parameter read-out, a
        # continuation attempt and a clear + fresh simulate
        for k in range(len(prot) + 1):
            tail = [["sim", "20", 2], ["clear"], ["sim", "1", 2]]
            yield {"pars": c04.PARS0, "ops": [*pre, ["protoF", prot, 2, k], *tail], "fluxes": True}
            yield {"pars": c04.PARS0, "ops": [*pre, ["ptcF", prot, GRIDS[0], False, k], *tail], "fluxes": True}
            yield {"pars": c04.PARS0, "ops": [*pre, ["ptcF", prot, GRIDS[6], True, k], *tail], "fluxes": True}


def shape_of(case):
    """op kinds; protocols as R (simulate_protocol) / Qa, Qr (time course, absolute / relative)"""
    out = []
    for o in case["ops"]:
        if o[0] == "proto":
            out.append("R")
        elif o[0] == "ptc":
            out.append("Qr" if o[3] else "Qa")
        elif o[0] == "protoF":
            out.append(f"R!{min(o[3], 3)}")
        elif o[0] == "ptcF":
            out.append(("Qr" if o[3] else "Qa") + f"!{min(o[4], 3)}")
        else:
            out.append(c04.shape_of({"ops": [o]}))
    return "".join(out)


# ----------------------------------------------------------------------------- verdicts
def judge_one(ctx, case, real, drv):
    if drv is None:
        bad = py_oracle(case, real)
        if bad:
            ctx.violation(case, bad[:3], "python oracle (Lean side unavailable)")
            return "violation"
        return "ok"
    R, M, S, okhist = c04.assemble(case, real, drv)
    if not legal(case):
        # outside the property's quantifier (non-positive durations, differing key order,
        # ...): only the model/code correspondence is checked
        if canon(R) != canon(M):
            ctx.add_drift(case, R, M, "illegal protocol: model and code disagree")
        return "ok"
    return ctx.judge(case, R, S, M, finding=None,
                     what="protocol history: outcome / index / raw_parameters / states")


def is_violation(ctx, c):
    (real, drv), = c04.evaluate([c], ctx.driver_ok, op="c14", parallel=False)
    if drv is None:
        return bool(py_oracle(c, real))
    R, M, S, okhist = c04.assemble(c, real, drv)
    return legal(c) and canon(R) != canon(S)


def shrink(ctx, case):
    """greedy: drop ops, protocol steps and requested points while the history stays a violation"""
    cur = case

    def candidates(c):
        ops = c["ops"]
        for i in range(len(ops)):
            yield dict(c, ops=ops[:i] + ops[i + 1:])
        for i, o in enumerate(ops):
            if o[0] in ("proto", "ptc", "protoF", "ptcF") and len(o[1]) > 1:
                for j in range(len(o[1])):
                    o2 = list(o)
                    o2[1] = o[1][:j] + o[1][j + 1:]
                    yield dict(c, ops=ops[:i] + [o2] + ops[i + 1:])
            if o[0] in ("ptc", "ptcF") and len(o[2]) > 1:
                for j in range(len(o[2])):
                    o2 = list(o)
                    o2[2] = o[2][:j] + o[2][j + 1:]
                    yield dict(c, ops=ops[:i] + [o2] + ops[i + 1:])

    changed = True
    while changed:
        changed = False
        for cand in candidates(cur):
            if not cand["ops"]:
                continue
            try:
                if is_violation(ctx, cand):
                    cur, changed = cand, True
                    break
            except Exception:  # noqa: BLE001
                continue
    return cur


def process(ctx, cases):
    for case, (real, drv) in zip(cases, c04.evaluate(cases, ctx.driver_ok, op="c14")):
        ctx.count(case, shape_of(case), c04.nontrivial(real) and legal(case))
        before = len(ctx.violations)
        v = judge_one(ctx, case, real, drv)
        if v == "violation" and len(ctx.violations) <= 3:
            small = shrink(ctx, case)
            if canon(small) != canon(case):
                del ctx.violations[before:]
                (real2, drv2), = c04.evaluate([small], ctx.driver_ok, op="c14", parallel=False)
                judge_one(ctx, small, real2, drv2)


# ----------------------------------------------------------------------------- python oracle (search only)
def py_oracle(case, real):
    """independent restatement on R alone for legal, fresh-or-simply-continued protocol calls: the result
    of a protocol must equal the result of the explicit update/simulate calls on the real Simulator"""
    if not legal(case):
        return []
    ops2 = []
    now = F(0)
    if any(op[0] in ("protoF", "ptcF") for op in real["ops"]):
        return []
    for op in real["ops"]:
        if op[0] == "proto":
            t = now
            for d, kv in op[1]:
                t += F(d)
                ops2 += [["par", kv], ["sim", _q(t), 10 if op[2] is None else op[2]]]
            now = t
        elif op[0] == "ptc":
            pts = [F(x) + (now if op[3] else 0) for x in op[2]]
            if not pts or pts[-1] <= now:
                return []
            t = now
            for d, kv in op[1]:
                t2 = t + F(d)
                sel = sorted([x for x in pts if t < x <= t2] + ([] if t2 in pts else [t2]))
                ops2 += [["par", kv], ["tc", [_q(x) for x in sel]]]
                t = t2
            now = t
        else:
            ops2.append(op)
            if op[0] == "sim" and F(op[1]) > now:
                now = F(op[1])
            elif op[0] == "tc" and op[1] and F(op[1][-1]) > now:
                now = F(op[1][-1])
            elif op[0] in ("clear",):
                now = F(0)
            elif op[0] == "steady":
                return []
    if any(o is not None for o in real["outs"]):
        return []
    real2 = c04.real_run({"pars": case["pars"], "ops": ops2})
    if any(o is not None for o in real2["outs"]):
        return [f"explicit calls raise {real2['outs']} but the protocol did not"]
    a, b = real["snaps"][-1], real2["snaps"][-1]
    if a["segs"] is None or b["segs"] is None:
        return [] if a["segs"] == b["segs"] else ["one of protocol / explicit calls has no result"]
    ia = [t for s in a["segs"] for t in s["idx"]]
    ib = [t for s in b["segs"] for t in s["idx"]]
    if ia != ib:
        return [f"protocol index {ia} != explicit calls {ib}"]
    va = [v for s in a["segs"] for v in s["vals"]]
    vb = [v for s in b["segs"] for v in s["vals"]]
    if not all(c04.close(x, y) for r1, r2 in zip(va, vb) for x, y in zip(r1, r2)):
        return ["protocol states differ from the explicit update/simulate calls"]
    if [s["pars"] for s in a["segs"]] != [s["pars"] for s in b["segs"]]:
        return ["raw_parameters differ from the explicit update/simulate calls"]
    return []


# ----------------------------------------------------------------------------- entry points
def setup(ctx):
    from translate import c04 as tr

    ctx.translate(tr.generate)
    ctx.build(PROPS)
    ctx.rule = (
        "histories ending in (or containing) simulate_protocol / simulate_protocol_time_course calls: protocols of 1-5 steps "
        "with unequal dyadic durations, 1-3 parameters, repeated values x requested grids (on boundaries, between, "
        "beyond the end, before the start, relative or absolute, unsorted / repeated / empty) x fresh or continued "
        "simulators (simulate, time course, steady state, override, parameter update, clear, earlier protocol); steps "
        "listing their parameters in different orders, steps naming different parameters, unknown parameters, empty "
        "protocols; an exhaustive product of 9 prefixes x 3 protocols x 10 grids x relative/absolute plus random cases; "
        "12% illegal protocols (zero / negative durations) are compared model-vs-code only; "
        "distinct = distinct (parameters, history); non-trivial = legal and at least two recorded segments"
    )
    ctx.assumptions += [
        "numerics as C04: the ODE solver is a parameter of the model; states compared to 1e-6 relative",
        "pandas Timedelta arithmetic (nanosecond resolution) and Index.join are modelled, durations are dyadic >= 1/8 s",
    ]
    ctx.trusted_base += ["scipy.integrate.solve_ivp (LSODA), pandas DataFrame/Timedelta/Index.join (modelled, tied by test)"]


def run(ctx):
    setup(ctx)
    widen = (not ctx.proof_ok) or ctx.tier == "thorough"
    ex = list(exhaustive_cases())
    ctx.exhaustive = True
    for i in range(0, len(ex), 400):
        process(ctx, ex[i:i + 400])
        if len(ctx.violations) > 10:
            return
    # oracle-only: requested grids that are not dyadic (thirds, sevenths, tenths, linspace(0, 3, 22)), exact labels
    c04grid.run(ctx, ctx.n(300, 6000), protocols=True)
    if len(ctx.violations) > 10:
        return
    n = ctx.n(2000, 50000) * (2 if widen and ctx.tier != "thorough" else 1)
    done = 0
    while done < n and len(ctx.violations) <= 10:
        cases = [gen_case(ctx.rng) for _ in range(min(400, n - done))]
        process(ctx, cases)
        done += len(cases)
    if (not ctx.proof_ok or ctx.drift) and not ctx.violations:
        # independent search on the real code alone: protocol vs explicit calls
        for case in ex[:400]:
            real = c04.real_run(case)
            bad = py_oracle(case, real)
            if bad:
                ctx.violation(case, bad, "python oracle: protocol differs from explicit update/simulate calls")
                break
        ctx.notes.append("proof/correspondence broken: exhaustive + random strata and the python oracle were the failing-input search")


def replay(ctx, rp):
    case = rp.get("case") or rp
    if case.get("grid"):
        return c04grid.replay(ctx, case)
    (real, drv), = c04.evaluate([case], ctx.driver_ok, op="c14", parallel=False)
    if drv is not None:
        R, M, S, okhist = c04.assemble(case, real, drv)
        print("ops (oracle filled) =", real["ops"])
        print("R =", R, "\nM =", M, "\nS =", S, "\nokhist =", okhist, "legal =", legal(case))
    print("python oracle:", py_oracle(case, real))
    ctx.count(case, shape_of(case))
    judge_one(ctx, case, real, drv)
