"""C09 — scans equal independent runs, row-aligned, under any scheduling (DESIGN §6/C09).

R = the real scan (scan.* sequential / parallel with a patched cpu count, mc.* with max_workers),
    read through .variables / .fluxes after touching the lazily evaluated results in a random order
M = the Lean model (driver op "c09": heap of model objects, per-row copy, pool schedule, lazy views)
    - only for the runs that use the toy Euler integrator, compared at 1e-9
S = the property itself: for every row an independent Simulator run on a fresh model DECLARED with
    that row's values (real code, no scan.py / parallel.py involved); a failing row = NaN block
    with the index of a successful run
"""
from __future__ import annotations

import concurrent.futures as cf
import math
import multiprocessing as mp
import os
import random
import shutil
from fractions import Fraction
from unittest import mock

from vlib import content as C
from vlib import driver, fexpr

from . import c09lib as L

PROPS = ["MxlVerif.Props.C09"]
MCSCAN_MODEL = True  # the driver's "mcscan" kind (Model/C09Par.lean::mcScan)
TOL = 1e-9
KINDS = ("ss", "tc", "proto", "ptc")

# --------------------------------------------------------------------------- generator

VALS = ["1", "2", "3", "1/2", "3/2"]
PVALS = ["1", "2", "1/2", "1/4", "3/4"]


def gen_content(rng, want_ia_on_var):
    nv = rng.randint(1, 3)
    npar = rng.randint(1, 3)
    vars_ = [[f"x{i}", {"v": rng.choice(VALS)}] for i in range(nv)]
    pars = [[f"p{i}", {"v": rng.choice(PVALS)}] for i in range(npar)]
    pool_v = [k for k, _ in vars_]
    pool_p = [k for k, _ in pars]
    # an initial-assignment variable (computed from plain variables / parameters)
    if rng.random() < 0.25:
        args = [rng.choice(pool_v + pool_p) for _ in range(rng.randint(1, 2))]
        vars_.append([f"x{nv}", {"ia": {"args": args, "e": fexpr.gen_expr(rng, len(args), 1, consts=(1, 2, "1/2"))}}])
    # initial-assignment parameters
    nq = rng.randint(1, 2) if want_ia_on_var else rng.choice([0, 0, 1])
    for i in range(nq):
        src = pool_v if (want_ia_on_var and i == 0) else pool_v + pool_p
        args = [rng.choice(src)] + [rng.choice(pool_v + pool_p) for _ in range(rng.randint(0, 1))]
        pars.append([f"q{i}", {"ia": {"args": args, "e": fexpr.gen_expr(rng, len(args), 1, consts=(1, 2, "1/2"))}}])
    allv = [k for k, _ in vars_]
    allp = [k for k, _ in pars]
    derived = []
    for i in range(rng.choice([0, 1, 1, 2])):
        args = [rng.choice(allv + allp + [d for d, _ in derived] + (["time"] if rng.random() < 0.15 else []))
                for _ in range(rng.randint(1, 2))]
        derived.append([f"d{i}", {"args": args, "e": fexpr.gen_expr(rng, len(args), 1, consts=(1, 2, "1/2"))}])
    alld = [k for k, _ in derived]
    rxns = []
    qs = [k for k in allp if k.startswith("q")]
    for i in range(rng.randint(1, 3)):
        args = []
        if qs and i == 0:
            args.append(rng.choice(qs))  # the IA parameter matters for a flux
        args += [rng.choice(allv + allp + alld) for _ in range(rng.randint(1, 2))]
        args = args[:3]
        e = ["*", ["c", rng.choice(["1/4", "1/2", "1/8", "-1/4"])], fexpr.gen_expr(rng, len(args), 1, consts=(1, "1/2"))]
        cpds = rng.sample(allv, rng.randint(1, min(2, len(allv))))
        rxns.append([f"r{i}", {"args": args, "e": e, "st": [[c, {"c": rng.choice(["1", "-1", "2", "-1/2"])}] for c in cpds]}])
    surs = []
    if rng.random() < 0.15:  # a quasi-steady-state surrogate: one plain output, one output used as a flux
        args = [rng.choice(allv + allp) for _ in range(rng.randint(1, 2))]
        cpd = rng.choice(allv)
        surs.append(["s0", {"args": args, "outs": ["s0a", "s0f"],
                            "es": [fexpr.gen_expr(rng, len(args), 1, consts=(1, "1/2")),
                                   ["*", ["c", rng.choice(["1/4", "1/8", "-1/8"])], fexpr.gen_expr(rng, len(args), 1, consts=(1, "1/2"))]],
                            "st": [["s0f", [[cpd, {"c": rng.choice(["1", "-1"])}]]]]}])
    readouts = []
    if rng.random() < 0.35:  # readouts: computed only when results are read
        names = allv + allp + alld + [k for k, _ in rxns] + (["time"] if rng.random() < 0.2 else [])
        for i in range(rng.randint(1, 2)):
            args = [rng.choice(names + [k for k, _ in readouts]) for _ in range(rng.randint(1, 2))]
            readouts.append([f"ro{i}", {"args": args, "e": fexpr.gen_expr(rng, len(args), 1, consts=(1, 2, "1/2"))}])
    return {"vars": vars_, "pars": pars, "derived": derived, "rxns": rxns, "surs": surs, "readouts": readouts}


def gen_relaxing(rng):
    """linear relaxing network: constant influx, first-order transfer down a chain, first-order efflux.
    Every rate constant > 0 => a unique stable steady state; a zero efflux constant (or the `open` variant
    without efflux) => the last pool grows for ever: NO steady state."""
    n = rng.randint(1, 3)
    vars_ = [[f"x{i}", {"v": rng.choice(VALS)}] for i in range(n)]
    pars = [["kin", {"v": rng.choice(["1", "2", "1/2"])}]] + [[f"k{i}", {"v": rng.choice(["1", "1/2", "3/2"])}] for i in range(n)]
    influx = "kin"
    if rng.random() < 0.6:  # influx computed from an initial value (initial assignment)
        pars.append(["q0", {"ia": {"args": ["x0", "kin"], "e": ["+", ["a", 0], ["a", 1]]}}])
        influx = "q0"
    rxns = [["r_in", {"args": [influx], "e": ["*", ["c", "1/2"], ["a", 0]], "st": [["x0", {"c": "1"}]]}]]
    open_end = rng.random() < 0.08
    for i in range(n):
        if i == n - 1 and open_end:
            break
        st = [[f"x{i}", {"c": "-1"}]] + ([[f"x{i + 1}", {"c": "1"}]] if i + 1 < n else [])
        rxns.append([f"r{i}", {"args": [f"k{i}", f"x{i}"], "e": ["*", ["a", 0], ["a", 1]], "st": st}])
    derived = [["d0", {"args": ["x0", f"x{n - 1}"], "e": ["+", ["a", 0], ["a", 1]]}]] if rng.random() < 0.4 else []
    readouts = [["ro0", {"args": ["x0", rxns[-1][0]], "e": ["+", ["a", 0], ["a", 1]]}]] if rng.random() < 0.4 else []
    return {"vars": vars_, "pars": pars, "derived": derived, "rxns": rxns, "surs": [], "readouts": readouts}


def gen_labels(rng, nrows, positional):
    """index labels of a scan table: default range, shuffled / sparse integers, strings, and REPEATED labels
    (two grids joined by pd.concat without ignore_index).  Containers keyed by label (time course, protocol)
    keep the last row of a repeated label; the steady-state container is positional and must keep every row."""
    r = rng.random()
    if r < 0.4:
        return list(range(nrows))
    if r < 0.6:
        return rng.sample(range(100), nrows)
    if r < 0.75:
        return rng.sample([f"r{i}" for i in range(3 * nrows)] + ["a", "b", "wt", "ko"], nrows)
    if r < (1.0 if positional else 0.88):
        half = max(1, (nrows + 1) // 2)
        base = rng.sample(range(max(10, 2 * half)), half) if rng.random() < 0.6 else rng.sample([f"g{i}" for i in range(2 * half)], half)
        return (base + base)[:nrows]
    return list(range(nrows))[::-1]


def gen_relaxing_case(rng, big=False):
    """steady-state scan of a relaxing network: most rows converge, rows with a zero efflux constant do not"""
    content = gen_relaxing(rng)
    n = len(content["vars"])
    last_k = f"k{n - 1}"
    cols = ["x0"] if rng.random() < 0.7 else []
    for c in rng.sample(["kin", last_k] + [f"x{i}" for i in range(1, n)], rng.randint(0 if cols else 1, 2)):
        if c not in cols:
            cols.append(c)
    rng.shuffle(cols)
    nrows = rng.choice([9, 17]) if big else rng.choice([1, 2, 3, 3, 4, 5])
    rows = []
    for _ in range(nrows):
        rows.append([("0" if (c == last_k and rng.random() < 0.15) else rng.choice(["1", "2", "1/2", "3/2"])) for c in cols])
    labels = gen_labels(rng, nrows, True)
    case = {"content": content, "y0": None if rng.random() < 0.8 else [["x0", rng.choice(VALS)]], "cols": cols,
            "rows": [[l, r] for l, r in zip(labels, rows)], "kind": "ss", "fail_rows": [],
            "order": [rng.randrange(nrows) for _ in range(rng.randint(0, nrows))]}
    if rng.random() < 0.4:
        case["cfg"] = None  # shipped integrator: real convergence test
    else:
        case["cfg"] = {"nss": rng.choice([32, 40, 48]), "h": "1/2", "fail": [], "tol": rng.choice(["1/64", "1/256"])}
        if rng.random() < 0.2 and nrows > 1:
            case["fail_rows"] = [rng.randrange(nrows)]
    return case


def gen_zerodiv_case(rng):
    """FAILING ROWS THAT RAISE AT t = 0: a rate law `x / k` with the scanned `k` being 0 in some rows.  The scan workers
    catch ZeroDivisionError to turn such a row into a NaN placeholder (`except ZeroDivisionError: res = Result(...)`);
    the expression language of the Lean model has no division, so this stratum has no model side (oracle only); the
    same branch of the workers is reached WITH a model side by the toy integrator's raising constructor (`zd_rows`)."""
    n = rng.randint(1, 2)
    vars_ = [[f"x{i}", {"v": rng.choice(VALS)}] for i in range(n)]
    pars = [["kin", {"v": rng.choice(["1", "2", "1/2"])}], ["km", {"v": rng.choice(["1", "2", "1/2"])}]]
    rxns = [["r_in", {"args": ["kin"], "e": ["a", 0], "st": [["x0", {"c": "1"}]]}],
            ["r_out", {"args": [f"x{n - 1}", "km"], "e": ["a", 0], "den": ["a", 1], "st": [[f"x{n - 1}", {"c": "-1"}]]}]]
    if n == 2:
        rxns.append(["r_01", {"args": ["x0"], "e": ["*", ["c", "1/2"], ["a", 0]], "st": [["x0", {"c": "-1"}], ["x1", {"c": "1"}]]}])
    content = {"vars": vars_, "pars": pars, "derived": [], "rxns": rxns, "surs": [], "readouts": []}
    kind = rng.choice(["ss", "tc", "proto", "ptc"])
    cols = ["km"] + (["x0"] if rng.random() < 0.4 else [])
    nrows = rng.choice([1, 2, 3, 4])
    zero = sorted(rng.sample(range(nrows), rng.randint(1, max(1, nrows // 2))))
    rows = [[("0" if (c == "km" and i in zero) else rng.choice(["1", "2", "1/2"])) for c in cols] for i in range(nrows)]
    case = {"content": content, "y0": None, "cols": cols, "rows": [[l, r] for l, r in zip(gen_labels(rng, nrows, kind == "ss"), rows)],
            "kind": kind, "fail_rows": [], "order": [], "zerodiv_rows": zero,
            "cfg": {"nss": 3, "h": "1/4", "fail": []} if rng.random() < 0.7 else None}
    if kind in ("tc", "ptc"):
        case["tps"] = rng.choice([["0", "1/2", "1"], ["1/4", "1/2"], ["1/2", "1", "3/2"]])
    if kind in ("proto", "ptc"):
        case["proto"] = [["1/2", [["kin", "1"]]], ["1", [["kin", "2"]]]][: rng.randint(1, 2)]
        case["steps"] = rng.choice([1, 2, 3])
    return case


def gen_case(rng, tier_thorough=False, kind=None, big=False):
    if kind is None and rng.random() < 0.22:
        return gen_relaxing_case(rng, big)
    want = rng.random() < 0.6
    content = gen_content(rng, want)
    vnames = [k for k, _ in content["vars"]]
    pnames = [k for k, _ in content["pars"]]
    plain_p = [k for k, v in content["pars"] if "v" in v]
    ia_dep_vars = sorted({a for _, v in content["pars"] if "ia" in v for a in v["ia"]["args"] if a in vnames})
    kind = kind or rng.choice(["ss", "ss", "tc", "tc", "proto", "ptc"])
    # columns
    ncol = rng.choice([1, 1, 2, 2, 3])
    cand = vnames + pnames
    cols = []
    if ia_dep_vars and rng.random() < 0.65:
        cols.append(rng.choice(ia_dep_vars))
    while len(cols) < ncol and len(cols) < len(cand):
        c = rng.choice(cand)
        if c not in cols:
            cols.append(c)
    rng.shuffle(cols)
    nrows = rng.choice([17, 24, 40]) if big else rng.choice([1, 2, 2, 3, 3, 4, 5, 7])
    rows = [[rng.choice(VALS + ["4", "1/4"]) for _ in cols] for _ in range(nrows)]
    if nrows > 2 and rng.random() < 0.4:
        rows[rng.randrange(nrows)] = list(rows[0])  # duplicate row
    labels = gen_labels(rng, nrows, kind == "ss")
    y0 = None
    if rng.random() < 0.25:
        y0 = [[k, rng.choice(VALS)] for k in rng.sample(vnames, rng.randint(1, len(vnames)))]
    case = {"content": content, "y0": y0, "cols": cols, "rows": [[l, r] for l, r in zip(labels, rows)], "kind": kind}
    if kind in ("tc", "ptc"):
        start = Fraction(rng.choice(["0", "0", "1/4", "1/2"]))
        step = Fraction(rng.choice(["1/4", "1/2", "1/8"]))
        case["tps"] = [fexpr.rat_str(start + i * step) for i in range(rng.randint(2, 5))]
        if start == 0 and len(case["tps"]) == 1:
            case["tps"].append(fexpr.rat_str(step))
    if kind in ("proto", "ptc"):
        t = Fraction(0)
        proto = []
        for _ in range(rng.randint(1, 3)):
            t += Fraction(rng.choice(["1/4", "1/2", "1", "3/4"]))
            proto.append([fexpr.rat_str(t), [[p, rng.choice(PVALS)] for p in plain_p[: max(1, min(2, len(plain_p)))]]])
        case["proto"] = proto
        case["steps"] = rng.choice([1, 2, 2, 3, 4])
    # integrator: the toy Euler (also modelled in Lean), sometimes with failing rows; or the shipped default
    if rng.random() < (0.95 if kind == "ss" else 0.8):  # steady states with the shipped integrator: see gen_relaxing_case
        case["cfg"] = {"nss": rng.randint(1, 4), "h": rng.choice(["1/4", "1/8", "1/2"]), "fail": []}
        r = rng.random()
        nfail = 0 if r < 0.45 else (nrows if r > 0.92 else rng.randint(1, max(1, nrows // 2)))
        case["fail_rows"] = sorted(rng.sample(range(nrows), min(nfail, nrows)))
        # rows whose simulator cannot even be built: ZeroDivisionError inside the worker's `try`
        if rng.random() < 0.25:
            case["zd_rows"] = sorted(rng.sample(range(nrows), rng.randint(1, max(1, nrows // 2))))
    else:
        case["cfg"] = None
        case["fail_rows"] = []
    case["order"] = [rng.randrange(nrows) for _ in range(rng.randint(0, nrows + 1))]
    # a result cache: an empty directory, or one the same scan has filled before (every row is then LOADED)
    case["cache"] = rng.choice([None, None, None, "fresh", "warm"])
    return case


def gen_mcscan(rng):
    case = gen_relaxing_case(rng) if rng.random() < 0.5 else gen_case(rng, kind="ss")
    if case["cfg"] is not None:
        case["cfg"]["fail"] = []
    case["kind"] = "mcscan"
    case["cache"] = None
    case.pop("zd_rows", None)
    case["rows"] = [[i, r] for i, (_, r) in enumerate(case["rows"][:3])]
    case["order"] = []
    case["fail_rows"] = []
    vnames = [k for k, _ in case["content"]["vars"]]
    pnames = [k for k, v in case["content"]["pars"]]
    ia_dep = sorted({a for _, v in case["content"]["pars"] if "ia" in v for a in v["ia"]["args"] if a in vnames})
    cols = [rng.choice(ia_dep)] if ia_dep and rng.random() < 0.7 else [rng.choice(vnames + pnames)]
    if rng.random() < 0.4:
        extra = rng.choice(vnames + pnames)
        if extra not in cols:
            cols.append(extra)
    case["inner"] = {"cols": cols, "rows": [[rng.choice(VALS) for _ in cols] for _ in range(rng.randint(2, 4))]}
    case["inner"]["labels"] = gen_labels(rng, len(case["inner"]["rows"]), True)  # the inner scan is positional
    labs = gen_labels(rng, len(case["rows"]), False)
    if len(set(labs)) == len(labs):  # Monte-Carlo samples are keyed by label
        case["rows"] = [[l, r] for l, (_, r) in zip(labs, case["rows"])]
    return case


def row_values(case, i):
    """(name, value) pairs a fresh model is declared with for row i: y0 first, then the row's columns
    that name a variable or a parameter"""
    names = {k for k, _ in case["content"]["vars"]} | {k for k, _ in case["content"]["pars"]}
    kv = dict(case["y0"] or [])
    for c, v in zip(case["cols"], case["rows"][i][1]):
        if c in names:
            kv[c] = v
    return list(kv.items())


def fail_key(case, i):
    """sum(y0) + 3*sum(rhs(0, y0)) of row i's model, exactly"""
    sp = C.Spec(L.with_values(case["content"], row_values(case, i)))
    iv = sp.init_values()
    d = sp.rhs(None, 0)
    return sum((iv[k] for k in sp.vars), Fraction(0)) + 3 * sum(d.values(), Fraction(0))


def _deg(e, argdeg):
    tag = e[0]
    if tag == "a":
        return argdeg[e[1]]
    if tag == "c":
        return 0
    if tag == "*":
        return _deg(e[1], argdeg) + _deg(e[2], argdeg)
    if tag == "neg":
        return _deg(e[1], argdeg)
    return max(_deg(e[1], argdeg), _deg(e[2], argdeg))


def state_degree(content):
    """largest total degree of a rate law in the state variables (through derived quantities)"""
    deg = {k: 1 for k, _ in content["vars"]}
    for k, d in content["derived"]:
        deg[k] = _deg(d["e"], [deg.get(a, 0) for a in d["args"]])
    degs = [_deg(r["e"], [deg.get(a, 0) for a in r["args"]]) for _, r in content["rxns"]]
    for _, sur in content.get("surs", []):
        degs += [_deg(e, [deg.get(a, 0) for a in sur["args"]]) for e in sur["es"]]
    return max(degs + [0])


def euler_steps(case):
    k = case["kind"]
    if k in ("ss", "mcscan"):
        return int(case["cfg"]["nss"])
    if k == "tc":
        return len(case["tps"]) + 1
    if k == "proto":
        return len(case["proto"]) * case["steps"]
    return len(case["proto"]) + len(case["tps"]) + 1


def finalize(case):
    """turn fail_rows into the integrator's fail keys; False if the case leaves the exact range or the
    exact rational Euler iteration of the Lean model would blow up (numerator size grows like degree^steps)"""
    if case.get("zerodiv_rows") is not None:
        return True  # linear, no injected failures: nothing to prepare
    if case["cfg"] is None:
        # shipped integrator: linear models only (a polynomial rate law can blow up in finite time and
        # LSODA then crawls forever)
        return state_degree(case["content"]) <= 1
    if state_degree(case["content"]) ** euler_steps(case) > 128:  # also keeps doubles far from overflow
        return False
    try:
        keys = {fail_key(case, i) for i in range(len(case["rows"]))}  # also guards exactness at t=0
        case["cfg"]["fail"] = sorted({fexpr.rat_str(fail_key(case, i)) for i in case["fail_rows"]}, key=Fraction)
        if case.get("zd_rows"):
            case["cfg"]["zerodiv"] = sorted({fexpr.rat_str(fail_key(case, i)) for i in case["zd_rows"]}, key=Fraction)
        del keys
    except fexpr.Inexact:
        return False
    return True


# --------------------------------------------------------------------------- real side


def _lab(k):
    return k if isinstance(k, str) else int(k)


def _frame_block(df):
    """DataFrame (index = time) -> {"t": [...], "cols": [[name, [values]]] sorted by name}"""
    return {"t": [float(t) for t in df.index], "cols": sorted([str(c), [float(v) for v in df[c].to_numpy()]] for c in df.columns)}


def _entry(variables, fluxes, varnames):
    v = _frame_block(variables)
    f = _frame_block(fluxes)
    nan = all(math.isnan(x) for name, xs in v["cols"] if name in varnames for x in xs)
    if nan:
        # a placeholder is compared by shape: index and column names (computed columns that depend on
        # no variable keep finite values in it; that is not part of the property)
        return {"nan": True, "t": v["t"], "tf": f["t"], "vars": [[n, "nan"] for n, _ in v["cols"]],
                "flux": [[n, "nan"] for n, _ in f["cols"]]}
    return {"nan": False, "t": v["t"], "vars": v["cols"], "flux": f["cols"], "tf": f["t"]}


def _read_state(m):
    return {"pars": sorted([k, float(v)] for k, v in m.get_parameter_values().items()),
            "init": sorted([k, float(v)] for k, v in m.get_initial_conditions().items())}


def _state(m):
    """parameter values and initial values of a model as STORED in it: read once through the getters as they answer
    right now (possibly from the memoised cache) and once after a value-preserving edit, which makes the model rebuild
    its cache from the stored objects.  Code that writes the stored objects behind the cache's back (a shallow copy
    sharing `_variables` / the `Variable` objects) shows up as a difference between the two."""
    from mxlpy.types import InitialAssignment

    cached = _read_state(m)
    for k, p in m.get_raw_parameters(as_copy=False).items():
        if not isinstance(p.value, InitialAssignment):
            m.update_parameter(k, p.value)
            break
    else:
        for k, v in m.get_raw_variables(as_copy=False).items():
            if not isinstance(v.initial_value, InitialAssignment):
                m.update_variable(k, v.initial_value)
                break
    fresh = _read_state(m)
    if fresh != cached:
        fresh["answered_from_stale_cache"] = cached
    return fresh


def _table(case):
    import pandas as pd

    return pd.DataFrame([[L.fl(v) for v in r] for _, r in case["rows"]], columns=case["cols"],
                        index=[l for l, _ in case["rows"]])


def _proto(case):
    from mxlpy import make_protocol

    steps, prev = [], Fraction(0)
    for t, pars in case["proto"]:
        steps.append((L.fl(Fraction(t) - prev), {k: L.fl(v) for k, v in pars}))
        prev = Fraction(t)
    return make_protocol(steps)


_scratch = [0]


def _scratch_dir():
    from pathlib import Path

    _scratch[0] += 1
    d = Path(__file__).resolve().parent.parent / ".work" / f"c09cache-{os.getpid()}-{_scratch[0]}"
    shutil.rmtree(d, ignore_errors=True)
    return d


def run_real(case, mode):
    """the scan under test; canonical observation or {"err": [cls]}"""
    import numpy as np
    import pandas as pd
    from mxlpy import mc, scan

    if case["kind"] == "mcscan":
        return run_real_mcscan(case, mode)
    try:
        m = L.build_model(case["content"])
        varnames = set(m.get_variable_names())
        kind = case["kind"]
        table = _table(case)
        y0 = None if case["y0"] is None else {k: L.fl(v) for k, v in case["y0"]}
        kw = {"y0": y0, "integrator": L.make_integ(case["cfg"])}
        if kind in ("tc", "ptc"):
            kw["time_points"] = np.array([L.fl(t) for t in case["tps"]], dtype=float)
        if kind in ("proto", "ptc"):
            kw["protocol"] = _proto(case)
        if kind == "proto":
            kw["time_points_per_step"] = case["steps"]
        name = {"ss": "steady_state", "tc": "time_course", "proto": "protocol", "ptc": "protocol_time_course"}[kind]
        tmp = None
        if case.get("cache"):
            from mxlpy.parallel import Cache

            tmp = _scratch_dir()
            kw["cache"] = Cache(tmp_dir=tmp)

        def call():
            if mode[0] == "mc":
                return getattr(mc, name)(m, mc_to_scan=table, max_workers=mode[1], **kw)
            if mode[0] == "seq":
                return getattr(scan, name)(m, to_scan=table, parallel=False, **kw)
            with mock.patch("multiprocessing.cpu_count", return_value=mode[1]):
                return getattr(scan, name)(m, to_scan=table, parallel=True, **kw)

        try:
            with L.quiet():
                if case.get("cache") == "warm":
                    call()  # fills the directory; the observed call below finds every row stored
                res = call()
        finally:
            if tmp is not None:
                shutil.rmtree(tmp, ignore_errors=True)
        # touch the lazily evaluated results in the requested order first
        raw = res.raw_results if kind == "ss" else list(res.raw_results.values())
        for i in case.get("order", []):
            if i < len(raw):
                _ = raw[i].fluxes
        out = []
        if kind == "ss":
            v, f = res.variables, res.fluxes
            for i in range(len(v)):
                key = [float(x) for x in (v.index[i] if isinstance(v.index[i], tuple) else (v.index[i],))]
                vb = pd.DataFrame([v.iloc[i]], index=[0.0])
                fb = pd.DataFrame([f.iloc[i]], index=[0.0])
                e = _entry(vb, fb, varnames)
                e["t"], e["tf"] = [], []
                out.append([key, e])
        else:
            v, f = res.variables, res.fluxes
            for k in dict.fromkeys(v.index.get_level_values(0)):
                out.append([_lab(k), _entry(v.xs(k, level=0), f.xs(k, level=0), varnames)])
        return {"res": out, "caller": _state(m)}
    except Exception as e:  # noqa: BLE001
        return {"err": [type(e).__name__]}


def _inner_table(case):
    import pandas as pd

    return pd.DataFrame([[L.fl(v) for v in r] for r in case["inner"]["rows"]], columns=case["inner"]["cols"],
                        index=case["inner"].get("labels"))


def _rows_of(df, nan_rows=None):
    """DataFrame -> [[index tuple as floats, sorted [col, value]]] in row order; a placeholder row
    (nan_rows[i]) is compared by shape: column names only"""
    out = []
    for i in range(len(df)):
        idx = df.index[i]
        key = [(x if isinstance(x, str) else float(x)) for x in (idx if isinstance(idx, tuple) else (idx,))]
        key[0] = _lab(key[0])
        if nan_rows is not None and nan_rows[i]:
            out.append([key, sorted([str(c), "nan"] for c in df.columns)])
        else:
            out.append([key, sorted([str(c), float(df.iloc[i][c])] for c in df.columns)])
    return out


def run_real_mcscan(case, mode):
    """mc.scan_steady_state: every Monte-Carlo row runs a (sequential) inner scan in a pool process"""
    from mxlpy import mc

    try:
        m = L.build_model(case["content"])
        y0 = None if case["y0"] is None else {k: L.fl(v) for k, v in case["y0"]}
        with L.quiet():
            res = mc.scan_steady_state(m, to_scan=_inner_table(case), mc_to_scan=_table(case), y0=y0,
                                       max_workers=mode[1], integrator=L.make_integ(case["cfg"]))
        vn = list(m.get_variable_names())
        nan_rows = [all(math.isnan(float(res.variables.iloc[i][c])) for c in vn) for i in range(len(res.variables))]
        return {"vars": _rows_of(res.variables, nan_rows), "flux": _rows_of(res.fluxes, nan_rows), "caller": _state(m)}
    except Exception as e:  # noqa: BLE001
        return {"err": [type(e).__name__]}


def run_oracle_mcscan(case):
    from mxlpy import Simulator

    try:
        names = {k for k, _ in case["content"]["vars"]} | {k for k, _ in case["content"]["pars"]}
        vs, fs = [], []
        for i, (label, _) in enumerate(case["rows"]):
            for inner in case["inner"]["rows"]:
                kv = dict(row_values(case, i))
                for c, v in zip(case["inner"]["cols"], inner):
                    if c in names:
                        kv[c] = v
                m = L.build_model(L.with_values(case["content"], list(kv.items())))
                r = Simulator(m, integrator=L.make_integ(case["cfg"])).simulate_to_steady_state().get_result()
                key = [_lab(label)] + [L.fl(x) for x in inner]
                if isinstance(r.value, Exception):  # no steady state: NaN row of the right shape
                    vcols, fcols = result_columns(m)
                    vs.append([key, sorted([str(c), "nan"] for c in vcols)])
                    fs.append([key, sorted([str(c), "nan"] for c in fcols)])
                    continue
                vs.append([key, sorted([str(c), float(r.value.variables.iloc[-1][c])] for c in r.value.variables.columns)])
                fs.append([key, sorted([str(c), float(r.value.fluxes.iloc[-1][c])] for c in r.value.fluxes.columns)])
        mc_ = L.build_model(L.with_values(case["content"], case["y0"] or []))
        return {"vars": vs, "flux": fs, "caller": _state(mc_)}
    except Exception as e:  # noqa: BLE001
        return {"err": [type(e).__name__]}  # an exception escapes the independent run: the scan must raise it too


def _independent(case, i, cfg):
    """one separate simulation of a fresh model declared with row i's values"""
    import numpy as np
    from mxlpy import Simulator

    m = L.build_model(L.with_values(case["content"], row_values(case, i)))
    s = Simulator(m, integrator=L.make_integ(cfg))
    kind = case["kind"]
    if kind == "ss":
        s.simulate_to_steady_state()
    elif kind == "tc":
        s.simulate_time_course(np.array([L.fl(t) for t in case["tps"]], dtype=float))
    elif kind == "proto":
        s.simulate_protocol(_proto(case), time_points_per_step=case["steps"])
    else:
        s.simulate_protocol_time_course(_proto(case), np.array([L.fl(t) for t in case["tps"]], dtype=float))
    r = s.get_result()
    return m, (None if isinstance(r.value, Exception) else r.value)


def result_columns(m):
    """column names of `.variables` (variables, derived variables, surrogate variables, readouts) and of
    `.fluxes` (reactions, surrogate fluxes) of any result of this model"""
    flags = dict.fromkeys(["include_time", "include_variables", "include_parameters", "include_derived_parameters",
                           "include_derived_variables", "include_reactions", "include_surrogate_variables",
                           "include_surrogate_fluxes", "include_readouts"], False)
    v = m.get_arg_names(**{**flags, "include_variables": True, "include_derived_variables": True,
                           "include_surrogate_variables": True, "include_readouts": True})
    f = m.get_arg_names(**{**flags, "include_reactions": True, "include_surrogate_fluxes": True})
    return list(v), list(f)


def success_index(case):
    """time index of a successful row, from the request alone (the integrators' row layout:
    `integrate(t_end, steps)` returns steps+1 points, `integrate_time_course` prepends t0)"""
    import numpy as np

    kind = case["kind"]
    if kind == "ss":
        return [0.0]  # the steady-state container keeps one row and drops the time
    if kind == "tc":
        tps = [L.fl(t) for t in case["tps"] if Fraction(t) >= 0]
        return tps if tps and tps[0] == 0.0 else [0.0, *tps]
    ends = [L.fl(t) for t, _ in case["proto"]]
    if kind == "proto":
        out, t0 = [], 0.0
        for k, t_end in enumerate(ends):
            grid = [float(x) for x in np.linspace(t0, t_end, case["steps"] + 1)]
            out += grid if k == 0 else grid[1:]
            t0 = t_end
        return out
    full = sorted(set(ends) | {L.fl(t) for t in case["tps"]})
    return [0.0] + [t for t in full if 0.0 < t <= ends[-1]]


def run_oracle(case):
    """S: per row an independent run; a row whose independent run fails -> NaN block with the shape of a
    successful row (time grid from the request, columns from the model's names)"""
    import numpy as np
    import pandas as pd

    if case["kind"] == "mcscan":
        return run_oracle_mcscan(case)
    if case.get("cache") and len({l for l, _ in case["rows"]}) < len(case["rows"]):
        return {"err": ["ValueError"]}  # results are stored per row label: a cache with repeated labels is refused
    try:
        kind = case["kind"]
        per_row = []
        for i in range(len(case["rows"])):
            try:
                m, sim = _independent(case, i, case["cfg"])
            except ZeroDivisionError:
                # the exception class the scan workers turn into a failed result (`except ZeroDivisionError`): a
                # FAILING ROW, to be shown as a NaN block.  This model cannot even name its columns (every query
                # re-evaluates the rates): take them from the model as declared
                m, sim = L.build_model(case["content"]), None
            varnames = set(m.get_variable_names())
            if sim is None:
                # the independent run itself reports failure (integration failure / no steady state):
                # the scan must show a NaN block with the shape a successful row has.  That shape does
                # not need a successful run: the time grid follows from the request (success_index),
                # the columns from the model's names.
                idx = pd.Index(success_index(case))
                vcols, fcols = result_columns(m)
                v = pd.DataFrame(np.full((len(idx), len(vcols)), np.nan), index=idx, columns=vcols)
                f = pd.DataFrame(np.full((len(idx), len(fcols)), np.nan), index=idx, columns=fcols)
            else:
                v, f = sim.variables, sim.fluxes
            if kind == "ss":
                v = pd.DataFrame([v.iloc[-1]], index=[0.0])
                f = pd.DataFrame([f.iloc[-1]], index=[0.0])
            e = _entry(v, f, varnames)
            if kind == "ss":
                e["t"], e["tf"] = [], []
            per_row.append(e)
        out = []
        if kind == "ss":
            for (_, r), e in zip(case["rows"], per_row):
                out.append([[L.fl(x) for x in r], e])
        else:
            d = {}
            for (l, _), e in zip(case["rows"], per_row):
                d[l] = e  # a container keyed by row label keeps the last row of a label
            out = [[_lab(l), e] for l, e in d.items()]
        # the caller's model: as declared, plus y0
        mc_ = L.build_model(L.with_values(case["content"], case["y0"] or []))
        return {"res": out, "caller": _state(mc_)}
    except Exception as e:  # noqa: BLE001
        return {"err": [type(e).__name__]}  # an exception escapes the independent run: the scan must raise it too


# --------------------------------------------------------------------------- Lean side


def label_ids(case):
    return {l: i for i, l in enumerate(dict.fromkeys(l for l, _ in case["rows"]))}


def model_request(case, mode, rng_seed=0):
    ids = label_ids(case)  # the Lean model keys results by natural numbers; only label identity matters
    req = {"op": "c09", "content": case["content"], "y0": case["y0"], "kind": case["kind"],
           "rows": [[ids[l], [[c, v] for c, v in zip(case["cols"], r)]] for l, r in case["rows"]],
           "cfg": case["cfg"], "order": case.get("order", []) + list(range(len(case["rows"])))}
    for k in ("tps", "proto", "steps"):
        if k in case:
            req[k] = case[k]
    if case.get("cache"):
        req["cache"] = case["cache"]
    if mode[0] == "seq":
        req["mode"] = "seq"
    elif mode[0] == "legacy":
        req["mode"] = "legacy"
    else:
        req["mode"] = "par"
        req["n"] = mode[1]
        r = random.Random(rng_seed)
        req["assign"] = [r.randrange(mode[1]) for _ in case["rows"]]
    n_entries = len(case["rows"]) if case["kind"] == "ss" else len(dict.fromkeys(l for l, _ in case["rows"]))
    req["order"] = [i for i in req["order"] if i < n_entries]
    return req


def canon_model(resp, template, case=None):
    """driver answer -> observation with the column selection of `template` (S's columns)"""
    if "err" in resp:
        return {"err": [resp["err"][0]]}
    ok = resp["ok"]
    out = []
    for idx, (key, view) in enumerate(ok["res"]):
        tmpl = template["res"][idx][1] if idx < len(template.get("res", [])) else None
        vcols = [n for n, _ in tmpl["vars"]] if tmpl else []
        fcols = [n for n, _ in tmpl["flux"]] if tmpl else []
        rows = [r for seg in view["segs"] for r in seg]
        t = [L.qf(r[0]) for r in rows]
        if view["nan"]:
            e = {"nan": True, "t": t}
        else:
            args = [dict(r[1]) for r in rows]
            e = {"nan": False, "t": t,
                 "vars": [[n, [L.qf(a[n]) if n in a else "missing" for a in args]] for n in vcols],
                 "flux": [[n, [L.qf(a[n]) if n in a else "missing" for a in args]] for n in fcols], "tf": t}
        if case_kind_ss(key):
            e["t"] = []
            if "tf" in e:
                e["tf"] = []
        back = {i: l for l, i in label_ids(case).items()} if case is not None else {}
        k = [L.qf(x) for x in key] if isinstance(key, list) else back.get(int(key), int(key))
        out.append([k, e])

    def st(j):
        if "ok" in j:
            return sorted([k, L.qf(v)] for k, v in j["ok"])
        return {"err": j["err"][0]}

    res = {"res": out, "caller": {"pars": st(ok["caller"]["pars"]), "init": st(ok["caller"]["init"])}}
    if not ok.get("grid_ok", True):
        res["grid_ok"] = False  # the worker model's grid is not the *Index function the theorems talk about
    return res


def model_request_mcscan(case, mode, rng_seed=0):
    r = random.Random(rng_seed)
    ids = label_ids(case)
    return {"op": "c09", "kind": "mcscan", "content": case["content"], "y0": case["y0"], "cfg": case["cfg"],
            "rows": [[ids[l], [[c, v] for c, v in zip(case["cols"], row)]] for l, row in case["rows"]],
            "inner": [[i, [[c, v] for c, v in zip(case["inner"]["cols"], row)]] for i, row in enumerate(case["inner"]["rows"])],
            "n": mode[1], "assign": [r.randrange(mode[1]) for _ in case["rows"]]}


def canon_model_mcscan(resp, S, case):
    """driver answer -> {"vars": ..., "flux": ..., "caller": ...} with S's column selection; NaN rows by shape"""
    if "err" in resp:
        return {"err": [resp["err"][0]]}
    ok = resp["ok"]
    back = {i: l for l, i in label_ids(case).items()}
    out = {"vars": [], "flux": []}
    for which in ("vars", "flux"):
        for idx, (lab, inner_vals, view) in enumerate(ok["rows"]):
            key = [_lab(back.get(int(lab), int(lab)))] + [L.qf(x) for x in inner_vals]
            tmpl = S[which][idx][1] if idx < len(S.get(which, [])) else []
            names = [n for n, _ in tmpl]
            rows = [r for seg in view["segs"] for r in seg]
            if view["nan"] or not rows:
                out[which].append([key, sorted([n, "nan"] for n in names)])
            else:
                a = dict(rows[-1][1])
                out[which].append([key, sorted([n, (L.qf(a[n]) if n in a else "missing")] for n in names)])

    def st(j):
        if "ok" in j:
            return sorted([k, L.qf(v)] for k, v in j["ok"])
        return {"err": j["err"][0]}

    out["caller"] = {"pars": st(ok["caller"]["pars"]), "init": st(ok["caller"]["init"])}
    return out


def case_kind_ss(key):
    return isinstance(key, list)


def reduce_nan(obs):
    """compare failing rows with the model by shape only (the model carries no NaN arithmetic)"""
    if "err" in obs or "res" not in obs:
        return obs  # mc.scan_steady_state observations carry their failing rows by shape already
    out = []
    for key, e in obs["res"]:
        out.append([key, {"nan": True, "t": e["t"]} if e["nan"] else e])
    return {"res": out, "caller": obs["caller"]}


# --------------------------------------------------------------------------- evaluation


def modes_for(case, rng, thorough):
    if case.get("coverage") and not thorough:
        return [["seq"], ["par", 2], ["mc", 2]]
    if case["kind"] == "mcscan":
        return [["mc", w] for w in ((1, 2, 3, 16) if thorough else (rng.choice([1, 2]), rng.choice([3, 16])))]
    if thorough:
        return [["seq"], ["par", 1], ["par", 2], ["par", 3], ["par", 16], ["mc", 1], ["mc", 2], ["mc", 3], ["mc", 16]]
    ws = [1, 2, 3, 16]
    return [["seq"], ["par", rng.choice(ws)], ["mc", rng.choice(ws)]]


class JobTimeout(BaseException):
    """a single case ran into the watchdog: machinery failure (exit 2), neither pass nor violation"""


def _alarm(*_a):
    raise JobTimeout()


def _work(job):
    import logging
    import signal
    import warnings

    warnings.filterwarnings("ignore")
    logging.disable(logging.CRITICAL)
    case, modes = job
    signal.signal(signal.SIGALRM, _alarm)
    signal.alarm(180)
    try:
        S = run_oracle(case)
        return S, [run_real(case, m) for m in modes]
    except JobTimeout:
        raise RuntimeError("watchdog: case did not finish in 180 s: " + str(case)[:1500]) from None
    finally:
        signal.alarm(0)


_pool = None


def pool():
    global _pool
    if _pool is None:
        _pool = cf.ProcessPoolExecutor(max_workers=min(8, os.cpu_count() or 2), mp_context=mp.get_context("fork"))
    return _pool


def classify(case, mode, R, S):
    """which listed finding (if any) an R != S on this case can belong to"""
    if case.get("zerodiv_rows") and R == {"err": ["ZeroDivisionError"]} and "res" in S:
        # F-C09-3: a row that raises ZeroDivisionError at t = 0 takes the whole scan down (the placeholder itself
        # cannot be built: Simulation.default asks the model for its parameter values, which evaluates the rates)
        return "F-C09-3"
    if "res" not in R or "res" not in S or case["kind"] == "mcscan":
        return None
    if R.get("caller") != S.get("caller"):
        return None
    bad = [(r, s) for r, s in zip(R["res"], S["res"]) if r != s]
    if len(R["res"]) != len(S["res"]) or not bad:
        return None
    # class of F-C09-2 (repaired; listed as "fixed", so a reappearance is a violation): a failing row whose
    # placeholder has the wrong time index, everything else equal
    for (rk, re), (sk, se) in bad:
        if not (rk == sk and re["nan"] and se["nan"] and re["t"] != se["t"]):
            return None
    return "F-C09-2"


def label_kind(case):
    labs = [l for l, _ in case["rows"]]
    if len(set(labs)) < len(labs):
        return "replabels"
    if any(isinstance(l, str) for l in labs):
        return "strlabels"
    return "rangelabels" if labs == list(range(len(labs))) else "intlabels"


def shape(case):
    c = case["content"]
    if case["kind"] == "mcscan":
        return f"mcscan-rows{len(case['rows'])}x{len(case['inner']['rows'])}-{'euler' if case['cfg'] else 'lsoda'}"
    if case.get("zerodiv_rows") is not None:
        return (f"zerodiv-{case['kind']}-rows{len(case['rows'])}-raising{len(case['zerodiv_rows'])}-"
                f"{'euler' if case['cfg'] else 'lsoda'}")
    ia = sum(1 for _, v in c["pars"] if "ia" in v)
    vs = {k for k, _ in c["vars"]}
    scan_var = any(col in vs for col in case["cols"])
    return (f"{case['kind']}-cols{len(case['cols'])}-rows{min(len(case['rows']), 8)}{'+' if len(case['rows']) > 8 else ''}"
            f"-ia{min(ia, 2)}-{'scanvar' if scan_var else 'scanpar'}-{'euler' if case['cfg'] else 'lsoda'}"
            f"-fail{min(len(case.get('fail_rows', [])), 2)}{'-tol' if (case['cfg'] or {}).get('tol') else ''}"
            f"{'-readout' if c.get('readouts') else ''}{'-surrogate' if c.get('surs') else ''}{'-' + label_kind(case)}"
            f"{'-cache' + case['cache'] if case.get('cache') else ''}{'-zdctor' if case.get('zd_rows') else ''}")


DRIVER_NAME = {"ss": "steady_state", "tc": "time_course", "proto": "protocol", "ptc": "protocol_time_course",
               "mcscan": "scan_steady_state"}


def count_driver(ctx, case, mode, S):
    """per public driver (scan.* x4, mc.* x5): how often it ran, and with which of the features the property
    quantifies over - failing rows, repeated labels, an initial-value column, more / not more rows than processes"""
    d = ("mc." if mode[0] == "mc" else "scan.") + DRIVER_NAME[case["kind"]]
    vs = {k for k, _ in case["content"]["vars"]}
    nanrow = any(e.get("nan") for _, e in S.get("res", [])) or any(
        all(v == "nan" for _, v in cols) for _, cols in S.get("vars", []))
    feats = ["runs"]
    if case.get("fail_rows") or case.get("zerodiv_rows") or case.get("zd_rows") or nanrow:
        feats.append("failing-rows")
    if len({l for l, _ in case["rows"]}) < len(case["rows"]):
        feats.append("repeated-labels")
    if any(c in vs for c in case["cols"]) or any(c in vs for c in (case.get("inner") or {}).get("cols", [])):
        feats.append("initial-value-column")
    if mode[0] == "seq":
        feats.append("sequential")
    else:
        feats.append("rows>processes" if len(case["rows"]) > mode[1] else "rows<=processes")
    if case.get("cache"):
        feats.append("cache")
    if case.get("y0"):
        feats.append("y0")
    for f in feats:
        k = f"driver {d}: {f}"
        ctx.hist[k] = ctx.hist.get(k, 0) + 1


def judge_case(ctx, case, modes, S, Rs, Ms):
    nontrivial = ("res" in S and len(S["res"]) > 0) or "vars" in S
    ctx.count({k: v for k, v in case.items()}, shape(case), nontrivial)
    Sj = L.jnum(S)
    if case["kind"] == "ss" and "res" in S and (case["cfg"] is None or case["cfg"].get("tol")):
        # rows whose steady state is decided by a real convergence test (not by an injected failure)
        tag = "lsoda" if case["cfg"] is None else "euler-tol"
        for _, e in S["res"]:
            k = f"ss-convergence-{tag}-{'no-steady-state' if e['nan'] else 'converged'}"
            ctx.hist[k] = ctx.hist.get(k, 0) + 1
    for mode, R, M in zip(modes, Rs, Ms):
        sub = dict(case, modes=[mode])
        count_driver(ctx, case, mode, S)
        Rn = L.snap(S, R, TOL)
        fid = classify(case, mode, Rn, S)
        Mj = None
        if M is not None:
            # the model is compared on views restricted to S's columns; NaN rows by shape
            Mn = L.snap(reduce_nan(Rn), M, TOL)
            if L.jnum(Mn) == L.jnum(reduce_nan(Rn)):
                Mj = L.jnum(Rn)
            else:
                Mj = L.jnum(Mn)
        ctx.judge(sub, L.jnum(Rn), Sj, Mj, finding=fid, what=f"mode {mode}")
        ctx.hist[f"mode-{mode[0]}{mode[1] if len(mode) > 1 else ''}"] = ctx.hist.get(f"mode-{mode[0]}{mode[1] if len(mode) > 1 else ''}", 0) + 1


def evaluate(ctx, cases_modes):
    jobs = list(cases_modes)
    outs = list(pool().map(_work, jobs, chunksize=1))
    reqs, where = [], []
    for ci, ((case, modes), (S, Rs)) in enumerate(zip(jobs, outs)):
        for mi, mode in enumerate(modes):
            if ctx.driver_ok and case["cfg"] is not None and case["kind"] == "mcscan" and "vars" in S and MCSCAN_MODEL:
                reqs.append(model_request_mcscan(case, mode, rng_seed=ci * 31 + mi))
                where.append((ci, mi))
            elif ctx.driver_ok and case["cfg"] is not None and ("res" in S or (case.get("cache") and "err" in S)) \
                    and case["kind"] != "mcscan" and case.get("zerodiv_rows") is None:
                reqs.append(model_request(case, mode, rng_seed=ci * 31 + mi))
                where.append((ci, mi))
    answers = driver.call_batch(reqs, timeout=300.0) if reqs else []
    Ms = [[None] * len(modes) for _, modes in jobs]
    for (ci, mi), a in zip(where, answers):
        if jobs[ci][0]["kind"] == "mcscan":
            Ms[ci][mi] = canon_model_mcscan(a, outs[ci][0], jobs[ci][0])
        else:
            Ms[ci][mi] = canon_model(a, outs[ci][0], jobs[ci][0])
    return [(S, Rs, Ms[ci]) for ci, (S, Rs) in enumerate(outs)]


# --------------------------------------------------------------------------- `parallelise` itself


def gen_par_case(rng, with_timeout=False):
    """a direct call of parallel.parallelise over `c09lib.toy_fn`: keys (distinct or repeated), inputs (some raise),
    sequential / pool with 1-16 processes, no cache / empty directory / a directory that already holds some keys
    (whatever is stored wins: the function is not called), and - pool only - inputs that exceed the timeout"""
    n = rng.randint(0, 7)
    keys = rng.sample(range(20), n)
    if n > 1 and rng.random() < 0.25:
        keys[rng.randrange(1, n)] = keys[0]  # a repeated key
    xs = [rng.choice([0, 1, 2, 3, 5, 8, "1/2", "3/4"]) for _ in range(n)]
    if n and rng.random() < 0.3:
        xs[rng.randrange(n)] = rng.choice([-1, -2])  # raises
    mode = ["seq"] if rng.random() < 0.4 and not with_timeout else ["par", rng.choice([1, 2, 3, 16])]
    r = rng.random()
    store = None if r < 0.4 else ([] if r < 0.6 else [[k, rng.choice([7, 9, 11])] for k in dict.fromkeys(rng.sample(keys + [97, 98], rng.randint(1, max(1, n))))])
    case = {"kind": "parallelise", "inputs": [[k, str(x)] for k, x in zip(keys, xs)], "mode": mode, "store": store,
            "timed_out": []}
    if with_timeout and n:
        slow = sorted(rng.sample(range(n), rng.randint(1, min(2, n))))
        for i in slow:
            case["inputs"][i][1] = "1000"
        # a stored key is loaded, not run: it cannot time out
        case["timed_out"] = [i for i in slow if store is None or case["inputs"][i][0] not in {k for k, _ in store}]
        case["timeout"] = 2.0
    return case


def run_real_par(case):
    from mxlpy.parallel import Cache, parallelise

    tmp = None
    try:
        kw = {}
        if case["store"] is not None:
            tmp = _scratch_dir()
            cache = Cache(tmp_dir=tmp)
            tmp.mkdir(parents=True, exist_ok=True)
            for k, v in case["store"]:
                cache.save_fn(tmp / cache.name_fn(k), float(v))
            kw["cache"] = cache
        inputs = [(k, L.fl(x)) for k, x in case["inputs"]]
        with L.quiet():
            res = parallelise(L.toy_fn, inputs, parallel=case["mode"][0] != "seq",
                              max_workers=case["mode"][1] if case["mode"][0] != "seq" else None,
                              timeout=case.get("timeout"), **kw)
        out = {"res": [[int(k), float(v)] for k, v in res]}
        if case["store"] is not None:
            cache = kw["cache"]
            ks = list(dict.fromkeys([k for k, _ in case["store"]] + [k for k, _ in case["inputs"]]))
            out["store"] = sorted([int(k), float(cache.load_fn(tmp / cache.name_fn(k)))] for k in ks if (tmp / cache.name_fn(k)).exists())
        return out
    except Exception as e:  # noqa: BLE001
        return {"err": [type(e).__name__]}
    finally:
        if tmp is not None:
            shutil.rmtree(tmp, ignore_errors=True)


def oracle_par(case):
    """declarative: what the mapping must be, input by input"""
    keys = [k for k, _ in case["inputs"]]
    stored = None if case["store"] is None else {k: float(v) for k, v in case["store"]}
    if stored is not None and len(set(keys)) < len(keys):
        return {"err": ["ValueError"]}
    res, new = [], {}
    for i, (k, x) in enumerate(case["inputs"]):
        if stored is not None and k in stored:
            res.append([k, stored[k]])
        elif i in case["timed_out"]:
            continue  # cancelled: no result (and nothing is stored)
        elif Fraction(x) < 0:
            return {"err": ["ValueError"]}
        else:
            res.append([k, float(2 * Fraction(x))])
            new[k] = float(2 * Fraction(x))
    out = {"res": res}
    if stored is not None:
        out["store"] = sorted([k, v] for k, v in {**stored, **new}.items())
    return out


def par_request(case, seed):
    r = random.Random(seed)
    n = case["mode"][1] if case["mode"][0] != "seq" else 1
    return {"op": "c09", "what": "parallelise", "inputs": case["inputs"], "store": case["store"],
            "parallel": case["mode"][0] != "seq", "n": n, "assign": [r.randrange(n) for _ in case["inputs"]],
            "timed_out": case["timed_out"]}


def canon_par(a):
    if "err" in a["res"]:
        return {"err": [a["res"]["err"][0]]}
    out = {"res": [[int(k), L.qf(v)] for k, v in a["res"]["ok"]]}
    if a.get("store") is not None:
        out["store"] = sorted([int(k), L.qf(v)] for k, v in a["store"])
    return out


def _work_par(case):
    import signal
    import warnings

    warnings.filterwarnings("ignore")
    signal.signal(signal.SIGALRM, _alarm)
    signal.alarm(180)
    try:
        S, R = oracle_par(case), run_real_par(case)
        if case.get("timeout") and R != S:
            # on an oversubscribed machine a task that takes microseconds can still miss a 2 s deadline: look again with
            # a deadline three times as long before calling it a difference (the slow inputs sleep for ten minutes)
            R = run_real_par(dict(case, timeout=3 * case["timeout"]))
        return S, R
    except JobTimeout:
        raise RuntimeError("watchdog: parallelise case did not finish in 180 s: " + str(case)) from None
    finally:
        signal.alarm(0)


def run_par_stratum(ctx, rng, thorough):
    cases = [gen_par_case(rng) for _ in range(60 if thorough else 14)]
    cases += [gen_par_case(rng, with_timeout=True) for _ in range(6 if thorough else 1)]
    outs = list(pool().map(_work_par, cases, chunksize=1))
    answers = driver.call_batch([par_request(c, 7 * i) for i, c in enumerate(cases)]) if ctx.driver_ok else [None] * len(cases)
    for case, (S, R), a in zip(cases, outs, answers):
        M = None if a is None else (canon_par(a) if "res" in a else {"driver": a})
        if "err" in R:
            M = None if M is None else ({"err": M["err"]} if "err" in M else M)
        ctx.count(case, f"parallelise-{case['mode'][0]}-{'nocache' if case['store'] is None else ('empty' if not case['store'] else 'prefilled')}"
                        f"{'-timeout' if case['timed_out'] else ''}{'-raises' if 'err' in S else ''}"
                        f"{'-repkeys' if len({k for k, _ in case['inputs']}) < len(case['inputs']) else ''}", True)
        ctx.judge(case, L.jnum(R), L.jnum(S), None if M is None else L.jnum(M), what="parallelise")


def setup(ctx):
    ctx.build(PROPS)
    ctx.rule = (
        "random models (1-4 variables incl. initial-assignment ones, plain and initial-assignment parameters computed "
        "from initial values, derived, 1-3 polynomial reactions) x scan tables (1-3 columns over variables/parameters, "
        "1-40 rows, duplicate rows, custom/duplicate labels, optional y0) x worker kind (steady state, time course, "
        "protocol, protocol+time points) x integrator (toy Euler with chosen failing rows, or the shipped default) x "
        "execution mode; distinct = distinct case; non-trivial = the oracle produced at least one row"
    )
    ctx.assumptions += [
        "process isolation, pickling (value copy) and pebble's ordered map are assumed (hypotheses of the theorems), exercised by the worker-count sweep",
        "pool processes are forked (the harness registers generated functions in sys.modules so that they unpickle)",
        "the integrator is deterministic: the same model content and request give the same raw result",
        "worker counts for scan.* are varied by patching multiprocessing.cpu_count (scan.* has no max_workers argument)",
    ]
    ctx.trusted_base += ["pebble / multiprocessing / pickle; pandas concat / MultiIndex; scipy LSODA in the default-integrator stratum"]


def run(ctx):
    setup(ctx)
    rng = ctx.rng
    thorough = ctx.tier == "thorough"
    n = ctx.n(90, 1000)
    cases = []
    # seed-independent corpus: the hand-found witnesses
    cases += corpus()
    tries = 0
    while len(cases) < n and tries < 20 * n:
        tries += 1
        big = (len(cases) % 15 == 14)
        if len(cases) % 11 == 10:
            case = gen_zerodiv_case(rng)
        else:
            case = gen_mcscan(rng) if len(cases) % 9 == 8 else gen_case(rng, thorough, big=big)
        if finalize(case):
            cases.append(case)
        else:
            ctx.hist["skipped_inexact_or_blowup"] = ctx.hist.get("skipped_inexact_or_blowup", 0) + 1
    if not ctx.proof_ok:
        ctx.notes.append("proof side broken: widening the search")
        while len(cases) < 3 * n:
            case = gen_case(rng, True)
            if finalize(case):
                cases.append(case)
    run_par_stratum(ctx, rng, thorough)
    batch = 48
    for b in range(0, len(cases), batch):
        chunk = cases[b:b + batch]
        cm = [(c, modes_for(c, rng, thorough or not ctx.proof_ok)) for c in chunk]
        for (case, modes), (S, Rs, Ms) in zip(cm, evaluate(ctx, cm)):
            judge_case(ctx, case, modes, S, Rs, Ms)
        if len(ctx.violations) > 10:
            break
    pool().shutdown()


def corpus():
    """minimal witnesses of the two hand-confirmed defects (DESIGN §8), kept as permanent inputs"""
    ia_model = {"vars": [["x", {"v": "1"}]],
                "pars": [["k", {"ia": {"args": ["x"], "e": ["*", ["c", "2"], ["a", 0]]}}]],
                "derived": [], "surs": [],
                "rxns": [["v", {"args": ["k", "x"], "e": ["*", ["a", 0], ["a", 1]], "st": [["x", {"c": "-1"}]]}]]}
    plain = {"vars": [["x", {"v": "1"}]], "pars": [["k", {"v": "1/2"}]], "derived": [], "surs": [],
             "rxns": [["v", {"args": ["k", "x"], "e": ["*", ["a", 0], ["a", 1]], "st": [["x", {"c": "-1"}]]}]]}
    out = []
    for kind in ("ss", "tc"):
        c = {"content": ia_model, "y0": None, "cols": ["x"], "rows": [[0, ["1"]], [1, ["2"]]], "kind": kind,
             "cfg": {"nss": 2, "h": "1/4", "fail": []}, "fail_rows": [], "order": []}
        if kind == "tc":
            c["tps"] = ["0", "1/2", "1"]
        out.append(c)
    # failing rows: protocol (n*steps vs n*steps+1 rows), time course not starting at 0, protocol + time points
    for kind, extra in (("proto", {"proto": [["1", [["k", "1/2"]]], ["2", [["k", "1"]]]], "steps": 3}),
                        ("tc", {"tps": ["1/2", "1"]}),
                        ("tc", {"tps": ["0", "1/2", "1"]}),
                        ("ss", {}),
                        ("ptc", {"proto": [["1", [["k", "1/2"]]]], "tps": ["1/2", "1"]}),
                        ("ptc", {"proto": [["1", [["k", "1/2"]]]], "tps": ["0", "1/2", "1"]})):
        c = {"content": plain, "y0": None, "cols": ["x"], "rows": [[0, ["1"]], [1, ["2"]]], "kind": kind,
             "cfg": {"nss": 2, "h": "1/4", "fail": []}, "fail_rows": [1], "order": [], **extra}
        out.append(c)
    # F-C09-3: a row whose rate divides by zero at t = 0
    zd = {"vars": [["x0", {"v": "1"}]], "pars": [["kin", {"v": "1"}], ["km", {"v": "1"}]], "derived": [], "surs": [], "readouts": [],
          "rxns": [["r_in", {"args": ["kin"], "e": ["a", 0], "st": [["x0", {"c": "1"}]]}],
                   ["r_out", {"args": ["x0", "km"], "e": ["a", 0], "den": ["a", 1], "st": [["x0", {"c": "-1"}]]}]]}
    for kind, extra in (("ss", {}), ("tc", {"tps": ["0", "1/2", "1"]})):
        out.append({"content": zd, "y0": None, "cols": ["km"], "rows": [[0, ["1"]], [1, ["0"]], [2, ["2"]]], "kind": kind,
                    "cfg": {"nss": 3, "h": "1/4", "fail": []}, "fail_rows": [], "order": [], "zerodiv_rows": [1], **extra})
    # coverage corpus: every simulation driver sees, in every run, a table with REPEATED labels, an initial-value
    # column, a failing row and more rows (5) than the 2 processes of the quick tier's pool modes
    for kind, extra in (("ss", {}), ("tc", {"tps": ["1/4", "1/2"]}),
                        ("proto", {"proto": [["1/2", [["k", "1/2"]]], ["1", [["k", "1"]]]], "steps": 2}),
                        ("ptc", {"proto": [["1/2", [["k", "1/2"]]], ["1", [["k", "1"]]]], "tps": ["1/4", "3/4"]})):
        out.append({"content": ia_model_plus(), "y0": None, "cols": ["x", "k0"], "kind": kind,
                    "rows": [[l, r] for l, r in zip(["a", "b", "a", "c", "b"], [["1", "1"], ["2", "1/2"], ["3", "1"], ["1/2", "2"], ["3/2", "1"]])],
                    "cfg": {"nss": 2, "h": "1/4", "fail": []}, "fail_rows": [3], "order": [4, 0], "coverage": True, **extra})
    for c in out:
        assert finalize(c), c
    return out


def ia_model_plus():
    """x with a parameter computed from its initial value, a second plain parameter `k` for protocols"""
    return {"vars": [["x", {"v": "1"}]],
            "pars": [["k0", {"v": "1"}], ["k", {"v": "1/2"}], ["q", {"ia": {"args": ["x"], "e": ["*", ["c", "2"], ["a", 0]]}}]],
            "derived": [], "surs": [], "readouts": [],
            "rxns": [["vin", {"args": ["k0", "q"], "e": ["*", ["a", 0], ["a", 1]], "st": [["x", {"c": "1"}]]}],
                     ["v", {"args": ["k", "x"], "e": ["*", ["a", 0], ["a", 1]], "st": [["x", {"c": "-1"}]]}]]}


def replay(ctx, rp):
    case = rp["case"]
    if case.get("kind") == "parallelise":
        S, R = _work_par(case)
        a = driver.call_batch([par_request(case, 0)])[0] if ctx.driver_ok else None
        M = None if a is None else (canon_par(a) if "res" in a else {"driver": a})
        print("S =", S, "\nR =", R, "\nM =", M)
        ctx.count(case, "parallelise", True)
        ctx.judge(case, L.jnum(R), L.jnum(S), None if M is None else L.jnum(M), what="parallelise")
        return
    modes = case.get("modes") or [["seq"]]
    (S, Rs, Ms), = evaluate(ctx, [(case, modes)])
    print("S =", S)
    for mode, R, M in zip(modes, Rs, Ms):
        print("mode", mode, "\nR =", R, "\nM =", M)
        if case["cfg"] is not None and ctx.driver_ok and "res" in S:
            leg = canon_model(driver.call_batch([model_request(case, ["legacy"])])[0], S, case)
            if L.jnum(L.snap(reduce_nan(R), leg, TOL)) == L.jnum(reduce_nan(R)) and R != S:
                print("diagnosis: R matches the shared-model (pre-fix) variant of the Lean model: every row's lazily "
                      "computed result refers to ONE model object")
    judge_case(ctx, case, modes, S, Rs, Ms)
    pool().shutdown()
