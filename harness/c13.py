"""C13 — initial assignments resolve once at t=0; derived parameters are state-free (DESIGN §6/C13)."""
from __future__ import annotations

import itertools

from vlib import content as C
from vlib import fexpr

from . import corecommon as cc

PROPS = ["MxlVerif.Props.C13", "MxlVerif.Props.C13Main", "MxlVerif.Props.C01Tie"]


def setup(ctx):
    ctx.build(PROPS)
    ctx.shrinker = cc.shrink_case
    ctx.rule = (
        "(a) exhaustive: all classification graphs with 3 derived quantities, each with 1-2 arguments drawn from "
        "{plain parameter, assignment-defined parameter, variable, time, the other derived}, one declaration order per labelled graph cycling through all six (thorough: all six each) "
        "(thorough: 4 derived, sampled 60000 of 28^4); (b) random contents biased to initial assignments on variables and "
        "parameters chained through derived quantities, rates, surrogates and each other; observed: initial conditions, "
        "Simulator(model).y0, derived-parameter/variable names, get_args at states != initial state and times != 0; "
        "(c) the same after make_variable_static / make_parameter_dynamic through the API (assignment-defined values keep their kind). "
        "distinct = distinct (content, queries); non-trivial = has an initial assignment or a derived quantity"
    )
    ctx.assumptions += ["Simulator.__init__ beyond reading model.get_initial_conditions() is not modelled"]


BASE = ["p", "q", "x", "time"]


def class_content(arglists, order):
    n = len(arglists)
    derived = []
    for i in order:
        args = arglists[i]
        e = ["c", "1"]
        for j in range(len(args)):
            e = ["+", ["*", ["c", str(j + 2)], ["a", j]], e]
        derived.append([f"d{i}", {"args": list(args), "e": e}])
    return {
        "vars": [["x", {"v": "2"}]],
        "pars": [["p", {"v": "3"}], ["q", {"ia": {"args": ["p", "x"], "e": ["+", ["a", 0], ["a", 1]]}}]],
        "derived": derived,
        "rxns": [["r", {"args": [f"d{n-1}"], "e": ["a", 0], "st": [["x", {"c": "-1"}]]}]],
        "surs": [],
    }


def class_graphs(n):
    choices_for = []
    for i in range(n):
        names = BASE + [f"d{j}" for j in range(n) if j != i]
        ch = [[a] for a in names] + [list(c) for c in itertools.combinations(names, 2)]
        choices_for.append(ch)
    return itertools.product(*choices_for)


PERMS3 = [list(p) for p in itertools.permutations(range(3))]
QUERIES = [["init"], ["simy0"], ["classes"], ["pvals"], ["args", None, "0"],
           ["args", [["x", "5"]], "3"], ["rhs", [["x", "5"]], "3"], ["call", "3", ["5"]]]


def _tally(ctx, q, r):
    """distribution of what the generator reaches: query kind x outcome class of the real code"""
    if isinstance(r, dict) and "err" in r:
        cls = r["err"][0]
    elif isinstance(r, dict) and "ok" in r:
        cls = "ok"
    else:
        cls = "parts"
    d = ctx.extra_cov.setdefault("reached_outcomes", {})
    key = f"{q[0]}:{cls}"
    d[key] = d.get(key, 0) + 1


def judge_case(ctx, case, R, M, S):
    if any(s == "inexact" for s in S):
        ctx.hist["skipped_inexact"] = ctx.hist.get("skipped_inexact", 0) + 1
        return
    c = case["content"]
    # measured: initial assignments that name a reaction rate / a surrogate output ("even reaction rates")
    rates = {k for k, _ in c["rxns"]} | {o for _, su in c["surs"] for o in su["outs"]}
    n_rate = sum(1 for _, v in c["vars"] + c["pars"] if "ia" in v and rates & set(v["ia"]["args"]))
    if n_rate:
        d = ctx.extra_cov.setdefault("initial_assignments_over_rates", {"contents": 0, "assignments": 0})
        d["contents"] += 1
        d["assignments"] += n_rate
    nontrivial = bool(c["derived"]) or any("ia" in v for _, v in c["vars"] + c["pars"])
    ctx.count({k: case[k] for k in ("content", "queries")}, case.get("shape", ""), nontrivial)
    nq = len(case["queries"])
    for i in range(len(R)):
        q = case["queries"][i % nq]
        _tally(ctx, q, R[i])
        # a query is judged together with everything asked before it (the history matters)
        sub = {"content": c, "queries": case["queries"][: (i % nq) + 1], "decl_seed": case.get("decl_seed", 0)}
        if case.get("pre_edit"):
            sub["pre_edit"] = case["pre_edit"]
        if i >= nq:
            sub["edit"] = case["edit"]
        ctx.judge(sub, R[i], S[i], None if M is None else M[i],
                  what=f"query {q[0]}" + (" after edits" if i >= nq else ""))


def run_batch(ctx, cases):
    for case, (R, M, S) in zip(cases, cc.evaluate(cases, ctx.driver_ok)):
        judge_case(ctx, case, R, M, S)


def gen_random(ctx):
    rng = ctx.rng
    content = C.gen_content(rng, p_ia=0.9, n_pars=(1, 4), n_comps=(3, 9), p_time=0.4)
    qs = [["init"], ["simy0"], ["classes"], ["pvals"], ["args", None, "0"]]
    for _ in range(2):
        st = C.gen_state(rng, content, vals=(0, 1, 2, 4, 7))
        t = str(rng.choice([1, 2, 3, "1/2"]))
        qs += [["args", st, t], ["rhs", st, t], ["stoich", st, t]]
        touched = C.Spec(content).touched_vars()
        if touched:
            qs.append(["stoichvar", st, t, rng.choice(touched)])
    # a Simulator override in the middle must leave the model's own answers alone
    st = C.gen_state(rng, content, vals=(5, 7, 9))
    qs += [["simupd", st[: rng.randint(1, len(st))]], ["init"], ["simy0"], ["args", None, "0"]]
    case = {"content": content, "queries": qs, "decl_seed": rng.randrange(1 << 30), "shape": "rand:" + C.shape_of(content)[:14]}
    if rng.random() < 0.5:
        ed = cc.gen_edit(rng, content)
        if ed:
            case["edit"] = ed
    return case


def gen_mutated(ctx):
    """a variable made static / a parameter made dynamic through the API before anything is asked: an
    assignment-defined variable must come back as a parameter resolved once at t = 0 (not re-evaluated from the
    state), an assignment-defined parameter as a variable whose initial value is resolved at t = 0"""
    rng = ctx.rng
    while True:
        content = C.gen_content(rng, p_ia=0.9, n_vars=(2, 5), n_pars=(1, 4), n_comps=(3, 9), p_time=0.3)
        ia_vars = [k for k, v in content["vars"] if "ia" in v]
        ia_pars = [k for k, v in content["pars"] if "ia" in v]
        if ia_vars or ia_pars:
            break
    ops = []
    if ia_vars and (not ia_pars or rng.random() < 0.6):
        ops.append(["make_variable_static", rng.choice(ia_vars if rng.random() < 0.8 else [k for k, _ in content["vars"]]), None])
    else:
        ops.append(["make_parameter_dynamic", rng.choice(ia_pars if rng.random() < 0.8 else [k for k, _ in content["pars"]]), None])
    case = {"content": content, "pre_edit": ops, "decl_seed": rng.randrange(1 << 30), "shape": "mut:" + ops[0][0]}
    eff = cc.effective_content(case)
    qs = [["init"], ["classes"], ["pvals"], ["args", None, "0"]]
    for _ in range(2):
        st = C.gen_state(rng, eff, vals=(0, 1, 2, 4, 7))
        t = str(rng.choice([1, 2, 3, "1/2"]))
        qs += [["args", st, t], ["rhs", st, t], ["stoich", st, t]]
    case["queries"] = qs
    return case


def run(ctx):
    setup(ctx)
    thorough = ctx.tier == "thorough" or not ctx.proof_ok
    batch = []
    for idx, arglists in enumerate(class_graphs(3)):
        # every labelled graph is enumerated, so one declaration order per graph (cycling through all six) already
        # meets every (unlabelled graph, order) pair; thorough declares each graph in all six orders
        for order in ([PERMS3[idx % 6]] if not thorough else PERMS3):
            batch.append({"content": class_content(arglists, list(order)), "queries": QUERIES, "decl_seed": idx, "shape": "class3"})
        if len(batch) >= 4000:
            run_batch(ctx, batch)
            batch = []
    if batch:
        run_batch(ctx, batch)
    ctx.extra_cov["exhaustive_strata"] = ["all 21^3 classification graphs on 3 derived quantities"]
    if thorough:
        allg = None
        n4 = 60000
        ch = [len([1 for _ in range(7)]) for _ in range(4)]
        rng = ctx.rng
        batch = []
        for _ in range(n4):
            arglists = []
            for i in range(4):
                names = BASE + [f"d{j}" for j in range(4) if j != i]
                arglists.append(rng.sample(names, rng.choice([1, 2])))
            order = list(range(4))
            rng.shuffle(order)
            batch.append({"content": class_content(arglists, order), "queries": QUERIES, "decl_seed": 0, "shape": "class4"})
            if len(batch) >= 4000:
                run_batch(ctx, batch)
                batch = []
        if batch:
            run_batch(ctx, batch)
    n = ctx.n(500, 15000)
    done = 0
    while done < n:
        cases = [gen_random(ctx) for _ in range(min(250, n - done))]
        run_batch(ctx, cases)
        done += len(cases)
    run_batch(ctx, [gen_mutated(ctx) for _ in range(ctx.n(300, 6000))])


def replay(ctx, rp):
    case = rp["case"]
    case.setdefault("decl_seed", 0)
    (R, M, S), = cc.evaluate([case], ctx.driver_ok)
    print("R =", R, "\nM =", M, "\nS =", S)
    judge_case(ctx, case, R, M, S)
