"""Stratum of C04 / C14 with requested time grids that are NOT dyadic (R vs S, and vs M where the float arithmetic is exact).

The Lean models compute in `Rat` and are tied to the code on dyadic grids, where float arithmetic
is exact.  The property, however, speaks about the requested time points themselves: the result
index contains *exactly* the requested points later than the time reached (C04) / inside the
protocol (C14) -- the very floats the caller passed (a relative point `p` is the float `p + t_start`),
so that `result.loc[requested]` works.  Here the requested points are thirds, sevenths, tenths,
`np.linspace(0, 3, 22)`, `0.1 * k` ... while everything the *library* computes (previous ends, step
ends, overrides' time shift) stays dyadic, so the expected labels are known bit for bit.

S is a declarative Python restatement on an absolute clock (no integrator state, no shift, no
join): labels exact, per-row parameters exact, states from the closed form (1e-6).

M (round 3): every double is a rational, and the library does no arithmetic on the requested points unless a time
shift is set (`p - shift`, later `+ shift`) or the grid is relative (`p + t_start`).  `exact_for_model` checks, per
case, that those float operations are exact on the case's points (round trip `(p - shift) + shift == p`, `p + t_start`
without rounding); then the Lean model, fed the exact rationals of the doubles, must reproduce the labels bit for bit and
is compared as M (shape prefix `grid-exact:`).  Otherwise M = None as before (`grid:`).
"""
from __future__ import annotations

import math
from fractions import Fraction

from vlib.content import num

from . import c04

F = Fraction


def fl(s) -> float:
    return float(F(s))


# ----------------------------------------------------------------------------- generator
def _family(rng, lo: float, hi: float):
    """non-dyadic points in (lo - a bit, hi + a bit), as Python floats"""
    import numpy as np

    span = max(hi - lo, 0.5)
    r = rng.random()
    if r < 0.3:
        n = rng.choice([22, 8, 15, 11, 7])
        pts = [float(x) for x in np.linspace(lo, lo + span * rng.choice([1, 1, 1.25]), n)[1:]]
    elif r < 0.6:
        den = rng.choice([3, 7, 9, 21, 13])
        k0 = int(lo * den)
        pts = [k / den for k in range(k0, int((lo + span) * den) + 3)]
    elif r < 0.8:
        pts = [lo + 0.1 * k for k in range(0, int(span * 10) + 3)]
    else:
        pts = [lo + rng.randint(1, 60) / rng.choice([3, 7, 10, 30]) * span / 20 for _ in range(rng.randint(1, 6))]
    pts = sorted(set(pts))
    if len(pts) > 8 and rng.random() < 0.5:
        pts = sorted(rng.sample(pts, rng.randint(2, 8)))
    return pts


def gen_case(rng, protocols=True):
    pars = [["k", rng.choice(["0", "1/2", "1", "2"])], ["u", rng.choice(["0", "1", "2"])], ["w", rng.choice(["0", "1", "3"])]]
    ops, now = [], F(0)
    for _ in range(rng.choice([0, 0, 1, 1, 2, 3])):
        r = rng.random()
        if r < 0.45:
            now += F(rng.randint(1, 8), 4)
            ops.append(["sim", c04.fs(now), rng.choice([1, 2, 4])])
        elif r < 0.7:
            ops.append(["var", [[rng.choice(c04.VARS), rng.choice(["0", "1", "5/2", "8"])]]])
        else:
            ops.append(["par", [[rng.choice(["k", "u", "w"]), rng.choice(["0", "1/2", "1", "2"])]]])
    for _ in range(rng.choice([1, 1, 2])):
        if protocols and rng.random() < 0.65:
            n = rng.randint(1, 4)
            keys = rng.sample(["k", "u", "w"], rng.randint(1, 2))
            steps = [[rng.choice(["1/4", "1/2", "3/4", "1", "3/2", "2"]), [[k, rng.choice(["0", "1/2", "1", "2"])] for k in keys]]
                     for _ in range(n)]
            total = sum(F(d) for d, _ in steps)
            rel = rng.random() < 0.5
            base = 0.0 if rel else float(now)
            pts = [p for p in _family(rng, base, base + float(total)) if p + (float(now) if rel else 0.0) > float(now)]
            if not pts:
                pts = [base + float(total) / 3]
            ops.append(["ptc", steps, [repr(p) for p in pts], rel])
            now += total
        else:
            span = rng.choice([1.0, 2.0, 3.0])
            pts = _family(rng, float(now), float(now) + span)
            if rng.random() < 0.3 and float(now) > 0:
                pts = sorted(set(pts) | {float(now)})  # the time reached itself may be asked for again
            if pts[-1] <= float(now):
                pts.append(float(now) + span / 3)
            ops.append(["tc", [repr(p) for p in pts]])
            # the next library-side start is the last requested float: continue only with tc (labels stay known)
            ops_tail_now = pts[-1]
            if rng.random() < 0.4:
                more = [p for p in _family(rng, ops_tail_now, ops_tail_now + 1.0) if p > ops_tail_now]
                if more:
                    ops.append(["tc", [repr(p) for p in more]])
            break
    return {"pars": pars, "ops": ops, "grid": "non-dyadic"}


def fixed_cases():
    """seed-independent members: the grids the property's examples use"""
    import numpy as np

    P1 = [["1", [["k", "1"]]], ["2", [["k", "2"]]]]
    lin = [repr(float(x)) for x in np.linspace(0, 3, 22)]
    out = []
    for pre in ([], [["sim", "3/4", 2]], [["sim", "2", 2], ["var", [["x", "1"]]]]):
        start = float(sum((F(o[1]) for o in pre if o[0] == "sim"), F(0)))
        out.append({"pars": c04.PARS0, "ops": [*pre, ["ptc", P1, lin[1:], True]], "grid": "non-dyadic"})
        out.append({"pars": c04.PARS0, "ops": [*pre, ["ptc", P1, [repr(start + k / 7) for k in range(1, 22)], False]], "grid": "non-dyadic"})
        out.append({"pars": c04.PARS0, "ops": [*pre, ["tc", [repr(start + k / 3) for k in range(1, 8)]]], "grid": "non-dyadic"})
        out.append({"pars": c04.PARS0, "ops": [*pre, ["tc", [repr(start + 0.1 * k) for k in range(1, 12)]]], "grid": "non-dyadic"})
    return out


# ----------------------------------------------------------------------------- the oracle S
def spec(case):
    """expected outcome per op and expected rows [(label, parameters, state)] on an absolute clock"""
    p = {k: fl(v) for k, v in case["pars"]}
    now, cur = 0.0, dict(c04.Y0)
    rows, have = [], False
    outs = []

    def pcanon():
        return sorted([k, num(v)] for k, v in p.items())

    def stretch(labels, end):
        """record the flow from (now, cur) at the labels (all > now), move the clock to `end`"""
        nonlocal now, cur, have
        if not have:
            rows.append((now, pcanon(), dict(cur)))
            have = True
        for t in labels:
            rows.append((t, pcanon(), c04.closed_flow(p, cur, t - now)))
        cur = c04.closed_flow(p, cur, end - now)
        now = end

    for op in case["ops"]:
        kind = op[0]
        if kind == "par":
            for k, v in op[1]:
                p[k] = fl(v)
        elif kind == "var":
            cur = dict(cur)
            for k, v in op[1]:
                cur[k] = fl(v)
        elif kind == "sim":
            t, n = fl(op[1]), op[2]
            stretch([now + i * (t - now) / n for i in range(1, n + 1)], t)
        elif kind == "tc":
            pts = [fl(x) for x in op[1]]
            stretch([t for t in pts if t > now], pts[-1])
        elif kind == "ptc":
            t0 = now
            pts = [fl(x) + t0 if op[3] else fl(x) for x in op[2]]
            lo = t0
            acc = F(0)
            for d, kv in op[1]:
                acc += F(d)
                hi = float(F(t0) + acc)  # step ends are dyadic: exact
                for k, v in kv:
                    p[k] = fl(v)
                labels = sorted({t for t in pts if lo < t <= hi} | {hi})
                stretch(labels, hi)
                lo = hi
        else:
            raise AssertionError(kind)
        outs.append(None)
    return {"outs": outs, "rows": rows, "pars": pcanon()}


def observe(real):
    rows = []
    snap = real["snaps"][-1]
    for s in snap["segs"] or []:
        order = [s["cols"].index(v) if v in s["cols"] else None for v in c04.VARS]
        for t, vals in zip(s["idx"], s["vals"]):
            rows.append((t, s["pars"], {v: (vals[o] if o is not None else math.nan) for v, o in zip(c04.VARS, order)}))
    return {"outs": real["outs"], "rows": rows, "pars": snap["pars"]}


def canon_pair(R, S):
    """labels as exact fractions of the doubles; states snapped to the oracle's when within tolerance"""
    def rows(obj, ref=None):
        out = []
        for i, (t, pars, st) in enumerate(obj["rows"]):
            vec = [st[v] for v in c04.VARS]
            if ref is not None and i < len(ref["rows"]):
                rv = [ref["rows"][i][2][v] for v in c04.VARS]
                if all(c04.close(a, b) for a, b in zip(vec, rv)):
                    vec = rv
            out.append([c04.fs(t), repr(t), pars, [repr(round(x, 12)) for x in vec]])
        return out

    return ({"outs": R["outs"], "pars": R["pars"], "rows": rows(R, S)},
            {"outs": S["outs"], "pars": S["pars"], "rows": rows(S)})


def shape_of(case):
    return "grid:" + c04.shape_of({"ops": [o if o[0] != "ptc" else ["ptc"] for o in case["ops"]]}) + \
        ("r" if any(o[0] == "ptc" and o[3] for o in case["ops"]) else "")


def exact_for_model(case) -> bool:
    """are the library's float operations on this case's requested points exact (so that the `Rat` model, fed the
    doubles as rationals, computes the very labels the code computes)?"""
    now, shift = 0.0, None
    for op in case["ops"]:
        kind = op[0]
        if kind == "sim":
            now = fl(op[1])
        elif kind == "var":
            shift = now if now > 0.0 or shift is not None else None  # before the first simulation no shift is set
        elif kind == "tc":
            pts = [fl(x) for x in op[1]]
            if shift is not None and any((p - shift) + shift != p or F(p - shift) != F(p) - F(shift) for p in pts if p >= now):
                return False
            now = pts[-1]
        elif kind == "ptc":
            pts = [fl(x) for x in op[2]]
            if op[3]:
                if any(F(p + now) != F(p) + F(now) for p in pts):
                    return False
                pts = [p + now for p in pts]
            if shift is not None and any((p - shift) + shift != p or F(p - shift) != F(p) - F(shift) for p in pts if p >= now):
                return False
            now = float(F(now) + sum(F(d) for d, _ in op[1]))
    return True


def model_ops(case):
    """the case with every number as the exact rational of the double the code receives"""
    out = []
    for op in case["ops"]:
        if op[0] == "tc":
            out.append(["tc", [c04.fs(fl(x)) for x in op[1]]])
        elif op[0] == "ptc":
            out.append(["ptc", op[1], [c04.fs(fl(x)) for x in op[2]], op[3]])
        else:
            out.append(op)
    return out


def model_obs(drv):
    """driver answer (impl machine) in the shape of `observe`"""
    exact, vals = c04.model_snap(drv["impl"]["snaps"][-1])
    rows = []
    for s, vs in zip(exact["segs"] or [], vals or []):
        for t, v in zip(s["idx"], vs):
            rows.append((float(F(t)), s["pars"], dict(zip(c04.VARS, v))))
    return {"outs": drv["impl"]["outs"], "rows": rows, "pars": exact["pars"]}


def evaluate(case, with_model=False):
    real = c04.real_run(case)
    R, S = canon_pair(observe(real), spec(case))
    if not with_model:
        return R, S
    M = None
    if exact_for_model(case):
        from vlib import driver

        (drv,) = driver.call_batch([{"op": "c14", "pars": case["pars"], "ops": model_ops(case)}])
        M, _ = canon_pair(model_obs(drv), spec(case))
    return R, S, M


def shrink(case):
    """drop ops / requested points / steps while R != S"""
    from vlib.framework import canon

    def bad(c):
        try:
            R, S = evaluate(c)
        except Exception:  # noqa: BLE001
            return False
        return canon(R) != canon(S)

    cur = case
    changed = True
    while changed:
        changed = False
        ops = cur["ops"]
        cands = [dict(cur, ops=ops[:i] + ops[i + 1:]) for i in range(len(ops)) if len(ops) > 1]
        for i, o in enumerate(ops):
            slot = 2 if o[0] == "ptc" else 1 if o[0] == "tc" else None
            if slot is not None and len(o[slot]) > 1:
                for j in range(len(o[slot])):
                    o2 = list(o)
                    o2[slot] = o[slot][:j] + o[slot][j + 1:]
                    cands.append(dict(cur, ops=ops[:i] + [o2] + ops[i + 1:]))
            if o[0] == "ptc" and len(o[1]) > 1:
                for j in range(len(o[1])):
                    o2 = list(o)
                    o2[1] = o[1][:j] + o[1][j + 1:]
                    cands.append(dict(cur, ops=ops[:i] + [o2] + ops[i + 1:]))
        for c in cands:
            if _legal(c) and bad(c):
                cur, changed = c, True
                break
    return cur


def _legal(case):
    """the oracle's domain: sorted distinct requested points, last one later than the time reached"""
    now = 0.0
    for op in case["ops"]:
        if op[0] == "sim":
            if fl(op[1]) <= now:
                return False
            now = fl(op[1])
        elif op[0] == "tc":
            pts = [fl(x) for x in op[1]]
            if not pts or pts != sorted(set(pts)) or pts[-1] <= now:
                return False
            now = pts[-1]
        elif op[0] == "ptc":
            pts = [fl(x) + now if op[3] else fl(x) for x in op[2]]
            if not pts or pts != sorted(set(pts)) or pts[-1] <= now or not op[1]:
                return False
            now = float(F(now) + sum(F(d) for d, _ in op[1]))
    return True


def process(ctx, cases):
    from vlib.framework import canon

    cases = [c for c in cases if _legal(c)]
    reals = c04.pool().map(c04.real_run, cases, chunksize=8) if len(cases) > 1 else [c04.real_run(c) for c in cases]
    drvs = {}
    if ctx.driver_ok:
        from vlib import driver

        ex = [i for i, c in enumerate(cases) if exact_for_model(c)]
        answers = driver.call_batch([{"op": "c14", "pars": cases[i]["pars"], "ops": model_ops(cases[i])} for i in ex])
        drvs = dict(zip(ex, answers))
    for i, (case, real) in enumerate(zip(cases, reals)):
        R, S = canon_pair(observe(real), spec(case))
        M = None
        if i in drvs:
            M, _ = canon_pair(model_obs(drvs[i]), spec(case))
        ctx.count(case, ("grid-exact:" if M is not None else "grid:") + shape_of(case)[5:], len(R["rows"]) > 2)
        if canon(R) != canon(S) and len(ctx.violations) <= 3:
            small = shrink(case)
            R2, S2 = evaluate(small)
            if canon(R2) != canon(S2):
                case, R, S = small, R2, S2
                M = None
        ctx.judge(case, R, S, M, what="non-dyadic requested grid: exact index labels / parameters / states"
                  + (" (model fed the doubles as rationals)" if M is not None else " (oracle-only)"))


def run(ctx, n, protocols=True):
    cases = [c for c in fixed_cases() if protocols or all(o[0] != "ptc" for o in c["ops"])]
    cases += [gen_case(ctx.rng, protocols) for _ in range(n)]
    process(ctx, cases)


def replay(ctx, case):
    R, S, M = evaluate(case, with_model=ctx.driver_ok)
    print("R =", R, "\nS =", S, "\nM =", M)
    ctx.count(case, shape_of(case))
    ctx.judge(case, R, S, M, what="non-dyadic requested grid: exact index labels / parameters / states")
